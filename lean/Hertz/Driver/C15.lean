import Hertz.Driver.Core
import Hertz.Model.Bind
import Hertz.Spec.Bind
/-!
Driver handler for C15.  One case:

`bind <mode> <nfields> FIELD… REQ`
* FIELD = `<name hex> <type> <N | D<hex>> <ntags> (<source> <content hex>)…`; type = stars, optional `[]`,
  stars, base (`b i i8 i16 i32 i64 u u8 u16 u32 u64 f32 f64 s`)
* REQ = six counted `(key value)` lists (path params, post args, multipart values, query, cookies, headers),
  the Content-Type (hex), the body: `0` | `XF` `XM` `XG` (non-JSON bodies) | `J <n> (<key hex> JVAL)…`
* JVAL = `n t f o i<dec> d<text> s<hex>` or `a<count>` followed by that many atoms
* `<mode>` says how the implementation was called (fresh binder / global binder / session binder / concurrently);
  the model ignores it: that is the point.

Implementation output: `OK <field>…` or `ERR:<class>`.
-/
namespace Hertz.Driver.C15
open Hertz Hertz.Driver Hertz.Bind

abbrev P := StateT (List String) Option

def tok : P String := fun s => match s with
  | [] => none
  | t :: r => some (t, r)

def natTok : P Nat := do
  let t ← tok
  t.toNat?

def hexTok : P Bytes := do
  let t ← tok
  hx t

def rep {α} (p : P α) : Nat → P (List α)
  | 0 => pure []
  | n + 1 => do
    let a ← p
    let r ← rep p n
    pure (a :: r)

def counted {α} (p : P α) : P (List α) := do
  let n ← natTok
  rep p n

def parseBase (s : String) : Option Base :=
  match s with
  | "b" => some .bool | "s" => some .str
  | "i" => some (.int 0) | "i8" => some (.int 8) | "i16" => some (.int 16) | "i32" => some (.int 32) | "i64" => some (.int 64)
  | "u" => some (.uint 0) | "u8" => some (.uint 8) | "u16" => some (.uint 16) | "u32" => some (.uint 32) | "u64" => some (.uint 64)
  | "f32" => some (.float 32) | "f64" => some (.float 64)
  | _ => none

def parseTy (s : String) : Option Ty :=
  let cs := s.toList
  let p := (cs.takeWhile (· == '*')).length
  let r := cs.dropWhile (· == '*')
  match r with
  | '[' :: ']' :: e =>
    let ep := (e.takeWhile (· == '*')).length
    (parseBase (String.ofList (e.dropWhile (· == '*')))).map (fun b => { base := b, ptr := p, slice := true, elemPtr := ep })
  | _ => (parseBase (String.ofList r)).map (fun b => { base := b, ptr := p })

def parseField : P Field := do
  let name ← hexTok
  let ty ← (do let t ← tok; (parseTy t : Option Ty))
  let d ← tok
  let dflt ← (match d.toList with
    | ['N'] => pure none
    | 'D' :: r => (do let b ← (hx (String.ofList r) : Option Bytes); pure (some b))
    | _ => failure : P (Option Bytes))
  let tags ← counted (do
    let s ← tok
    let src ← (Src.ofName s : Option Src)
    let c ← hexTok
    pure (src, c))
  pure { name, ty, tags, dflt }

def kv : P KV := do
  let k ← hexTok
  let v ← hexTok
  pure (k, v)

def parseAtom (t : String) : Option JAtom :=
  match t.toList with
  | ['n'] => some .null
  | ['t'] => some (.bool true)
  | ['f'] => some (.bool false)
  | ['o'] => some .obj
  | 'i' :: r => (String.ofList r).toInt?.map .int
  | 'd' :: r => some (.num (r.map (fun c => c.toNat.toUInt8)))
  | 's' :: r => (hx (String.ofList r)).map .str
  | _ => none

def parseJVal : P JVal := do
  let t ← tok
  match t.toList with
  | 'a' :: r => do
    let n ← ((String.ofList r).toNat? : Option Nat)
    let l ← rep (do let a ← tok; (parseAtom a : Option JAtom)) n
    pure (.arr l)
  | _ => do
    let a ← (parseAtom t : Option JAtom)
    pure (.atom a)

def parseBody : P Body := do
  let t ← tok
  match t with
  | "0" => pure .none
  | "XF" | "XM" | "XG" => pure .notJson
  | "J" => do
    let ms ← counted (do
      let k ← hexTok
      let v ← parseJVal
      pure (k, v))
    pure (.json ms)
  | _ => failure

def parseReq : P Req := do
  let params ← counted kv
  let form ← counted kv
  let mform ← counted kv
  let query ← counted kv
  let cookies ← counted kv
  let headers ← counted kv
  let ct ← hexTok
  let body ← parseBody
  pure { params, form, mform, query, cookies, headers, ct, body }

def parseCase : P (List Field × Req) := do
  let fields ← counted parseField
  let r ← parseReq
  pure (fields, r)

/-! rendering -/

def stars (n : Nat) : String := String.ofList (List.replicate n '*')

def asciiStr (b : Bytes) : String := String.ofList (b.map (fun c => Char.ofNat c.toNat))

def scalarTok : Scalar → String
  | .b v => "b" ++ boolTok v
  | .i v => "i" ++ toString v
  | .u n => "u" ++ toString n
  | .f t => "f" ++ asciiStr t
  | .s v => "s" ++ encHex v

def zeroTok : Base → String
  | .bool => "b0" | .int _ => "i0" | .uint _ => "u0" | .float _ => "f0" | .str => "s-"

def renderField (ty : Ty) : FieldVal → String
  | .unset => if ty.slice ∨ ty.ptr > 0 then "nil" else zeroTok ty.base
  | .one s => stars ty.ptr ++ scalarTok s
  | .many l =>
    stars ty.ptr ++ "[" ++ ",".intercalate (l.map (fun e => match e with
      | none => if ty.elemPtr > 0 then "nil" else zeroTok ty.base
      | some s => stars ty.elemPtr ++ scalarTok s)) ++ "]"

def errTok : ErrKind → String
  | .required => "ERR:required" | .conv => "ERR:conv" | .body => "ERR:body"

def renderAll : List Field → List FieldVal → List String
  | f :: fs, v :: vs => renderField f.ty v :: renderAll fs vs
  | _, _ => []

/-- `none` = the model has no opinion (float or JSON text outside the grammars it reads) -/
def renderOutcome (fields : List Field) : Outcome → Option (List String)
  | .ok vals => some ("OK" :: renderAll fields vals)
  | .err e => some [errTok e]
  | .unk => none

def srcTag (fields : List Field) (r : Req) : String :=
  -- which source decided the first field, as seen by the spec
  match fields with
  | [] => "-"
  | f :: _ => Spec.Bind.decidedBy f r

/-- class of a spec failure: when both sides bound all fields, every field that differs must fall in a
known class; when one side failed, some field must -/
def classify (fields : List Field) (r : Req) (impl specOut : List String) : String :=
  match impl, specOut with
  | "OK" :: a, "OK" :: b =>
    let diff := ((fields.zip (a.zip b)).filter (fun x => x.2.1 != x.2.2)).map (·.1)
    let cs := diff.map (fun f => Spec.Bind.fieldClass f r)
    if cs.all (· != "") then cs.headD "" else ""
  | _, _ => ((fields.map (fun f => Spec.Bind.fieldClass f r)).find? (· != "")).getD ""

/-! sequences of entry-point calls on one binder -/

def parseApi (s : String) : Option Api :=
  match s with
  | "a" => some .bind | "v" => some .validate | "p" => some .path
  | "f" => some .form | "q" => some .query | "h" => some .header
  | _ => none

def apiChar : Api → Char
  | .bind => 'a' | .validate => 'v' | .path => 'p' | .form => 'f' | .query => 'q' | .header => 'h'

def parseSeq : P (List (List Field) × List (Api × Nat × Req)) := do
  let types ← counted (counted parseField)
  let steps ← counted (do
    let a ← (do let t ← tok; (parseApi t : Option Api))
    let ti ← natTok
    let r ← parseReq
    pure (a, ti, r))
  pure (types, steps)

/-- implementation output of a sequence: the outcome tokens of each step, each followed by `;` -/
def splitSteps (l : List String) : List (List String) :=
  let rec go (cur : List String) : List String → List (List String)
    | [] => if cur.isEmpty then [] else [cur.reverse]
    | t :: r => if t == ";" then cur.reverse :: go [] r else go (t :: cur) r
  go [] l

/-- some full bind of a type comes after a tag-restricted bind of the same type (or the other way round) -/
def crossUse (steps : List (Api × Nat × Req)) : Bool :=
  let rec go : List (Api × Nat × Req) → Bool
    | [] => false
    | s :: rest => rest.any (fun s' => s'.2.1 == s.2.1 && (s'.1.byTag != s.1.byTag)) || go rest
  go steps

def handle : Handler
  | "bind" :: mode :: rest, impl => do
    let ((fields, r), left) ← parseCase rest
    if !left.isEmpty then none
    let m := bind fields r
    let out := (renderOutcome fields m).getD impl
    -- the spec is evaluated on the implementation's output
    let sp := Spec.Bind.specBind fields r
    let specOut := renderOutcome fields sp
    let specOk := match specOut with
      | none => true
      | some o => o == impl
    let shape := match m with
      | .ok _ => "ok" | .err e => errTok e | .unk => "unk"
    let bodyTag := match r.body with
      | .none => "0" | .notJson => "X" | .json _ => "J"
    pure { out := out, spec := specOk,
           specNote := "declarative binding spec; expected " ++ " ".intercalate (specOut.getD []),
           cls := if specOk then "" else classify fields r impl (specOut.getD []),
           tag := "bind:" ++ mode ++ ":" ++ toString fields.length ++ ":" ++ bodyTag ++ ":" ++ shape ++ ":" ++ srcTag fields r }
  | "bindseq" :: mode :: rest, impl => do
    let ((types, steps), left) ← parseSeq rest
    if !left.isEmpty then none
    let implSteps := splitSteps impl
    if implSteps.length != steps.length then none
    let ops := steps.map (fun s => (s.1, types.getD s.2.1 [], s.2.2))
    -- the model runs the calls through ONE binder with its five caches, as the harness does
    let ms := ({} : TagBinder).run ops
    let rows := (ops.zip (ms.zip implSteps)).map (fun x =>
      let (a, fields, r) := x.1
      let m := x.2.1
      let im := x.2.2
      let out := (renderOutcome fields m).getD im
      -- the spec is stateless: a function of entry point, type and request
      let specOut := renderOutcome fields (Spec.Bind.specBindBy a.byTag fields r)
      let ok := match specOut with
        | none => true
        | some o => o == im
      let cls := if ok then "" else match a.byTag with
        | none => classify fields r im (specOut.getD [])
        | some _ => ""
      (out, ok, cls, specOut.getD []))
    let out := (rows.map (fun x => x.1 ++ [";"])).flatten
    let bad := rows.filter (fun x => !x.2.1)
    let specOk := bad.isEmpty
    let cls := if bad.all (fun x => x.2.2.1 != "") then (bad.map (·.2.2.1)).headD "" else ""
    let firstBad := (rows.findIdx? (fun x => !x.2.1)).getD 0
    pure { out := out, spec := specOk,
           specNote := "stateless spec of every entry point; step " ++ toString firstBad ++ " expected " ++
             " ".intercalate ((bad.map (·.2.2.2)).headD []),
           cls := if specOk then "" else cls,
           tag := "seq:" ++ mode ++ ":" ++ sizeClass steps.length ++ ":" ++ (if crossUse steps then "x" else "-") ++ ":" ++
             String.ofList ((steps.take 2).map (fun s => apiChar s.1)) ++ ":" ++ (if specOk then "ok" else "dev") }
  | _, _ => none

end Hertz.Driver.C15
