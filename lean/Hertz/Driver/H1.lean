import Hertz.Driver.Core
import Hertz.Model.Http1.Serve
import Hertz.Driver.H1Spec
namespace Hertz.Driver.H1
open Hertz Hertz.Driver Hertz.H1

def headTokens (hd : ReqHead) : List String :=
  [encHex hd.method, encHex (if hd.uri.isEmpty then [47] else hd.uri), boolTok hd.http11, encHex hd.host, encHex hd.userAgent, encHex hd.contentType,
   toString hd.cl, encHex hd.clBytes, boolTok hd.connClose, toString hd.h.length]
  ++ hd.h.flatMap (fun kv => [encHex kv.1, encHex kv.2])
  ++ [toString hd.trailer.length] ++ hd.trailer.map encHex

def errBody : Nat → Bytes
  | 400 => "Error when parsing request".toUTF8.toList
  | 413 => "Request Entity Too Large".toUTF8.toList
  | 408 => "Request timeout".toUTF8.toList
  | _ => []

/-- projection of the event list onto what the harness prints -/
def evTokens (evs : List Ev) : List String :=
  let seen := evs.filterMap (fun e => match e with | .req s => some s | _ => none)
  let rec resps : List Ev → Nat → Bool → List String
    | [], _, _ => []
    | .unmodelled :: t, i, hd => resps t i hd
    | .continue100 :: t, i, hd => "100" :: "0" :: "-" :: resps t i hd
    | .req s :: t, i, _ => resps t (i + 1) (s.head.method == Gen.Str.strHead)
    | .resp st cl :: t, i, hd =>
      toString st :: boolTok cl :: encHex (if st = 200 then (if hd then [] else ("r" ++ toString i).toUTF8.toList) else errBody st) :: resps t i hd
  let nresp := (evs.filter (fun e => match e with | .req _ => false | _ => true)).length
  ["S", toString seen.length]
  ++ seen.flatMap (fun s => headTokens s.head ++ [encHex s.body, toString s.trailers.length] ++ s.trailers.flatMap (fun kv => [encHex kv.1, encHex kv.2]))
  ++ ["R", toString nresp] ++ resps evs 0 false ++ ["W", "1"]

def evTag (evs : List Ev) : String :=
  let n := (evs.filter (fun e => match e with | .req _ => true | _ => false)).length
  let last := match evs.getLast? with
    | some (.resp st cl) => toString st ++ boolTok cl
    | _ => "none"
  let chunked := evs.any (fun e => match e with | .req s => !s.trailers.isEmpty || s.head.clBytes != [] && s.body.length > 0 | _ => false)
  toString (min n 4) ++ ":" ++ last ++ boolTok chunked ++ boolTok (evs.contains .continue100)

def handle : Handler
  | ["reqhead", dn, buf], _ => do
    let buf ← hx buf
    match parseReqHead (dn == "1") buf with
    | .ok (hd, n) =>
      pure { out := "ok" :: toString n :: headTokens hd,
             tag := "reqhead:ok:" ++ sizeClass hd.h.length ++ toString (if hd.cl < 0 then hd.cl else 0) ++ boolTok hd.connClose ++ boolTok hd.http11 ++ boolTok (!hd.trailer.isEmpty) }
    | .error .needMore => pure { out := ["needmore"], tag := "reqhead:needmore" }
    | .error .bad => pure { out := ["bad"], tag := "reqhead:bad" }
  | ["serve", flags, maxBody, endK, stream, _cuts], impl => do
    let s ← hx stream
    let cfg : Cfg := { disableNorm := flags.contains 'n', disableKeepalive := flags.contains 'k', preParse := flags.contains 'p', maxBody := (if maxBody.toNat! = 0 then 4194304 else maxBody.toNat!) }
    let e := if endK == "stall" then End.stall else End.eof
    let evs := serve cfg e s
    let (ok, note) := match H1Spec.parseImpl impl with
      | none => (false, "impl-output-unparsable(panic/hang)")
      | some o =>
        let (ok1, n1) := H1Spec.c01 s cfg.disableNorm cfg.preParse cfg.disableKeepalive (fun n => n > cfg.maxBody) o
        (ok1 && H1Spec.c03 o, (if ok1 then "" else "C01-view-mismatch ") ++ (if H1Spec.c03 o then "" else "C03-unclean-output ") ++ n1)
    let unm := evs.contains .unmodelled
    let cls := match note.splitOn " known:" with
      | [_, c] => c
      | _ => ""
    pure { out := (if unm then impl else evTokens evs), spec := ok, specNote := note, cls := cls,
           tag := "serve:" ++ evTag evs ++ (if endK == "stall" then "S" else "E") ++ ":" ++ (if ok then note else "") }
  | ["redir", _m, _t, pfx], impl => do
    -- the redirect paths of the router (`redirectTrailingSlash`, `redirectFixedPath`) feed the peer-controlled
    -- `X-Forwarded-Prefix` header to `utils.CleanPath`; the Location they build is not modelled, the C03 clauses are:
    -- no panic, no hang, exactly one well-formed response, a handler ran iff the status is 200
    let p ← hx pfx
    let ok := match impl with
      | ["R", "1", st, _cl, "W", "1", "H", h] =>
        (st == "200" && h == "1") || ((st == "301" || st == "307" || st == "404" || st == "400") && h == "0")
      | _ => false
    pure { out := impl, spec := ok, specNote := "one clean response, no panic, for every X-Forwarded-Prefix value",
           tag := "redir:" ++ impl.getD 2 "?" ++ ":" ++ sizeClass p.length }
  | _, _ => none

end Hertz.Driver.H1
