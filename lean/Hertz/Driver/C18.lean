import Std.Data.HashSet
import Hertz.Driver.Core
import Hertz.Model.Shutdown
import Hertz.Spec.Shutdown
import Hertz.Model.ShutdownSpin
import Hertz.Spec.ShutdownArriving
/-!
Driver for property C18.

`c18 <script…> | <observed events…>`: the observed event sequence of a real server instance must be
*accepted* by the interleaving model: there must be a way to insert the unobservable atomic steps
(status load / CAS, hook spawning, listener close, ticker checks, exit check, response write,
`updateActive(-1)`, …) between the observed ones such that `Hertz.Shutdown.run` executes the whole
sequence.  The search keeps a set of model states (subset construction); every surviving state
carries the full action sequence that led to it, and the sequence of the first survivor is
re-executed with `run` at the end (so acceptance never rests on the search code alone).

The spec predicate `Hertz.ShutdownSpec.violations` is evaluated on the observed sequence itself.
-/
namespace Hertz.Driver.C18
open Hertz Hertz.Driver Hertz.Shutdown
open Hertz.ShutdownSpec (Ev TEv)

def nat? (s : String) : Option Nat := s.toNat?

def parseEv (tok : String) : Option TEv :=
  match tok.splitOn "," with
  | ["L", t] => do pure ⟨.L, ← nat? t⟩
  | ["RR", t] => do pure ⟨.RR, ← nat? t⟩
  | ["Ds", i, t] => do pure ⟨.Ds (← nat? i), ← nat? t⟩
  | ["De", i, ok, t] => do pure ⟨.De (← nat? i) (ok == "1"), ← nat? t⟩
  | ["A", c, t] => do pure ⟨.A (← nat? c), ← nat? t⟩
  | ["Q", c, k, rc, t] => do pure ⟨.Q (← nat? c) (← nat? k) (rc == "1"), ← nat? t⟩
  | ["X", c, k, rc, t] => do pure ⟨.X (← nat? c) (← nat? k) (rc == "1"), ← nat? t⟩
  | ["R", c, k, cl, co, t] => do pure ⟨.R (← nat? c) (← nat? k) (cl == "1") (co == "1"), ← nat? t⟩
  | ["F", c, k, t] => do pure ⟨.F (← nat? c) (← nat? k), ← nat? t⟩
  | ["FN", c, k, t] => do pure ⟨.FN (← nat? c) (← nat? k), ← nat? t⟩
  | ["B", c, t] => do pure ⟨.B (← nat? c), ← nat? t⟩
  | ["C", c, t] => do pure ⟨.C (← nat? c), ← nat? t⟩
  | ["E", c, t] => do pure ⟨.E (← nat? c), ← nat? t⟩
  | ["S", k, t] => do pure ⟨.S (← nat? k), ← nat? t⟩
  | ["T", k, e, t] => do pure ⟨.T (← nat? k) e, ← nat? t⟩
  | ["HS", j, t] => do pure ⟨.HS (← nat? j), ← nat? t⟩
  | ["HE", j, t] => do pure ⟨.HE (← nat? j), ← nat? t⟩
  | _ => none

def errOfTok : String → Option Err
  | "nil" => some .nil
  | "notrunning" => some .notRunning
  | "timeout" => some .timeout
  | _ => none

/-- the model actions an observed event stands for (`none`: the model has no such behaviour) -/
def obsActs (np : Bool) (s : State) : Ev → Option (List Act)
  | .L => some [.init, .markRunning, .listen]
  | .RR => some []
  | .Ds i => if i = s.dials.length then some [.dialStart] else none
  | .De i ok => some [.dialEnd i ok]
  | .A c => if c = s.conns.length then some [.accept] else none
  | .Q c k rc =>
    match s.conns[c]? with
    | some cn => if cn.started = k then some [.reqArrive c rc] else none
    | none => none
  | .X c _ rcl => some [.handlerRet c rcl]
  | .R c k cl complete =>
    match s.conns[c]? with
    | some cn => if complete && cn.acked = k then some [.clientRead c cl] else none
    | none => none
  -- a request failed at the client: fine if it never reached a handler; if it did, the model (standard
  -- transport) has no behaviour that loses the response.  netpoll may tear down a connection it took for
  -- idle while the request was arriving (see INTEGRATION.md): tolerated there, judged by the spec only.
  | .F c k =>
    match s.conns[c]? with
    | some cn => if cn.started ≤ k || np then some [] else none
    | none => none
  | .FN _ _ => some []
  | .B c => some [.badReq c]
  | .C c => some [.peerClose c]
  | .E c => some [.clientEof c]
  | .S k => if k = s.callers.length then some [.shutCall] else none
  | .T k e => (errOfTok e).map fun e => [.callerRet k e]
  | .HS j => some [.hookStart j]
  | .HE j => some [.hookEnd j]

structure Node where
  s : State
  hist : List Act   -- reversed

def tryAct (cfg : Cfg) (n : Node) (a : Act) : Option Node :=
  (step cfg n.s a).map fun s' => ⟨s', a :: n.hist⟩

def tryActs (cfg : Cfg) (n : Node) : List Act → Option Node
  | [] => some n
  | a :: t => (tryAct cfg n a).bind (tryActs cfg · t)

/-- unobservable steps that are taken as soon as they are enabled: taking them earlier never
disables anything the observer can see later -/
def eagerActs (s : State) : List Act :=
  let cs := List.range s.conns.length
  let ks := List.range s.callers.length
  cs.map .writeResp ++ cs.map .connGone ++ cs.map .connDrop ++
  (if s.status ≠ stRunning then cs.map .exitCheck else []) ++
  [.shutSpawn, .shutCtxDone, .shutFinish, .acceptFail, .runReturn] ++
  (if stShutdown ≤ s.status then ks.map .shutLoad else []) ++
  (if s.status ≠ stRunning then ks.map .shutCas else []) ++
  (if s.active ≤ 0 then [.shutTickLoop] else []) ++
  (if postClose s.win || (!s.lnOpen && s.lnSet) then (List.range s.dials.length).map .dialProbe else [])

/-- unobservable steps whose position relative to other goroutines matters: both orders are explored -/
def branchActs (s : State) : List Act :=
  let cs := List.range s.conns.length
  let ks := List.range s.callers.length
  (if s.status = stRunning then cs.map .exitCheck else []) ++
  (if s.status < stShutdown then ks.map .shutLoad else []) ++
  (if s.status = stRunning then ks.map .shutCas else []) ++
  [.shutCloseLn, .shutTick1] ++
  (if postClose s.win || (!s.lnOpen && s.lnSet) then [] else (List.range s.dials.length).map .dialProbe) ++
  cs.map .npCloseIdle

partial def normalize (cfg : Cfg) (n : Node) : Node :=
  match (eagerActs n.s).findSome? (tryAct cfg n) with
  | some n' => normalize cfg n'
  | none => n

partial def closureGo (cfg : Cfg) (work : List Node) (seen : Std.HashSet State) (acc : Array Node) : Array Node :=
  match work with
  | [] => acc
  | n :: rest =>
    let n := normalize cfg n
    if seen.contains n.s then closureGo cfg rest seen acc
    else
      let succs := (branchActs n.s).filterMap (tryAct cfg n)
      closureGo cfg (succs ++ rest) (seen.insert n.s) (acc.push n)

def closure (cfg : Cfg) (ns : Array Node) : Array Node := closureGo cfg ns.toList {} #[]

def observe (cfg : Cfg) (ns : Array Node) (e : TEv) : Array Node :=
  -- time passes (unobservable steps may happen before or after), then the event
  let ns := closure cfg (ns.map fun n => ⟨{ n.s with now := max n.s.now e.t }, .advance (e.t - n.s.now) :: n.hist⟩)
  let ns := ns.filterMap fun n => (obsActs cfg.netpoll n.s e.ev).bind (tryActs cfg n)
  closure cfg ns

/-- `(index of the first event no state survives, survivors)` -/
def validate (cfg : Cfg) (nHooks : Nat) (tr : List TEv) : Option Nat × Array Node := Id.run do
  let mut ns : Array Node := closure cfg #[⟨init nHooks, []⟩]
  let mut i := 0
  for e in tr do
    let ns' := observe cfg ns e
    if ns'.isEmpty then return (some i, ns)
    ns := ns'
    i := i + 1
  return (none, ns)

structure Script where
  np : Bool
  stream : Bool := false
  wMs : Nat
  shutAt : Nat
  second : Nat
  hooks : List Nat
  conns : List String

def parseScript : List String → Option Script
  | tr :: w :: sa :: sec :: nh :: rest => do
    let nh ← nat? nh
    let hooks ← (rest.take nh).mapM nat?
    let rest := rest.drop nh
    let nc ← rest.head? >>= nat?
    let conns := rest.drop 1
    if conns.length ≠ nc then none
    pure { np := tr.startsWith "np", stream := tr.endsWith "!s", wMs := ← nat? w, shutAt := ← nat? sa, second := ← nat? sec, hooks, conns }
  | _ => none

def hookClass (w : Nat) (hs : List Nat) : String :=
  String.join (hs.map fun h => if h = 0 then "f" else if h < w then "s" else "b")

/-- phase census of the connections in a model state, e.g. `h2i1` -/
def census (s : State) : String :=
  let cnt (p : ConnPh → Bool) := (s.conns.filter fun c => p c.ph).length
  let h := cnt fun p => match p with | .handling _ | .returned _ _ | .checked _ _ => true | _ => false
  let i := cnt fun p => p == .idle
  s!"h{min h 3}i{min i 3}"


/-! ### X18: requests that are still arriving, and the process under `Spin` -/

open Hertz.ShutdownSpec (XEv XTEv SEv STEv) in
def parseXEv (tok : String) : Option XTEv :=
  match tok.splitOn "," with
  | ["P", c, k, g, n, t] => do pure ⟨.P (← nat? c) (← nat? k) (← nat? g) (← nat? n), ← nat? t⟩
  | ["PZ", c, k, t] => do pure ⟨.PZ (← nat? c) (← nat? k), ← nat? t⟩
  | _ => (parseEv tok).map fun e => ⟨.base e.ev, e.t⟩

def isXTok (tok : String) : Bool := tok.startsWith "P," || tok.startsWith "PZ,"

/-- Replays what was observed of connection `c` (one that carried a request sent in two parts) on the model
`Hertz.Arrive` of the source as it stands: accept, `arrive` for the first part, `arrive` for the rest (at the `PZ` event or,
if the handler entry is recorded first, at `Q`), `handlerRet` at `X`, `shutBegin` at the first `S`; a response must be
complete and must have been written by the model; a close by the server must be one the model knows.
`none` = accepted (or not judged: the connection was accepted after the call, or garbage was sent on it); `some msg` = the model has no such run. -/
def arriveValidate (np : Bool) (W : Nat) (c : Nat) (tr : List ShutdownSpec.XTEv) : Option String := Id.run do
  -- garbage bytes on the connection (error response + close) are not part of `Hertz.Arrive`: not judged here
  if tr.any (fun e => e.ev == .base (.B c)) then return none
  let mut s : Arrive.State := {}
  let mut i := 0
  for e in tr do
    let ph : Option Arrive.Ph := (s.conns[0]?).map (·.ph)
    let rest : List Arrive.Act := match ph with
      | some (.reading k n) => [.arrive 0 (n - k) n]
      | _ => []
    let acts : Option (List Arrive.Act) := match e.ev with
      | .base (.A c') =>
        if c' ≠ c || !s.conns.isEmpty then some [] else if s.shut then none else some [.accept]
      | .base (.S _) => if s.shut then some [] else some [.shutBegin]
      -- the client's write may be recorded before the server's OnAccept hook has recorded the accept
      | .P c' _ g n =>
        -- (StreamRequestBody: the handler entry may even be recorded before the client has recorded its write)
        -- netpoll, written after the call: the scan of the shutdown loop may have closed the (idle) connection before the
        -- bytes arrived although the client's write succeeded - either outcome is a run of the model; not judged
        if c' ≠ c then some [] else if np && s.shut then none else if ph == some .handling then some []
        else if !s.conns.isEmpty then some [.arrive 0 g n]
        else if s.shut then none else some [.accept, .arrive 0 g n]
      | .PZ c' _ => if c' = c then some rest else some []
      | .base (.Q c' _ _) =>
        if c' ≠ c then some [] else
        match ph with
        | some .idle => some [.arrive 0 1 1]
        | some (.reading _ _) => some rest
        | some .handling => some []
        | _ => some [.handlerRet 0]  -- refused by the model: a handler on a closed / unknown connection
      | .base (.X c' _ _) => if c' = c then some [.handlerRet 0] else some []
      | .base (.R c' k _ complete) =>
        if c' ≠ c then some [] else
        match s.conns[0]? with
        | some cn => if complete && k < cn.resps.length then some [] else some [.readTimeout 0]
        | none => some [.readTimeout 0]
      | .base (.E c') =>
        if c' ≠ c then some [] else
        match ph with
        | some .closed => some []
        | some .idle => some [.npCloseIdle 0]
        | _ => some [.readTimeout 0]
      | .base (.C c') =>
        if c' ≠ c then some [] else
        match ph with
        | some .idle | some (.reading _ _) => some [.peerClose 0]
        | _ => some []
      | .base (.F c' _) => if c' = c && ph.isSome then some [.readTimeout 0] else some []
      | _ => some []
    match acts with
    | none => return none   -- accepted after the call: not a connection this check is about
    | some acts =>
      match Arrive.run Arrive.Code.current np W s (.advance (e.t - s.now) :: acts) with
      | some s' => s := s'
      | none => return some s!"ARRIVE-REJECT@{i}:conn{c}"
    i := i + 1
  return none

/-- census of the two-part requests at the first `Shutdown` call: `r` still arriving, `d` complete -/
def arriveCensus (tr : List ShutdownSpec.XTEv) : String :=
  let tS := (tr.find? fun e => match e.ev with | .base (.S _) => true | _ => false).map (·.t)
  match tS with
  | none => ""
  | some tS =>
    let ps := tr.filter fun e => match e.ev with | .P _ _ _ _ => true | _ => false
    if ps.isEmpty then "" else
    let arriving := ps.filter fun e => match e.ev with
      | .P c k _ _ => e.t < tS && !(tr.any fun z => z.ev == .PZ c k && z.t < tS)
      | _ => false
    let never := ps.filter fun e => match e.ev with
      | .P c k _ _ => !(tr.any fun z => z.ev == .PZ c k)
      | _ => false
    s!":part{min arriving.length 3}{if never.isEmpty then "" else "n"}"

def parseSEv (tok : String) : Option ShutdownSpec.STEv :=
  match tok.splitOn "," with
  | ["SIG", t] => do pure ⟨.SIG, ← nat? t⟩
  | ["R", i, res, t] => do pure ⟨.R (← nat? i) res, ← nat? t⟩
  | ["LS", t] => do pure ⟨.LS, ← nat? t⟩
  | ["EXIT", code, t] => do pure ⟨.EXIT code, ← nat? t⟩
  | _ => none

/-- the canonical run of `Hertz.Spin` for a scenario of op `c18spin` (times in ms):
`(Spin returned / process exited, duration signal → exit, connections still in their handler at exit, listener open at exit)` -/
def spinPredict (mode : String) (W sigAt nreq hdur : Nat) : Option (Bool × Nat × Nat × Bool) :=
  let cfg : Spin.Cfg := { exitWait := W, deregFails := mode == "dereg" }
  let up : List Spin.Act := [.runInit, .markRunning, .listen] ++ List.replicate nreq .accept
  let acts : List Spin.Act :=
    if mode == "slowrun" then [.runInit, .advance sigAt, .signal, .shutEnter, .spinPost, .procExit]
    else if mode == "dereg" then up ++ [.advance sigAt, .signal, .shutEnter, .hooksEnd, .shutReturn, .spinPost, .procExit]
    else up ++ [.advance sigAt, .signal, .shutEnter, .hooksEnd] ++ (if nreq > 0 then [.advance hdur] else []) ++
      List.replicate nreq .connDone ++ [.drainDone, .shutReturn, .spinPost, .procExit]
  match Spin.runPrompt Spin.Code.current cfg {} acts with
  | some s =>
    match s.spin with
    | .exited t => some (true, t - s.sigAt, s.active, s.lnOpen)
    | _ => some (false, 0, s.active, s.lnOpen)
  | none => none

def handle : Handler
  | "c18" :: script, impl => do
    let sc ← parseScript script
    let xtr ← impl.mapM parseXEv
    let implB := impl.filter (!isXTok ·)
    let tr ← implB.mapM parseEv
    let cfg : Cfg := { exitWait := sc.wMs * 1000, tick := if sc.np then 0 else 10000, maxWait := 30000000, netpoll := sc.np }
    let nh := sc.hooks.length
    let (bad, ns) := validate cfg nh tr
    -- re-execute the witness with the model's own `run`
    let witnessOk := match bad, ns[0]? with
      | none, some n => (run cfg (init nh) n.hist.reverse).isSome
      | _, _ => false
    -- X18: the connections that carried a request sent in two parts, replayed on `Hertz.Arrive`
    let pConns := (xtr.filterMap fun e => match e.ev with | .P c _ _ _ => some c | _ => none).eraseDups
    let arriveBad := pConns.filterMap fun c => arriveValidate sc.np (sc.wMs * 1000) c xtr
    let out := match bad with
      | none => if !witnessOk then ["WITNESS-REJECTED-BY-run"] else if arriveBad.isEmpty then impl else arriveBad
      | some i => [s!"REJECT@{i}:{implB.getD i ""}"]
    let p : ShutdownSpec.Params := { exitWait := sc.wMs * 1000, tick := 10000, slack := 1000000, nHooks := nh }
    let trA := tr.toArray
    let viol := ShutdownSpec.violations p trA ++ ShutdownSpec.partlyReceived p xtr.toArray
    -- tag: transport, exit-wait class, hooks, what the connections were doing when Shutdown was called,
    -- how the call returned, second call
    let atCall : String := match ns[0]? with
      | some n =>
        -- replay the witness up to the first shutCall
        let pre := n.hist.reverse.takeWhile (· != .shutCall)
        match run cfg (init nh) pre with
        | some s => census s
        | none => "?"
      | none => "?"
    let ret : String := match ShutdownSpec.winnerRet trA with
      | some w => match ShutdownSpec.winnerCall trA w with
        | some s => if ShutdownSpec.timeAt trA w - ShutdownSpec.timeAt trA s + 2000 < sc.wMs * 1000 then "early" else "deadline"
        | none => "?"
      | none => "norun"
    let late := ShutdownSpec.lateDropped trA
    pure { out, spec := viol.isEmpty, specNote := "; ".intercalate (viol.take 3),
           tag := s!"c18:{if sc.np then "np" else "std"}{if sc.stream then "!s" else ""}:w{if sc.wMs < 100 then "s" else if sc.wMs < 1000 then "m" else "l"}:k{hookClass sc.wMs sc.hooks}:{atCall}:{ret}:s{sc.second}{if late > 0 then ":late-dropped" else ""}{arriveCensus xtr}" }
  | ["c18spin", tr, w, mode, sigAt, _onRun, nreq, hdur], impl => do
    -- the server as a process of its own under Hertz.Spin(), stop signal at `sigAt`: the model's canonical run says
    -- whether the process ends, whether requests in progress are lost (Spin returned with connections still in their
    -- handler), whether anything can be served afterwards (never: the process is gone)
    let w ← nat? w
    let sigAt ← nat? sigAt
    let nreq ← nat? nreq
    let hdur ← nat? hdur
    let evs ← impl.mapM parseSEv
    let (mExit, mDur, mActive, mLn) ← spinPredict mode w sigAt nreq hdur
    let iExit := evs.any fun e => e.ev == .EXIT "0"
    let iLost := evs.any fun e => match e.ev with | .R _ res => res != "full" | _ => false
    let iLate := evs.any fun e => e.ev == .LS
    let agree := iExit == mExit && iLost == (mActive > 0) && !iLate
    let out := if agree then impl
      else [s!"MODEL:exit={boolTok mExit},after={mDur}ms,in-handler-at-exit={mActive},listener-open-at-exit={boolTok mLn},served-later=0"]
    let p : ShutdownSpec.SParams := { exitWait := w * 1000, running := mode != "slowrun" }
    let viol := ShutdownSpec.spinViolations p evs
    let onlyInflight := !viol.isEmpty && viol.all (·.startsWith "inflight_complete")
    pure { out, spec := viol.isEmpty, specNote := "; ".intercalate (viol.take 3),
           cls := if mode == "dereg" && onlyInflight then "dereg-error-skips-drain" else "",
           tag := s!"c18spin:{tr}:{mode}:n{min nreq 3}:{if mDur == 0 then "at-once" else "drained"}" }
  | ["c18race", _w], impl => do
    -- Shutdown between MarkAsRunning and Listen: the model's run
    let cfg : Cfg := { exitWait := 100, tick := 10 }
    let acts : List Act := [.init, .markRunning, .shutCall, .shutLoad 0, .shutCas 0, .shutSpawn, .shutCloseLn,
      .advance 10, .shutTick1, .shutFinish, .callerRet 0 .nil, .listen, .dialStart, .dialProbe 0, .dialEnd 0 true,
      .accept, .reqArrive 0 false, .handlerRet 0 false, .exitCheck 0, .writeResp 0]
    let out := match run cfg (init 0) acts with
      | some s =>
        let cl := match s.conns[0]? with
          | some cn => (cn.resps.map (·.close)) == [true]
          | none => false
        ["nil", boolTok (s.dials == [some true]), boolTok (s.lateAccepts == 1), boolTok cl]
      | none => ["MODEL-REFUSES"]
    -- spec: after Shutdown returned no new connection is accepted
    let accepted := impl.getD 1 "" == "1"
    pure { out, spec := !accepted, specNote := "no_accept: connection accepted and served after Shutdown returned nil",
           cls := if accepted && impl.head? == some "nil" then "shutdown-before-listen" else "",
           tag := "c18race" }
  | "c18sig" :: nsig :: _gap :: _sigs, impl => do
    -- the server as a process of its own under Hertz.Spin(): whatever number of shutdown signals arrives while a request
    -- is in progress, the request gets its complete response and the process ends by itself (exit status 0)
    pure { out := ["full", "0"], spec := impl == ["full", "0"],
           specNote := "request in progress completed and process exited cleanly although the shutdown signal was repeated",
           tag := "c18sig:" ++ nsig }
  | ["c18conc", _n], impl => do
    -- two Shutdown calls released at the same instant, repeated: <one nil + one notrunning> <both nil> <other>.
    -- The model allows exactly one outcome per pair: one caller wins, the other reports errStatusNotRunning
    -- (`second_shutdown_errors`), whichever way load and CAS of the two interleave.
    let oneErr ← impl[0]? >>= nat?
    let bothNil ← impl[1]? >>= nat?
    let other ← impl[2]? >>= nat?
    let cfg : Cfg := { exitWait := 5 }
    let pre : List Act := [.init, .markRunning, .listen, .shutCall, .shutCall]
    let seq := run cfg (init 0) (pre ++ [.shutLoad 0, .shutCas 0, .shutLoad 1])
    let race := run cfg (init 0) (pre ++ [.shutLoad 0, .shutLoad 1, .shutCas 0, .shutCas 1])
    let modelOk := (seq.map (·.callers)) == some [.winner, .returned .notRunning] &&
                   (race.map (·.callers)) == some [.winner, .returned .notRunning]
    pure { out := if modelOk then [toString oneErr, "0", "0"] else ["MODEL-DISAGREES"],
           spec := bothNil == 0 && other == 0,
           specNote := s!"second_shutdown_errors: in {bothNil} of {oneErr + bothNil + other} simultaneous pairs both Shutdown calls returned nil " ++
                       "(schedule: load A, load B, CAS A wins, CAS B fails -> B must return errStatusNotRunning)",
           tag := "c18conc" }
  | _, _ => none

end Hertz.Driver.C18
