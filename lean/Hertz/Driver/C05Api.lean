import Hertz.Driver.Core
import Hertz.Model.HeaderApi
import Hertz.Spec.Head
/-!
Driver of the C05 extension X05: programs of public header-API calls.

ops
* `apireq  call…`  | per call a state dump, then `W wire`
* `apiresp call…`  | per call a state dump, then `W statusline date wire`
* `apiline m u | wire` : `RequestHeader` with `SetMethod(m)`, `SetRequestURI(u)` only (request line)
* `apitarget dpn script… | target wire err` : `Request` + `URI` setters, written by `req.Write`
* `apicookie …` | `Cookie.AppendBytes` and the `Set-Cookie` line

A call token is `OP:hex:hex…` (numbers and flags are hex-encoded ASCII decimals).
-/
namespace Hertz.Driver.C05Api
open Hertz Hertz.Driver Hertz.HW Hertz.HA

def fieldsOf (tok : String) : Option (String × List Bytes) :=
  match tok.splitOn ":" with
  | [] => none
  | op :: rest => do
    let bs ← rest.mapM hx
    pure (op, bs)

def decNat (b : Bytes) : Option Nat :=
  if b.isEmpty || !b.all (fun c => 48 ≤ c && c ≤ 57) then none
  else some (b.foldl (fun n c => n * 10 + (c - 48).toNat) 0)

def decInt : Bytes → Option Int
  | 45 :: t => (decNat t).map (fun n => - (n : Int))
  | b => (decNat b).map (fun n => (n : Int))

def decBool (b : Bytes) : Bool := b == [49]

def parseReqCall (tok : String) : Option ReqCall := do
  let (op, a) ← fieldsOf tok
  match op, a with
  | "S", [k, v] => some (.set k v)
  | "SB", [k, v] => some (.set k v)          -- `SetBytesKV`: normalise, then `SetCanonical`, as `Set`
  | "A", [k, v] => some (.add k v)
  | "SC", [k, v] => some (.setCanonical k v)
  | "D", [k] => some (.del k)
  | "DB", [k] => some (.del k)               -- `DelBytes`
  | "HO", [v] => some (.setHost v)
  | "UA", [v] => some (.setUserAgent v)
  | "CT", [v] => some (.setContentType v)
  | "CL", [n] => (decInt n).map .setContentLength
  | "CLB", [v] => some (.setContentLengthBytes v)
  | "C", [k, v] => some (.setCookie k v)
  | "DC", [k] => some (.delCookie k)
  | "DAC", [] => some .delAllCookies
  | "M", [v] => some (.setMethod v)
  | "U", [v] => some (.setRequestURI v)
  | "P", [v] => some (.setProtocol v)
  | "SA", [k, v, nv] => some (.setArgBytes k v (decBool nv))
  | "AA", [k, v, nv] => some (.addArgBytes k v (decBool nv))
  | "CC", [b] => some (.setConnClose (decBool b))
  | "RCC", [] => some .resetConnClose
  | "ND", [b] => some (.setNoDefaultCT (decBool b))
  | "DN", [] => some .disableNormalizing
  | "T", [k, v] => some (.trailerSet k v)
  | "TA", [k, v] => some (.trailerAdd k v)
  | "MB", [v] => some (.setMultipartBoundary v)
  | _, _ => none

def sameSiteOf (n : Nat) : Uri.SameSite :=
  match n with | 1 => .default | 2 => .lax | 3 => .strict | 4 => .none | _ => .disabled

/-- the state of a `Cookie` object after `SetKey, SetValue, SetPath?, SetDomain, SetMaxAge, SetExpire?, SetSecure, SetHTTPOnly,
SetSameSite, SetPartitioned`; `flags` = bit0 secure, bit1 httpOnly, bit2 partitioned, bit3 SetPath called, bit4 SetExpire called -/
def cookieOf (key value path domain : Bytes) (maxAge : Int) (expire : Int) (ss flags : Nat) : Uri.CookieE :=
  let sameSite := sameSiteOf ss
  let part := flags.testBit 2
  { c := { key, value, maxAge := maxAge.toNat, domain,
           path := if flags.testBit 3 then normalizePath path else [],
           secure := flags.testBit 0 || sameSite == .none || part, httpOnly := flags.testBit 1,
           sameSite, partitioned := part },
    expire := if flags.testBit 4 then ⟨expire, 0⟩ else Uri.zeroInstant }

def parseRespCall (tok : String) : Option RespCall := do
  let (op, a) ← fieldsOf tok
  match op, a with
  | "S", [k, v] => some (.set k v)
  | "SB", [k, v] => some (.set k v)          -- `SetBytesV`
  | "A", [k, v] => some (.add k v)
  | "SC", [k, v] => some (.setCanonical k v)
  | "D", [k] => some (.del k)
  | "DB", [k] => some (.del k)
  | "CR", [a, b, c] => do
    -- `SetContentRange(a, b, c)` with non-negative arguments (a negative one panics in `AppendUint`: C08):
    -- `SetCanonical("Content-Range", "bytes a-b/c")`
    some (.setCanonical Gen.Str.strContentRange ([98, 121, 116, 101, 115, 32] ++ appendUint (← decNat a) ++ [45] ++ appendUint (← decNat b) ++ [47] ++ appendUint (← decNat c)))
  | "CT", [v] => some (.setContentType v)
  | "CL", [n] => (decInt n).map .setContentLength
  | "CLB", [v] => some (.setContentLengthBytes v)
  | "SV", [v] => some (.setServer v)
  | "CE", [v] => some (.setContentEncoding v)
  | "C", [k, v, p, d, ma, ex, ss, fl] => do
    some (.setCookie (cookieOf k v p d (← decInt ma) (← decInt ex) (← decNat ss) (← decNat fl)))
  | "DC", [k] => some (.delCookie k)
  | "DAC", [] => some .delAllCookies
  | "ST", [n] => (decInt n).map .setStatusCode
  | "P", [v] => some (.setProtocol v)
  | "NDC", [b] => some (.setNoDefaultCT (decBool b))
  | "NDD", [b] => some (.setNoDefaultDate (decBool b))
  | "SA", [k, v, nv] => some (.setArgBytes k v (decBool nv))
  | "AA", [k, v, nv] => some (.addArgBytes k v (decBool nv))
  | "CC", [b] => some (.setConnClose (decBool b))
  | "RCC", [] => some .resetConnClose
  | "DN", [] => some .disableNormalizing
  | "T", [k, v] => some (.trailerSet k v)
  | "TA", [k, v] => some (.trailerAdd k v)
  | "X", [k, v] => some (.ctxHeader k v)
  | "XR", [c, u] => (decInt c).map (fun c => .ctxRedirect c u)
  | "XC", [n, v, ma, p, d, ss, fl] => do
    let fl ← decNat fl
    some (.ctxSetCookie n v (← decInt ma) p d (sameSiteOf (← decNat ss)) (fl.testBit 0) (fl.testBit 1) (fl.testBit 2))
  | "XT", [v] => some (.ctxSetContentType v)
  | _, _ => none

def kvToks (l : List KV) : List String := toString l.length :: l.flatMap (fun kv => [encHex kv.1, encHex kv.2])

def dumpReq (s : ReqSt) : List String :=
  [boolTok s.disableNorm, boolTok s.connClose, boolTok s.noDefaultCT, toString s.contentLength, encHex s.clBytes,
   encHex s.method, encHex s.uri, encHex s.host, encHex s.contentType, encHex s.userAgent, encHex s.protocol] ++
  kvToks s.h ++ kvToks s.trailer ++ kvToks s.cookies

def dumpResp (s : RespSt) : List String :=
  [boolTok s.disableNorm, boolTok s.connClose, boolTok s.noDefaultCT, boolTok s.noDefaultDate, toString s.status,
   toString s.contentLength, encHex s.clBytes, encHex s.contentEncoding, encHex s.contentType, encHex s.server, encHex s.protocol] ++
  kvToks s.h ++ kvToks s.trailer ++ kvToks s.cookies

def dumpsReq : ReqSt → List ReqCall → List String
  | _, [] => []
  | s, c :: t => let s' := stepReq s c; dumpReq s' ++ dumpsReq s' t

def dumpsResp : RespSt → List RespCall → List String
  | _, [] => []
  | s, c :: t => let s' := stepResp s c; dumpResp s' ++ dumpsResp s' t

def noCRLF (b : Bytes) : Bool := !b.contains 13 && !b.contains 10
def clean3 (b : Bytes) : Bool := !b.contains 13 && !b.contains 10 && !b.contains 32

/-- spec on the IMPLEMENTATION's head: one start line, then exactly the expected fields; every name valid and either a
fixed special name or a key some call passed; no CR/LF in a value; never more fields than `calls + 7` -/
def specHead (wire start : Bytes) (expected : List KV) (allowed : List Bytes) (ncalls : Nat) : Bool × String :=
  match Spec.Head.parseHead wire with
  | none => (false, "strict reader rejects the serialised head")
  | some (s, fs, rest) =>
    if s != start then (false, "start line differs")
    else if !rest.isEmpty then (false, "bytes after the head")
    else if fs != expected then (false, "fields read back differ from expectedFields(program)")
    else if !fs.all (fun kv => validName kv.1 && noCRLF kv.2) then (false, "invalid name or CR/LF in a value")
    else if !fs.all (fun kv => allowed.contains kv.1) then (false, "a field name no call passed")
    else if fs.length > ncalls + 7 then (false, "more fields than calls allow")
    else (true, "one start line + expectedFields(program); names from calls; no CR/LF")

def count32 (b : Bytes) : Nat := b.count 32

def takeArgs : Nat → List String → Option (List ArgKV × List String)
  | 0, t => some ([], t)
  | n + 1, k :: v :: nv :: t => do
    let k ← hx k; let v ← hx v
    let (r, rest) ← takeArgs n t
    pure ({ key := k, value := v, noValue := nv == "1" } :: r, rest)
  | _, _ => none

def argToks (l : List ArgKV) : List String := l.flatMap (fun a => [encHex a.key, encHex a.value, boolTok a.noValue])

open Gen.Str in
/-- names of the less common model branches a request program goes through (for the evidence tags) -/
def rareReq : ReqSt → List ReqCall → List String
  | _, [] => []
  | s, c :: t =>
    let here : List String :=
      (match c with
       | .set k v | .add k v | .setCanonical k v =>
         let k' := match c with | .set _ _ => H1.normalizeKey s.disableNorm k | _ => k
         (if H1.ciEq strCookie k' && k'.length > 0 && !s.cookiesCollected && s.h.any (fun kv => kv.1 == strCookie) then ["collect"] else []) ++
         (if H1.ciEq strConnection k' && s.connClose && !H1.ciEq strClose v then ["connreset"] else []) ++
         (if H1.ciEq strContentLength k' then [if (parseContentLength v).isSome then (if s.h.any (fun kv => kv.1 == strTransferEncoding) then "cl-drops-te" else "cl-ok") else "cl-bad"] else []) ++
         (if H1.ciEq strTrailer k' then [if (setTrailers s.disableNorm v).length < ((H1.splitOn 44 v).filter (fun e => !(H1.stripOWS e).isEmpty)).length then "trailers-refused" else "trailers"] else []) ++
         (if H1.ciEq strTransferEncoding k' then ["te-ignored"] else []) ++
         (match c with | .add _ _ => (if k != H1.normalizeKey s.disableNorm k && (s.setSpecial k v).isSome then ["add-raw-special"] else []) | _ => [])
       | .setCookie _ _ | .delCookie _ | .delAllCookies =>
         if !s.cookiesCollected && s.h.any (fun kv => kv.1 == strCookie) then ["collect"] else []
       | .del k => if reqFixedNames.contains (H1.normalizeKey s.disableNorm k) then ["del-special"] else []
       | .trailerSet k _ | .trailerAdd k _ => if H1.isBadTrailer (H1.normalizeKey s.disableNorm k) then ["trailer-refused"] else ["trailer"]
       | .resetConnClose => if s.connClose then ["connreset"] else []
       | .setContentLength n => if n < 0 then ["cl-chunked"] else []
       | _ => [])
    here ++ rareReq (stepReq s c) t

open Gen.Str in
def rareResp : RespSt → List RespCall → List String
  | _, [] => []
  | s, c :: t =>
    let here : List String :=
      (match c with
       | .set k v | .add k v | .setCanonical k v | .ctxHeader k v =>
         let k' := match c with | .add _ _ | .setCanonical _ _ => k | _ => H1.normalizeKey s.disableNorm k
         (if H1.ciEq strConnection k' && s.connClose && !H1.ciEq strClose v && !v.isEmpty then ["connreset"] else []) ++
         (if H1.ciEq strContentLength k' && !v.isEmpty then [if (parseContentLength v).isSome then (if s.h.any (fun kv => kv.1 == strTransferEncoding) then "cl-drops-te" else "cl-ok") else "cl-bad"] else []) ++
         (if H1.ciEq strTrailer k' && !v.isEmpty then ["trailers"] else []) ++
         (if H1.ciEq strSetCookie k' && !v.isEmpty then ["set-cookie-raw"] else []) ++
         (if (H1.ciEq strTransferEncoding k' || H1.ciEq strDate k') && !v.isEmpty then ["ignored"] else []) ++
         (match c with | .ctxHeader _ v => (if v.isEmpty then ["ctx-del"] else []) | _ => [])
       | .del k => if respFixedNames.contains (H1.normalizeKey s.disableNorm k) then ["del-special"] else []
       | .trailerSet k _ | .trailerAdd k _ => if H1.isBadTrailer (H1.normalizeKey s.disableNorm k) then ["trailer-refused"] else ["trailer"]
       | .resetConnClose => if s.connClose then ["connreset"] else []
       | .setContentLength n => if s.mustSkipCL then ["cl-skipped"] else if n = -2 then ["cl-identity"] else if n < 0 then ["cl-chunked"] else []
       | .setCookie c => if !c.expire.isZero && c.c.maxAge == 0 then ["cookie-expires"] else ["cookie"]
       | .ctxSetCookie .. => ["ctx-cookie"]
       | .ctxRedirect .. => ["redirect"]
       | _ => [])
    here ++ rareResp (stepResp s c) t

/-- the rarest branch of a program, by a fixed priority list -/
def rarest (prio : List String) (hit : List String) : String :=
  match prio.find? (fun p => hit.contains p) with
  | some p => p
  | none => "-"

def reqPrio : List String := ["cl-drops-te", "connreset", "trailers-refused", "collect", "add-raw-special", "cl-bad", "trailer-refused", "te-ignored",
  "del-special", "trailers", "cl-ok", "cl-chunked", "trailer"]
def respPrio : List String := ["cl-drops-te", "cl-identity", "cl-skipped", "connreset", "cookie-expires", "ctx-del", "set-cookie-raw", "cl-bad", "trailer-refused",
  "ignored", "del-special", "trailers", "redirect", "ctx-cookie", "cl-ok", "cl-chunked", "cookie", "trailer"]

def handle : Handler
  | "apireq" :: toks, impl => do
    let calls ← toks.mapM parseReqCall
    let st := runReq calls
    let wire ← impl.getLast? >>= hx
    let hdr := st.toHdr
    let lineOk := clean3 hdr.methodOrGet && clean3 (if hdr.uri.isEmpty then Gen.Str.strSlash else hdr.uri)
    let allowed := reqFixedNames ++ calls.flatMap reqCallKeys
    let (ok, note) := specHead wire hdr.startLine (expectedReqFields calls) allowed calls.length
    let lineSpec := count32 hdr.startLine == 2 && noCRLF hdr.startLine
    let special := calls.any (fun c => match c with
      | .set k v | .add k v | .setCanonical k v => (({} : ReqSt).setSpecial (H1.normalizeKey false k) v).isSome
      | _ => false)
    pure { out := dumpsReq {} calls ++ ["W", encHex hdr.bytes],
           spec := ok && lineSpec,
           specNote := if !lineSpec then "request line: not exactly two SP / CR or LF inside" else note,
           tag := "apireq:" ++ sizeClass calls.length ++ boolTok special ++ boolTok (!st.cookies.isEmpty) ++ boolTok (!st.trailer.isEmpty)
                  ++ boolTok (hdr.fields.any (fun kv => !validName kv.1)) ++ boolTok (hdr.fields.any (fun kv => !noCRLF kv.2))
                  ++ boolTok st.disableNorm ++ boolTok lineOk ++ ":" ++ rarest reqPrio (rareReq {} calls) }
  | "apiresp" :: toks, impl => do
    let calls ← toks.mapM parseRespCall
    let st := runResp calls
    match impl.reverse with
    | wire :: date :: sl :: _ =>
      let wireB ← hx wire
      let slB ← hx sl
      let dateB ← hx date
      let hdr := st.toHdr (fun _ => slB.dropLast.dropLast) dateB
      let allowed := respFixedNames ++ calls.flatMap respCallKeys
      let (ok, note) := specHead wireB hdr.statusLine (kept hdr.fields) allowed calls.length
      let special := calls.any (fun c => match c with
        | .set k v | .add k v | .setCanonical k v | .ctxHeader k v => (({} : RespSt).setSpecial (H1.normalizeKey false k) v).isSome
        | _ => false)
      pure { out := dumpsResp {} calls ++ ["W", sl, date, encHex hdr.bytes],
             spec := ok && noCRLF hdr.statusLine, specNote := note,
             tag := "apiresp:" ++ sizeClass calls.length ++ boolTok special ++ boolTok (!st.cookies.isEmpty) ++ boolTok (!st.trailer.isEmpty)
                    ++ boolTok (hdr.fields.any (fun kv => !validName kv.1)) ++ boolTok (hdr.fields.any (fun kv => !noCRLF kv.2))
                    ++ boolTok st.disableNorm ++ ":" ++ rarest respPrio (rareResp {} calls) }
    | _ => none
  | "apireqw" :: bl :: toks, [wire, err] => do
    let calls ← toks.mapM parseReqCall
    let n := bl.toNat!
    let st := reqWriteState (runReq (calls ++ [.setRequestURI [104, 116, 116, 112, 58, 47, 47, 104, 47, 97]])) [104] [47, 97] n
    let hdr := st.toHdr
    let body := List.replicate n (120 : UInt8)
    let w ← hx wire
    let lineOk := clean3 hdr.methodOrGet && clean3 (if hdr.uri.isEmpty then Gen.Str.strSlash else hdr.uri)
    let allowed := reqFixedNames ++ calls.flatMap reqCallKeys
    let ok := match Spec.Head.parseHead w with
      | none => false
      | some (s, fs, rest) => s == hdr.startLine && count32 s == 2 && noCRLF s && fs == kept hdr.fields && rest == body &&
          fs.all (fun kv => validName kv.1 && noCRLF kv.2 && allowed.contains kv.1)
    pure { out := [encHex (hdr.bytes ++ body), "0"], spec := err == "0" && ok,
           specNote := "req.Write: one request line, the expected fields (names from calls), then the body",
           tag := "apireqw:" ++ sizeClass calls.length ++ bl ++ boolTok st.host.isEmpty ++ boolTok hdr.ignoreBody ++ boolTok lineOk
                  ++ boolTok (hdr.fields.any (fun kv => !noCRLF kv.2)) }
  | "apirespw" :: bl :: toks, [sl, date, wire, err] => do
    let calls ← toks.mapM parseRespCall
    let n := bl.toNat!
    let (st, sendBody) := respWriteState (runResp calls) n
    let slB ← hx sl
    let hdr := st.toHdr (fun _ => slB.dropLast.dropLast) (← hx date)
    let body := if sendBody then List.replicate n (120 : UInt8) else []
    let w ← hx wire
    let allowed := respFixedNames ++ calls.flatMap respCallKeys
    let ok := match Spec.Head.parseHead w with
      | none => false
      | some (s, fs, rest) => s == hdr.statusLine && noCRLF s && fs == kept hdr.fields && rest == body &&
          fs.all (fun kv => validName kv.1 && noCRLF kv.2 && allowed.contains kv.1)
    pure { out := [sl, date, encHex (hdr.bytes ++ body), "0"], spec := err == "0" && ok,
           specNote := "resp.Write: one status line, the expected fields (names from calls), then the body",
           tag := "apirespw:" ++ sizeClass calls.length ++ bl ++ boolTok st.mustSkipCL ++ boolTok sendBody
                  ++ boolTok (hdr.fields.any (fun kv => !noCRLF kv.2)) }
  | ["apiline", m, u], [wire] => do
    let m ← hx m; let u ← hx u; let w ← hx wire
    let hdr := (runReq [.setMethod m, .setRequestURI u]).toHdr
    let line := requestLine m u
    let ok := Spec.Head.parseHead w == some (line, kept hdr.fields, []) && count32 line == 2 && noCRLF line
    pure { out := [encHex hdr.bytes], spec := ok, specNote := "request line: method SP target SP HTTP/1.1, exactly two SP, no CR/LF",
           tag := "apiline:" ++ boolTok (clean3 m) ++ boolTok (clean3 u) ++ boolTok m.isEmpty ++ boolTok u.isEmpty ++ boolTok (noCRLF line) }
  | "apitarget" :: _script, method :: host :: dpn :: po :: path :: qs :: parsed :: nq :: t => do
    let (qa, t) ← takeArgs nq.toNat! t
    match t with
    | [target, wire, err] =>
      let m ← hx method; let w ← hx wire; let tg ← hx target; let hostB ← hx host
      let u : Target := { disablePathNormalizing := dpn == "1", pathOriginal := ← hx po, path := ← hx path, queryString := ← hx qs,
                          parsedQueryArgs := parsed == "1", queryArgs := qa }
      let mt := u.requestURI
      let isConnect := m == Gen.Str.strConnect
      -- `req.Write`: the target of CONNECT is `uri.Host()`
      let line := requestLine m (if isConnect then hostB else tg)
      let ok :=
        if err == "1" then w.isEmpty
        else match Spec.Head.parseHead w with
          | none => false
          | some (s, fs, _) => s == line && count32 s == 2 && noCRLF s && fs.all (fun kv => validName kv.1 && noCRLF kv.2)
      pure { out := [method, host, dpn, po, path, qs, parsed, nq] ++ argToks qa ++ [encHex mt, wire, err],
             spec := ok, specNote := "req.Write: request line = method SP URI.RequestURI() SP HTTP/1.1, two SP, no CR/LF; fields clean",
             tag := "apitarget:" ++ dpn ++ parsed ++ err ++ boolTok (clean3 m) ++ boolTok (clean3 mt) ++ boolTok isConnect ++ boolTok (noCRLF mt) }
    | _ => none
  | ["apicookie", tok], [cb, lineB] => do
    match ← parseRespCall tok with
    | .setCookie c =>
      let b := Uri.appendCookieE c
      let l ← hx lineB
      pure { out := [encHex b, encHex (headerLine (Gen.Str.strSetCookie, b))],
             spec := Spec.Head.fields 3 (l ++ [13, 10]) == some ([(Gen.Str.strSetCookie, newlineToSpace (← hx cb))], []),
             specNote := "the Set-Cookie line is one line: CR/LF of every attribute neutralised",
             tag := "apicookie:" ++ boolTok (noCRLF b) ++ boolTok c.c.key.isEmpty ++ boolTok (c.c.maxAge > 0) ++ boolTok (!c.expire.isZero) }
    | _ => none
  | _, _ => none

end Hertz.Driver.C05Api
