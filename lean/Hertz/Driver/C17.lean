import Hertz.Driver.Core
import Hertz.Model.Args
import Hertz.Spec.UrlQuery
namespace Hertz.Driver.C17
open Hertz Hertz.Driver

def parseKVs : List String → Option (List ArgKV)
  | [] => some []
  | k :: v :: f :: t => do
    let k ← hx k; let v ← hx v; let r ← parseKVs t
    pure ({ key := k, value := v, noValue := f == "1" } :: r)
  | _ => none

def encKVs : List ArgKV → List String
  | [] => []
  | kv :: t => encHex kv.key :: encHex kv.value :: boolTok kv.noValue :: encKVs t

/-- Spec-side percent decoder, written independently of `decodeSlow`: strict `%XY`, `+` is space,
anything else literal.  Only used on serialiser output. -/
def specDecode : Bytes → Option Bytes
  | [] => some []
  | 37 :: a :: b :: t =>
    match hexVal (Char.ofNat a.toNat), hexVal (Char.ofNat b.toNat) with
    | some x, some y => (specDecode t).map (fun r => (x <<< 4 ||| y) :: r)
    | _, _ => none
  | 37 :: _ => none
  | 43 :: t => (specDecode t).map (32 :: ·)
  | c :: t => (specDecode t).map (c :: ·)

def handle : Handler
  | ["quotearg", b], impl => do
    let b ← hx b
    let o ← impl.head? >>= hx
    pure { out := [encHex (quoteArg b)], spec := specDecode o == some b, specNote := "strict-decode(quote b) = b",
           tag := "quotearg:" ++ sizeClass b.length ++ boolTok (b.any argShouldEscape) }
  | ["quotepath", b], _ => do
    let b ← hx b
    pure { out := [encHex (quotePath b)], tag := "quotepath:" ++ sizeClass b.length ++ boolTok (b.any pathShouldEscape) }
  | ["decodearg", b], _ => do
    let b ← hx b
    pure { out := [encHex (decodeArg b)], tag := "decodearg:" ++ boolTok (b.contains 37) ++ boolTok (b.contains 43) ++ boolTok (decodeArg b == b) }
  | ["decodenoplus", b], _ => do
    let b ← hx b
    pure { out := [encHex (decodeArgNoPlus b)], tag := "decodenoplus:" ++ boolTok (b.contains 37) ++ boolTok (decodeArgNoPlus b == b) }
  | ["argsparse", b], _ => do
    let b ← hx b
    let r := parseArgs b
    pure { out := encKVs r, tag := "argsparse:" ++ sizeClass r.length ++ boolTok (r.any (·.noValue)) }
  | "argsrt" :: kvs, impl => do
    -- impl: serialised query string, then the re-parsed list
    let l ← parseKVs kvs
    let ser := appendArgs l
    let back := parseArgs ser
    let implBack ← parseKVs (impl.drop 1)
    let want := l.filter (fun kv => !kv.bothEmpty)
    pure { out := encHex ser :: encKVs back, spec := implBack == want,
           specNote := "parse(serialise l) = l without empty/empty entries",
           tag := "argsrt:" ++ sizeClass l.length ++ boolTok (l.any (·.noValue)) ++ boolTok (l.any (·.bothEmpty)) }
  | ["argsfix", b], impl => do
    let b ← hx b
    let l := parseArgs b
    let ser := appendArgs l
    let back := parseArgs ser
    let implBack ← parseKVs (impl.drop 1)
    pure { out := encHex ser :: encKVs back, spec := implBack == l,
           specNote := "parse(serialise(parse b)) = parse b",
           tag := "argsfix:" ++ sizeClass l.length ++ boolTok (l.any (·.noValue)) }
  | ["argsstd", b], impl => do
    let b ← hx b
    let l := parseArgs b
    let mine := l.flatMap (fun kv => [encHex kv.key, encHex kv.value])
    let implMine := impl.takeWhile (· != "#")
    let std := (impl.dropWhile (· != "#")).drop 1
    -- net/url keeps `=` (empty key, empty value); hertz drops such entries by design
    let rec dropEmpty : List String → List String
      | "-" :: "-" :: t => dropEmpty t
      | a :: b :: t => a :: b :: dropEmpty t
      | t => t
    let accepted := std != ["E"]
    -- the Lean model of net/url (`Spec/UrlQuery.lean`) is compared with the real net/url on every case:
    -- its tokens, not the implementation's, go into `out` after `#`, so a disagreement is a DIFF
    let stdModel := match Spec.UrlQuery.stdParse b with
      | none => ["E"]
      | some ps => ps.flatMap (fun p => [encHex p.1, encHex p.2])
    pure { out := mine ++ "#" :: stdModel, spec := !accepted || implMine == dropEmpty std,
           specNote := "agrees with net/url where net/url accepts",
           tag := "argsstd:" ++ boolTok accepted ++ sizeClass l.length }
  | _, _ => none

end Hertz.Driver.C17
