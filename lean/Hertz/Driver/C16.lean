import Hertz.Driver.Core
import Hertz.Model.Hz
import Hertz.Spec.Hz
/-!
Driver handler for C16 (`hzgen`): see harness16/c16.go for the line format.

Compared verbatim with the implementation: the abstract statements of `Register`, the function names
declared by middleware.go, the import aliases of the router file.  The type-check flag and the engine
section (what a real `route.Engine` registered when the statements were executed on it, and the trace of
a probe request per route) are copied from the implementation and judged by the spec predicate.
-/
namespace Hertz.Driver.C16
open Hertz Hertz.Driver Hertz.Hz Hertz.HzSpec

def ofStr (s : String) : Bytes := s.toUTF8.toList

def cfgOf (sortR snake byM : Bool) : Cfg :=
  { sortRouter := sortR, snake := snake, byMethod := byM,
    svcAlias := ofStr "p", svcPkg := ofStr "x/y/biz/handler/p", handlerBase := ofStr "x/y/biz/handler" }

def parseMethods : Nat → List String → Option (List Method × List String)
  | 0, t => some ([], t)
  | n + 1, v :: p :: nm :: od :: t => do
    let v ← hx v; let p ← hx p; let nm ← hx nm; let od ← hx od
    let (r, t') ← parseMethods n t
    pure ({ verb := v, path := p, name := nm, outDir := od } :: r, t')
  | _, _ => none

def parseBytes : Nat → List String → Option (List Bytes × List String)
  | 0, t => some ([], t)
  | n + 1, a :: t => do
    let a ← hx a
    let (r, t') ← parseBytes n t
    pure (a :: r, t')
  | _, _ => none

def encStmt : Stmt → List String
  | .group v g p mw => ["G", encHex v, encHex g, encHex p, encHex mw]
  | .route g verb p mw h => ["R", encHex g, encHex verb, encHex p, encHex mw, encHex h]
  | .open_ => ["{"]
  | .close => ["}"]

def parseStmts : Nat → List String → Option (List Stmt)
  | _, [] => some []
  | 0, _ => none
  | f + 1, "G" :: v :: g :: p :: mw :: t => do
    let v ← hx v; let g ← hx g; let p ← hx p; let mw ← hx mw
    let r ← parseStmts f t
    pure (.group v g p mw :: r)
  | f + 1, "R" :: g :: verb :: p :: mw :: h :: t => do
    let g ← hx g; let verb ← hx verb; let p ← hx p; let mw ← hx mw; let h ← hx h
    let r ← parseStmts f t
    pure (.route g verb p mw h :: r)
  | f + 1, "{" :: t => (parseStmts f t).map (Stmt.open_ :: ·)
  | f + 1, "}" :: t => (parseStmts f t).map (Stmt.close :: ·)
  | _, _ => none

/-- split at the first `#` -/
def section_ (l : List String) : List String × List String :=
  (l.takeWhile (· != "#"), (l.dropWhile (· != "#")).drop 1)

def errTok : Err → List String
  | .emptyPath => ["ERR", "empty-path"]
  | .registered => ["ERR", "registered"]
  | .unique => ["ERR", "unique"]
  | .panicIndex => ["PANIC"]
  | .loop => ["LOOP"]

mutual
def maxFan : Node → Nat
  | .mk _ cs => max cs.length (maxFanL cs)
def maxFanL : List Node → Nat
  | [] => 0
  | c :: r => max (maxFan c) (maxFanL r)
end

def anyMethods : List String := anyVerbsSorted

/-- the engine section: per `R` statement `k (method path)^k st m name^m`; checked against the route the
interpretation of the implementation's own statements gives -/
def checkEngine (clean : Bool) : Nat → List Route → List String → Bool
  | _, [], [] => true
  | 0, _, _ => false
  | f + 1, r :: rs, k :: t =>
    let k := k.toNat!
    let pairs := t.take (2 * k)
    let t := t.drop (2 * k)
    let rec pairsOK : List String → List String → Bool
      | [], [] => true
      | m :: p :: rest, em :: ems => m == em && (!clean || p == encHex r.path) && pairsOK rest ems
      | _, _ => false
    let methods := if r.verb = [65, 110, 121] then anyMethods else [String.ofList (r.verb.map (fun c => Char.ofNat c.toNat))]
    match t with
    | st :: m :: t =>
      let m := m.toNat!
      let trace := t.take m
      let t := t.drop m
      pairsOK pairs methods
      && (st != "H" || trace == (r.chain ++ [r.handler]).map encHex)
      && checkEngine clean f rs t
    | _ => false
  | _, _, _ => false

def handle : Handler
  | "hzgen" :: so :: sn :: bm :: k :: np :: rest, impl => do
    let k := k.toNat!
    let (pre, rest) ← parseBytes np.toNat! rest
    let n ← rest.head?
    let (ms, _) ← parseMethods n.toNat! (rest.drop 1)
    let cfg := cfgOf (so == "1") (sn == "1") (bm == "1")
    let optTag := s!"{so}{sn}{bm}u{boolTok (k > 0)}p{boolTok (!pre.isEmpty)}"
    -- model: optional first generation (update scenario), then the generation under test
    let existing : Except Err (Option (List Bytes)) :=
      if k > 0 && k ≤ ms.length then
        match generate cfg (ms.take k) pre none with
        | .ok o => .ok (some o.funcs)
        | .error e => .error e
      else .ok none
    let res : Except Err Output := match existing with
      | .error e => .error e
      | .ok ex => generate cfg ms pre ex
    let clean := ms.all (fun m => cleanPath m.path)
    match res with
    | .error e =>
      pure { out := errTok e, tag := s!"hzgen:{optTag}:err:{(errTok e).getLast?.getD ""}" }
    | .ok o =>
      let big := maxFan o.tree > 12
      match impl with
      | "OK" :: tc :: "S" :: t =>
        let (sImpl, t1) := section_ t
        let (fImpl, t2) := section_ t1
        let (iImpl, t3) := section_ t2
        let fImpl := fImpl.drop 1
        let iImpl := iImpl.drop 1
        let eImpl := t3.drop 1
        let sModel := o.stmts.flatMap encStmt
        let fModel := o.funcs.map encHex
        let iModel := o.imports.flatMap (fun (a, p) => [encHex a, encHex p])
        let out := if big then impl
          else ["OK", tc, "S"] ++ sModel ++ ["#", "F"] ++ fModel ++ ["#", "I"] ++ iModel ++ ["#", "E"] ++ eImpl
        -- spec, on the implementation's output
        let stI := parseStmts (sImpl.length + 1) sImpl
        let fI : Option (List Bytes) := (parseBytes fImpl.length fImpl).map (fun x => x.1)
        let interpI : Option (List Route × List (Bytes × Bytes)) := stI.bind (fun s => interp s scope0)
        let engineRefused := eImpl == ["X"]
        let (okExact, okWeak, okStrong, okEngine) : Bool × Bool × Bool × Bool := match interpI with
          | none => (false, false, false, false)
          | some (rs, gs) =>
            ((if clean then exactRoutes ms rs
              else (rs.map (fun (r : Route) => (r.verb, afterLastDot r.handler))).isPerm (ms.map (fun (m : Method) => (getHttpMethod m.verb, m.name)))),
             !clean || chainsWeak rs,
             !clean || chainsStrong rs gs,
             engineRefused || checkEngine clean (rs.length + 1) rs eImpl)
        let okTc := tc == "1"
        let okFuncs := match fI with
          | some fs => nodupB fs
          | none => false
        let okVars := match stI with
          | some s => nodupB (declaredVars s)
          | none => false
        -- outside the quantifier (unclean paths) only the route set up to paths is judged
        let spec := if clean then okTc && okFuncs && okVars && okExact && okWeak && okStrong && okEngine
                    else okExact && okEngine
        let note := s!"tc={boolTok okTc} funcsNodup={boolTok okFuncs} varsNodup={boolTok okVars} exact={boolTok okExact} weak={boolTok okWeak} strong={boolTok okStrong} engine={boolTok okEngine}"
        -- known-finding classes, decided on the input and the model only
        let aliasShadow := cfg.byMethod && o.imports.any (fun (a, _) => a == ofStr "root" || a == ofStr "r" || a == ofStr "server")
        let dupFuncs := !nodupB o.funcs
        let cls :=
          if ms.isEmpty && !okTc then "no-routes-unused-imports"
          else if !okFuncs && dupFuncs && cfg.snake then
            (if k > 0 then "snake-update-reappends-middleware" else "snake-duplicate-middleware")
          else if !okTc && aliasShadow then "handler-alias-shadowed"
          else if okTc && okFuncs && okVars && okExact && okWeak && okEngine && !okStrong && !cfg.sortRouter then "split-group"
          else ""
        pure { out := out, spec := spec, specNote := note, cls := cls,
               tag := s!"hzgen:{optTag}:{sizeClass ms.length}:{boolTok clean}{boolTok big}{boolTok engineRefused}:f{sizeClass o.funcs.length}" }
      | _ =>
        pure { out := ["OK"], spec := false, specNote := "implementation failed where the model generates", tag := s!"hzgen:{optTag}:implerr" }
  | "hzroutes" :: so :: sn :: bm :: _ :: np :: rest, impl => do
    -- a compiled program (generated router + middleware + register + handler files linked with hertz)
    -- dumped Engine.Routes(): n (method path handler)^n.  The model has no part in this op; the spec is the
    -- declared set itself.
    let (_, rest) ← parseBytes np.toNat! rest
    let n ← rest.head?
    let (ms, _) ← parseMethods n.toNat! (rest.drop 1)
    let want : List (String × Bytes × Bytes) := ms.flatMap (fun (m : Method) =>
      let v := getHttpMethod m.verb
      let verbs := if v = [65, 110, 121] then anyVerbsSorted else [String.ofList (v.map (fun c => Char.ofNat c.toNat))]
      verbs.map (fun vb => (vb, m.path, m.name)))
    let rec triples : List String → Option (List (String × Bytes × Bytes))
      | [] => some []
      | m :: p :: h :: t => do
        let p ← hx p; let h ← hx h
        let r ← triples t
        pure ((m, p, afterLastDot h) :: r)
      | _ => none
    let got := match impl with
      | _ :: t => triples t
      | [] => none
    let ok := match got with
      | some g => g.isPerm want
      | none => false
    pure { out := impl, spec := ok, specNote := "Engine.Routes() of the compiled generated package = declared set",
           tag := s!"hzroutes:{so}{sn}{bm}:{sizeClass ms.length}:{boolTok ok}" }
  | _, _ => none

end Hertz.Driver.C16
