import Hertz.Driver.Core
import Hertz.Model.HeaderWrite
import Hertz.Spec.Head
namespace Hertz.Driver.C05
open Hertz Hertz.Driver Hertz.HW

def takePairs : Nat → List String → Option (List (Bytes × Bytes) × List String)
  | 0, t => some ([], t)
  | n + 1, k :: v :: t => do
    let k ← hx k; let v ← hx v
    let (r, rest) ← takePairs n t
    pure ((k, v) :: r, rest)
  | _, _ => none

def takeN : Nat → List String → Option (List Bytes × List String)
  | 0, t => some ([], t)
  | n + 1, k :: t => do
    let k ← hx k
    let (r, rest) ← takeN n t
    pure (k :: r, rest)
  | _, _ => none

def noCRLF (b : Bytes) : Bool := !b.contains 13 && !b.contains 10

/-- spec on the implementation's bytes: a strict reader finds exactly one start line and exactly as
many fields as the state predicts (`expected`), every name valid and every value free of CR/LF. -/
def specHead (wire start : Bytes) (fields : List (Bytes × Bytes)) : Bool × String :=
  -- since /repo 910b0dd the request line is part of the claim: SP/CR/LF of method and request URI are percent-encoded
  if !noCRLF start then (false, "CR or LF in the start line")
  else match Spec.Head.parseHead wire with
    | none => (false, "strict reader rejects the serialised head")
    | some (s, fs, rest) =>
      let exp := kept fields
      (s == start && rest.isEmpty && fs.length == exp.length && fs.length ≤ fields.length &&
       fs.all (fun kv => validName kv.1 && noCRLF kv.2) && fs == exp,
       "fields read back = fields set (names valid, CR/LF neutralised)")

def flag (fs : List (Bytes × Bytes)) : String :=
  boolTok (fs.any (fun kv => !validName kv.1)) ++ boolTok (fs.any (fun kv => kv.2.contains 13 || kv.2.contains 10))

def handle : Handler
  | ["hline", k, v], impl => do
    let k ← hx k; let v ← hx v
    let o ← impl.head? >>= hx
    let m := headerLine (k, v)
    pure { out := [encHex m],
           spec := o.isEmpty || (Spec.Head.fields 3 (o ++ [13, 10])) == some (kept [(k, v)], []),
           specNote := "one header line or nothing",
           tag := "hline:" ++ boolTok (validName k) ++ boolTok (v.contains 13 || v.contains 10) ++ sizeClass k.length }
  | "reqhdr" :: _script, impl@(wire :: m :: u :: ua :: ho :: ct :: ndct :: clb :: cc :: nh :: t) => do
    let (h, t) ← takePairs nh.toNat! t
    match t with
    | ntr :: t =>
      let (tr, t) ← takeN ntr.toNat! t
      match t with
      | nc :: t =>
        let (ck, _) ← takePairs nc.toNat! t
        let r : ReqHdr := { method := ← hx m, uri := ← hx u, userAgent := ← hx ua, host := ← hx ho, contentType := ← hx ct,
                            noDefaultContentType := ndct == "1", clBytes := ← hx clb, h, trailer := tr, cookies := ck, connClose := cc == "1" }
        let w ← hx wire
        let (ok, note) := specHead w r.startLine r.fields
        -- the model's bytes, followed by the state dump copied from the implementation (the model has no opinion on it)
        pure { out := encHex r.bytes :: impl.drop 1,
               spec := ok, specNote := note,
               tag := "reqhdr:" ++ sizeClass r.fields.length ++ flag r.fields ++ boolTok (!ck.isEmpty) ++ boolTok (!tr.isEmpty) }
      | _ => none
    | _ => none
  | "resphdr" :: _script, impl@(wire :: sl :: sv :: ndd :: date :: ct :: ctset :: cl :: ce :: clb :: cc :: nh :: t) => do
    let (h, t) ← takePairs nh.toNat! t
    match t with
    | ntr :: t =>
      let (tr, t) ← takeN ntr.toNat! t
      match t with
      | nc :: t =>
        let (ck, _) ← takePairs nc.toNat! t
        let slb ← hx sl
        let dateB ← hx date
        let ctB ← hx ct
        let r : RespHdr := { statusLine := slb.dropLast.dropLast, server := ← hx sv, date := (if ndd == "1" then none else some dateB),
                             contentType := (if ctset == "1" || cl.toInt! != 0 then ctB else []), contentLength := cl.toInt!,
                             contentEncoding := ← hx ce, clBytes := ← hx clb, h, trailer := tr, cookies := ck.map (·.2), connClose := cc == "1" }
        let w ← hx wire
        let (ok, note) := specHead w r.statusLine r.fields
        pure { out := encHex r.bytes :: impl.drop 1, spec := ok, specNote := note,
               tag := "resphdr:" ++ sizeClass r.fields.length ++ flag r.fields ++ boolTok (!ck.isEmpty) ++ boolTok (!tr.isEmpty) }
      | _ => none
    | _ => none
  | "trailerhdr" :: _script, impl@(wire :: n :: t) => do
    let (kv, _) ← takePairs n.toNat! t
    let w ← hx wire
    pure { out := encHex (trailerBytes kv) :: impl.drop 1,
           spec := Spec.Head.fields (w.length + 1) w == some (kept kv, []),
           specNote := "trailer block reads back as the fields set",
           tag := "trailerhdr:" ++ sizeClass kv.length ++ flag kv }
  -- the trailer section as the real message writer puts it on the wire behind the last chunk (`ext.WriteTrailer`)
  | "trailerwire" :: side :: _script, impl@(wire :: n :: t) => do
    let (kv, _) ← takePairs n.toNat! t
    let w ← hx wire
    pure { out := encHex (trailerBytes kv) :: impl.drop 1,
           spec := Spec.Head.fields (w.length + 1) w == some (kept kv, []),
           specNote := "trailer section on the wire reads back as the fields set",
           tag := "trailerwire:" ++ side ++ ":" ++ sizeClass kv.length ++ flag kv }
  | _, _ => none

end Hertz.Driver.C05
