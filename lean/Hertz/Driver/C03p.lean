import Hertz.Driver.Core
import Hertz.Driver.C17
import Hertz.Driver.C17u
import Hertz.Driver.C17x
import Hertz.Driver.C08
import Hertz.Model.NoFaultLine
import Hertz.Driver.H1
import Hertz.Driver.C07
import Hertz.Driver.C11
import Hertz.Model.Http1.RespRead
import Hertz.Model.ArgsProg
import Hertz.Model.Fs
import Hertz.Spec.Boundary
import Hertz.Model.Http1.ErrResp
import Hertz.Spec.Resp
/-!
C03, public parsers under hostile input (`harness/c03p.go`).  For every `nf…` line the answer is recomputed from the
CHECKED model (`Model/NoFault.lean`: explicit fault where Go would index or slice out of range; a fault is printed as
`PANIC`, so a model fault and an implementation panic must coincide), the spec predicate "the implementation did not
panic" (+ the parser's own spec where there is one) is evaluated on the implementation's tokens, and — where a
list-based model of the same function exists (C07/C08/C17) — both models must agree (`M!` in the spec note otherwise).
-/
namespace Hertz.Driver.C03p
open Hertz Hertz.Driver

def noPanic (impl : List String) : Bool := impl != ["PANIC"]

/-- run an existing handler under another op name: its output (the list-based model's answer) is diffed -/
def via (h : Handler) (args impl : List String) (pfx : String) : Option Result :=
  (h args impl).map fun r =>
    -- the other properties' spec predicates (round trips, RFC agreement) are theirs to judge; here: no panic (+ the diff)
    { r with tag := pfx ++ r.tag, spec := noPanic impl, specNote := "no panic", cls := "" }

def lenClass (n : Nat) : String :=
  if n < 63 then sizeClass n else if n ≤ 65 then "64" else if n < 127 then "l" else if n ≤ 129 then "128"
  else if n < 4095 then "L" else if n ≤ 4097 then "4096" else "XL"

def optTok (r : Option Bytes) : List String := match r with | some b => [encHex b] | none => ["PANIC"]

def handle : Handler
  | ["nfmfb", ct], impl => do
    let ct ← hx ct
    let r := NF.multipartFormBoundary ct
    let sp := Spec.Boundary.boundary ct
    pure { out := optTok r, spec := impl == [encHex sp], specNote := "boundary = first boundary parameter, unquoted; no panic",
           tag := "nfmfb:" ++ boolTok (Gen.Str.mIMEFormData.isPrefixOf ct) ++ boolTok (!sp.isEmpty) ++ boolTok (ct.contains 34) ++
                  boolTok (NF.indexByte 59 (ct.drop 20) ≥ 0) ++ lenClass ct.length }
  | ["nftrailer", k], impl => do
    let k ← hx k
    let r := NF.isBadTrailer k
    pure { out := match r with | some b => [boolTok b] | none => ["PANIC"],
           spec := noPanic impl && r == some (H1.isBadTrailer k), specNote := "no panic; checked model = list model",
           tag := "nftrailer:" ++ (match k with | [] => "e" | c :: _ => String.singleton (Char.ofNat (c ||| 0x20).toNat)).replace " " "_" ++
                  boolTok (H1.isBadTrailer k) ++ boolTok (k.length ≥ 12) ++ boolTok (k.length ≥ 16) }
  | ["nfcookie", s], impl => do
    let src ← hx s
    -- `expires` goes through Go's time parser: no model opinion on the value, only "no panic"
    let hasExpires := (Uri.cookieSegs src).any (fun seg => Uri.ciEq' Gen.Str.strCookieExpires (Uri.cookieKV seg).1)
    if hasExpires then pure { out := impl, spec := noPanic impl, specNote := "no panic", tag := "nfcookie:expires" } else
    let r := NF.parseCookie src
    let out := match r with
      | none => ["PANIC"]
      | some none => ["err"]
      | some (some c) => "ok" :: C17u.cookieTokens c
    pure { out := out, spec := noPanic impl && r == some (Uri.parseCookie src), specNote := "no panic; checked model = list model",
           tag := "nfcookie:" ++ (match r with | none => "F" | some none => "err" | some (some c) => "ok" ++ C17u.ssTok c.sameSite ++ boolTok (c.maxAge > 0) ++ boolTok c.httpOnly ++ boolTok c.secure ++ boolTok c.partitioned) ++
                  boolTok (src.contains 34) ++ lenClass src.length }
  | ["nfreqcookie", s], impl => do
    let src ← hx s
    let r := NF.parseReqCookies src
    pure { out := match r with | none => ["PANIC"] | some l => C17x.encPairs l,
           spec := noPanic impl && r == some (Hertz.parseReqCookies src), specNote := "no panic; checked model = list model",
           tag := "nfreqcookie:" ++ (match r with | none => "F" | some l => sizeClass l.length ++ boolTok (l.any (·.1.isEmpty))) ++ boolTok (src.contains 34) ++ lenClass src.length }
  | ["nfdec", p, b], impl => do
    let b ← hx b
    let plus := p == "1"
    let r := NF.decodeArg plus b
    let old := if plus then Hertz.decodeArg b else Hertz.decodeArgNoPlus b
    pure { out := optTok r, spec := noPanic impl && r == some old, specNote := "no panic; checked model = list model",
           tag := "nfdec:" ++ p ++ boolTok (b.contains 37) ++ boolTok (b.getLast? == some 37 || (b.dropLast).getLast? == some 37) ++
                  boolTok (r != some b) ++ lenClass b.length }
  | ["nfargs", b], impl => do
    let b ← hx b
    let r := NF.parseArgs b
    pure { out := match r with | none => ["PANIC"] | some l => C17.encKVs l,
           spec := noPanic impl && r == some (Hertz.parseArgs b), specNote := "no panic; checked model = list model",
           tag := "nfargs:" ++ (match r with | none => "F" | some l => sizeClass l.length ++ boolTok (l.any (·.noValue))) ++ boolTok (b.contains 37) ++ lenClass b.length }
  | ["nfuri", h, u], impl => do
    let host ← hx h; let uri ← hx u
    let r := NF.parse host uri
    pure { out := match r with | none => ["PANIC"] | some x => C17u.uriTokens x ++ [encHex (x.fullURI [])],
           spec := noPanic impl && r == some (Uri.parse host uri), specNote := "no panic; checked model = list model",
           tag := "nfuri:" ++ boolTok host.isEmpty ++ boolTok (Uri.containsSub Gen.Str.strColonSlashSlash uri) ++ boolTok (Uri.hasCTL uri) ++
                  (match r with | none => "F" | some x => boolTok (!x.query.isEmpty) ++ boolTok (!x.hash.isEmpty) ++ boolTok (!x.username.isEmpty) ++ boolTok (!x.password.isEmpty) ++ boolTok (!x.scheme.isEmpty)) ++
                  lenClass uri.length }
  | ["nfrange", r, n], impl => via C08.handle ["pbr", r, n] impl "nf"
  | ["nfdate", s], impl => via C17x.handle ["httpdateparse", s] impl "nf"
  | ["nfclen", b], impl => do
    let b ← hx b
    let (v, n, e) := FS.parseUintBuf b
    let out := if e.isNone && n == b.length then [toString v] else ["ERR"]
    pure { out := out, spec := noPanic impl, specNote := "no panic",
           tag := "nfclen:" ++ boolTok (out != ["ERR"]) ++ lenClass b.length }
  | ["nfupdate", base, nw], impl => via C17x.handle ["uriprog", "1", "P", "-", base, "U", nw, "-"] impl "nf"
  | ["nfline", buf], impl => do
    -- request head through the real parser; the request line also through the checked `NF.parseFirstLine`
    let b ← hx buf
    let base ← H1.handle ["reqhead", "0", buf] impl
    let r := NF.parseFirstLine b
    let old : Except H1.HeadErr (Bytes × Bytes × Bool × Nat) := match H1.parseFirstLine b with
      | .ok (hd, n) => .ok (hd.method, hd.uri, hd.http11, n)
      | .error e => .error e
    let same := match r, old with
      | some (.ok x), .ok y => x == y
      | some (.error .needMore), .error .needMore => true
      | some (.error .bad), .error .bad => true
      | _, _ => false
    pure { out := if r.isNone then ["PANIC"] else base.out, spec := noPanic impl && same, specNote := "no panic; checked request line = list model",
           tag := "nfline:" ++ (match r with | none => "F" | some (.ok x) => "ok" ++ boolTok x.2.2.1 | some (.error .needMore) => "more" | some (.error .bad) => "bad") ++
                  boolTok (b.head? == some 13 || b.head? == some 10) ++ lenClass b.length ++ ":" ++ (base.tag.splitOn ":").getD 1 "" }
  | ["nfnorm", src], impl => do
    let b ← hx src
    let r := NF.normalizePathC b
    pure { out := optTok r, spec := noPanic impl && r == some (normalizePath b), specNote := "no panic; checked model = list model",
           tag := "nfnorm:" ++ boolTok (b.contains 37) ++ boolTok (NF.indexSub Gen.Str.strSlashSlash b ≥ 0) ++ boolTok (NF.indexSub Gen.Str.strSlashDotSlash b ≥ 0) ++
                  boolTok (NF.indexSub Gen.Str.strSlashDotDotSlash b ≥ 0) ++ boolTok (r.map (·.length) == some 1) ++ lenClass b.length }
  | ["nfclean", p], impl => via C07.handle ["cleanpath", p] impl "nf"
  | ["nfstatus", buf], impl => do
    -- a response head through the real client reader; the status line also through the checked `NF.parseStatusLine`
    let b ← hx buf
    let base ← C11.handle ["respread", "-", "0", "eof", buf, "-"] impl
    let r := NF.parseStatusLine b
    let old : Except H1.HeadErr (Int × Bool × Nat) := match H1.RespRead.parseFirstLine b with
      | .ok (hd, n) => .ok ((hd.status : Int), hd.http11, n)
      | .error e => .error e
    let same := match r, old with
      | some (.ok x), .ok y => x == y
      | some (.error .needMore), .error .needMore => true
      | some (.error .bad), .error .bad => true
      | _, _ => false
    pure { out := if r.isNone then ["PANIC"] else base.out, spec := noPanic impl && same, specNote := "no panic; checked status line = list model",
           tag := "nfstatus:" ++ (match r with | none => "F" | some (.ok x) => "ok" ++ boolTok x.2.1 | some (.error .needMore) => "more" | some (.error .bad) => "bad") ++ lenClass b.length }
  | ["nfh2c", h2c, flags, maxBody, endK, stream], impl =>
    -- `Engine.Serve` with the H2C sniffer on and no HTTP/2 server falls back to HTTP/1: same answer as `serve`
    (H1.handle ["serve", flags, maxBody, endK, stream, "-"] impl).map fun r => { r with tag := "nfh2c" ++ h2c ++ ":" ++ r.tag }
  | ["nferr", flags, maxBody, endK, stream], impl => do
    -- the bytes of the error response: `errorResponse st "hertz" (Date masked as "D")` must be what the real server
    -- wrote last (and everything it wrote when the very first request is rejected)
    let s ← hx stream
    let cfg : H1.Cfg := { disableKeepalive := flags.contains 'k', maxBody := (if maxBody.toNat! = 0 then 4194304 else maxBody.toNat!) }
    let e := if endK == "stall" then H1.End.stall else H1.End.eof
    let evs := H1.serve cfg e s
    let w ← match impl with | [x] => (if x == "PANIC" || x == "HANG" then some [] else hx x) | _ => none
    let errSt : Option Nat := match evs.getLast? with
      | some (.resp st _) => if st != 200 then some st else none
      | _ => none
    match errSt with
    | none => pure { out := impl, spec := noPanic impl && impl != ["HANG"], specNote := "no panic", tag := "nferr:noerr" ++ boolTok w.isEmpty }
    | some st =>
      let m := H1.errorResponse st Gen.Str.defaultServerName (some [68])
      let exact := evs.length == 1
      -- spec on the implementation's bytes: the strict decoder reads the tail as ONE 4xx message with Connection: close
      let tail := w.drop (w.length - m.length)
      let dec := match Spec.Resp.decodeOne false tail with
        | some (msg, rest) => rest.isEmpty && msg.status == st && 400 ≤ st && st < 500 && msg.fields.contains (Gen.Str.strConnection, Gen.Str.strClose)
        | none => false
      pure { out := if exact then [encHex m] else impl, spec := noPanic impl && m.isSuffixOf w && dec,
             specNote := "last bytes written = errorResponse; they decode as one closing 4xx",
             tag := "nferr:" ++ toString st ++ (if exact then "first" else "after" ++ toString (evs.length - 1)) ++ (if endK == "stall" then "S" else "E") }
  | _, _ => none

end Hertz.Driver.C03p
