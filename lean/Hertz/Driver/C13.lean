import Hertz.Driver.Core
import Hertz.Model.Conn
import Hertz.Spec.Fifo
/-!
Correspondence + spec handler for C13.

Reader case :  `c13r <initSize> <seed> <ev>* ; <op>*  |  <n>:<fnv>:<err>:<len>[!STALE] …` (one token per op)
  ev  : `d<N>` (N bytes, no error)   `x<N>.<E>` (N bytes, error class E with the last piece; N = 0: `(0, err)`)
  op  : `p<N>` Peek  `s<N>` Skip  `b` ReadByte  `c<N>` ReadBinary  `r<N>` Read(len N)  `R` Release  `l` Len
  The k-th byte of the stream is `genByte seed k`, so only sizes travel on the line.
Writer case :  `c13w <conn|nw> <seed> <0|1>* ; <op>*  |  …`
  script: one flag per `net.Conn.Write` call (1 = fails with (0, err)); ops `m<N>` Malloc+fill, `w<N>` WriteBinary, `f` Flush
  out: `m`/`w`: `<n>` ; `f`: `<failed>:<bytes the peer got during this flush>:<fnv of them>`
A Go panic / hang is the single token `PANIC`.
-/
namespace Hertz.Driver.C13
open Hertz Hertz.Driver Hertz.Conn Hertz.Spec.Fifo

def genByte (seed k : Nat) : UInt8 :=
  let x : UInt64 := UInt64.ofNat (k + seed) * 0x9E3779B1
  ((x >>> 15) &&& 0xff).toUInt8

/-- bytes `start … start+n-1` of the stream (built back to front: one allocation per byte) -/
def genBytesGo (seed start : Nat) : Nat → Bytes → Bytes
  | 0, acc => acc
  | n + 1, acc => genBytesGo seed start n (genByte seed (start + n) :: acc)

def genBytes (seed start n : Nat) : Bytes := genBytesGo seed start n []

def fnvGo : Bytes → UInt64 → UInt64
  | [], h => h
  | c :: t, h => fnvGo t ((h ^^^ c.toUInt64) * 1099511628211)

def fnv (b : Bytes) : UInt64 := fnvGo b 14695981039346656037

def errTok : Option Err → String
  | none => "-"
  | some e => "E" ++ toString e

def parseErr (s : String) : Option (Option Err) :=
  if s = "-" then some none
  else if s.startsWith "E" then (s.drop 1).toNat?.map some
  else none

def parseEvs (seed : Nat) : List String → Nat → Option Wire
  | [], _ => some []
  | t :: rest, pos => do
    let body := (t.drop 1).toString
    let (n, e) ←
      if t.startsWith "d" then body.toNat?.map (fun n => (n, (none : Option Err)))
      else if t.startsWith "x" then
        match body.splitOn "." with
        | [a, b] => do let n ← a.toNat?; let e ← b.toNat?; pure (n, some e)
        | _ => none
      else none
    let r ← parseEvs seed rest (pos + n)
    pure (.data (genBytes seed pos n) e :: r)

def parseOp (t : String) : Option Op :=
  let body := (t.drop 1).toString
  if t = "b" then some .readByte
  else if t = "R" then some .release
  else if t = "l" then some .len
  else if t.startsWith "p" then body.toNat?.map .peek
  else if t.startsWith "s" then body.toNat?.map .skip
  else if t.startsWith "c" then body.toNat?.map .readBinary
  else if t.startsWith "r" then body.toNat?.map .read
  else none

def outTok (o : Out) : String :=
  s!"{o.bytes.length}:{(fnv o.bytes).toNat}:{errTok o.err}:{o.len}"

/-- an implementation token → observation (`none` if malformed or flagged stale) -/
def parseObs (t : String) : Option (Obs UInt64) :=
  match t.splitOn ":" with
  | [n, h, e, l] => do
    let n ← n.toNat?; let h ← h.toNat?; let e ← parseErr e; let l ← l.toNat?
    pure { n := n, dg := UInt64.ofNat h, err := e, len := l }
  | _ => none

/-- branch label of one model step -/
def label (s : Reader) (op : Op) (o : Out) (s' : Reader) : List String :=
  let grew := if s'.nodes.length > s.nodes.length ∨ (s'.nextId > s.nextId ∧ s'.caches.length = s.caches.length ∧ op != .release) then ["N"] else []
  let cache := if s'.caches.length > s.caches.length then ["C"] else []
  let stash := if s.err.isNone && s'.err.isSome then ["S"] else []
  let unst := if s.err.isSome && s'.err.isNone then ["U"] else []
  let err := match o.err with | none => [] | some 0 => ["Ek"] | some _ => ["Ew"]
  let moved := if s'.done.length > s.done.length then ["K"] else []
  let kind :=
    match op with
    | .peek n => (if n > mallocMax then ["pB"] else []) ++ (if o.err.isNone ∧ s'.readNode.len < n then ["pX"] else ["p"])
    | .skip _ => ["s"]
    | .readByte => ["b"]
    | .readBinary n => if o.err.isNone ∧ s.readNode.len < n then ["cX"] else ["c"]
    | .read k => if s.len > 0 then ["rb"] else if k ≤ block4k then ["rf"] else ["rD"]
    | .release =>
      if s.len = 0 then
        (match s.done, s.mid with
         | [], [] => ["R1"]
         | [_], [] => [if s.w.cap > mallocMax then "R2t" else "R2"]
         | [], [_] => [if s.w.cap > mallocMax then "R2t" else "R2"]
         | _, _ => ["RG0"])
      else ["RG"]
    | .len => []
  grew ++ cache ++ stash ++ unst ++ err ++ moved ++ kind

def runLabelled (s : Reader) (w : Wire) : List Op → List String → Except Fault (List Out × List String)
  | [], ls => pure ([], ls)
  | op :: ops, ls => do
    let (o, s1, w1) ← step s w op
    let ls := (label s op o s1).foldl (fun acc l => if acc.contains l then acc else l :: acc) ls
    let (os, ls') ← runLabelled s1 w1 ops ls
    pure (o :: os, ls')

def sortStrs (l : List String) : List String := (l.toArray.qsort (· < ·)).toList

def initClass (n : Nat) : String :=
  if n ≤ 4096 then "4k" else if n ≤ 8192 then "8k" else if n ≤ mallocMax then "big" else "huge"

/-! writer -/

def parseWOps (seed : Nat) : List String → Nat → Option (List WOp)
  | [], _ => some []
  | t :: rest, pos =>
    if t = "f" then (parseWOps seed rest pos).map (.flush :: ·)
    else do
      let n ← (t.drop 1).toNat?
      let r ← parseWOps seed rest (pos + n)
      if t.startsWith "m" then pure (.malloc (genBytes seed pos n) :: r)
      else if t.startsWith "w" || t.startsWith "W" then pure (.writeBinary (genBytes seed pos n) :: r)   -- "W": slice of a shared array
      else none

def woutTok : WOp → WOut → String
  | .flush, o => s!"{boolTok o.failed}:{o.sent.length}:{(fnv o.sent).toNat}"
  | _, o => toString o.n

def parseWObs : WOp → String → Option (WObs UInt64)
  | .flush, t =>
    match t.splitOn ":" with
    | [f, n, h] => do
      let n ← n.toNat?; let h ← h.toNat?
      pure { failed := f == "1", n := n, dg := UInt64.ofNat h }
    | _ => none
  | _, t => t.toNat?.map (fun n => { failed := false, n := n, dg := 0 })

def wClass (n : Nat) : String :=
  if n = 0 then "0" else if n < 4096 then "s" else if n = 4096 then "4k" else if n ≤ 8192 then "8k" else "big"

def wlabel : WOp → String
  | .malloc bs => "m" ++ wClass bs.length
  | .writeBinary bs => "w" ++ wClass bs.length
  | .flush => "f"

def dedup (l : List String) : List String :=
  l.foldl (fun acc x => if acc.contains x then acc else x :: acc) []

def zipOpt {α β γ : Type} (f : α → β → Option γ) : List α → List β → Option (List (α × γ))
  | [], [] => some []
  | a :: as, b :: bs => do
    let c ← f a b
    let r ← zipOpt f as bs
    pure ((a, c) :: r)
  | _, _ => none

def handle : Handler
  | "c13r" :: size :: seed :: rest, impl => do
    let size ← size.toNat?
    let seed ← seed.toNat?
    let wire ← parseEvs seed (rest.takeWhile (· != ";")) 0
    let ops ← ((rest.dropWhile (· != ";")).drop 1).mapM parseOp
    let (out, labels) :=
      match runLabelled (Reader.new size) wire ops [] with
      | .ok (outs, ls) => (outs.map outTok, ls)
      | .error _ => (["PANIC"], ["FAULT"])
    -- the spec, on what the implementation reported
    let stale := impl.any (fun t => t.endsWith "!STALE")
    let trace := zipOpt (fun (_ : Op) t => parseObs t) ops impl
    let (ok, note) :=
      if stale then (false, "a slice returned by Peek changed before the next Release")
      else match trace with
        | none => (false, "panic, hang or malformed report")
        | some tr =>
          match firstRejectBytes fnv (wireBytes wire) tr 0 with
          | some i => (false, s!"byte queue rejects op #{i}: bytes are not the next bytes sent")
          | none =>
            match firstRejectCtl (Ctl.init wire) tr 0 with
            | some i => (false, s!"Len/size/error rules reject op #{i}")
            | none => (true, "")
    pure { out := out, spec := ok, specNote := note,
           tag := "r" ++ initClass size ++ ":" ++ ",".intercalate (sortStrs labels) }
  | "c13w" :: kind :: seed :: rest, impl => do
    let seed ← seed.toNat?
    let sc := (rest.takeWhile (· != ";")).map (· == "1")
    let ops ← parseWOps seed ((rest.dropWhile (· != ";")).drop 1) 0
    let keep := kind == "conn"
    let outs : Option (List WOut) :=
      if keep then
        match wrun Writer.new sc ops with
        | .ok (o, _, _) => some o
        | .error _ => none
      else some (nwRun {} sc ops).1
    let out := match outs with
      | some o => (ops.zip o).map (fun (op, o) => woutTok op o)
      | none => ["PANIC"]
    let trace := zipOpt parseWObs ops impl
    let (ok, note) := match trace with
      | none => (false, "panic or malformed report")
      | some tr => (acceptsW fnv keep [] tr, "peer must have received exactly the written bytes, in order, when Flush returns")
    let failed := match outs with | some o => o.any (·.failed) | none => false
    pure { out := out, spec := ok, specNote := note,
           tag := "w" ++ kind ++ ":" ++ boolTok failed ++ ":" ++ ",".intercalate (sortStrs (dedup (ops.map wlabel))) }
  | _, _ => none

end Hertz.Driver.C13
