import Hertz.Driver.Core
import Hertz.Model.Route
import Hertz.Spec.Route
/-!
Correspondence + spec handler for C06 (router dispatch).

Line:  `rt n (method pattern)ⁿ m (method path)ᵐ | absⁿ (REJ i class | OK resultᵐ)`
* `abs` is what `RouterGroup.calculateAbsolutePath` (i.e. `path.Join`, an external call) made of the
  pattern; the model takes it from the implementation and the spec checks that it is the pattern
  itself whenever the pattern is already clean;
* `REJ i class`: registration of route `i` panicked (`invalid`, `conflict`, `assert`, `runtime`);
* `result` = `normPath H id fullPath k (key value)ᵏ` (route handler `id` ran) | `normPath N status`
  (no route handler ran) | `normPath P` (ServeHTTP panicked).  `normPath` is `URI().Path()`, the
  path the engine routes on (normalisation is C07's subject, the model takes it as given).
-/
namespace Hertz.Driver.C06
open Hertz Hertz.Driver Hertz.Route

def takePairs : Nat → List String → Option (List (Bytes × Bytes) × List String)
  | 0, t => some ([], t)
  | n + 1, a :: b :: t => do
    let a ← hx a; let b ← hx b
    let (r, t') ← takePairs n t
    pure ((a, b) :: r, t')
  | _, _ => none

/-- (method, hex) pairs; the method is a plain token (`GET`) -/
def takeMP : Nat → List String → Option (List (Bytes × Bytes) × List String)
  | 0, t => some ([], t)
  | n + 1, a :: b :: t => do
    let b ← hx b
    let (r, t') ← takeMP n t
    pure ((a.toUTF8.toList, b) :: r, t')
  | _, _ => none

def takeHex : Nat → List String → Option (List Bytes × List String)
  | 0, t => some ([], t)
  | n + 1, a :: t => do
    let a ← hx a
    let (r, t') ← takeHex n t
    pure (a :: r, t')
  | _, _ => none

inductive ImplRes where
  | h (id : Nat) (fullPath : Bytes) (params : List (Bytes × Bytes))
  | n (status : String)
  | p
  | x  -- the request could not be built (URI parser panicked): no lookup took place

/-- normalised path: `=` means "the request target itself" -/
def normOf (raw : Bytes) (tok : String) : Option Bytes := if tok == "=" then some raw else hx tok

/-- parse the lookup results, one per lookup -/
def parseResults : List (Bytes × Bytes) → List String → Option (List (Bytes × ImplRes))
  | [], [] => some []
  | [], _ :: _ => none
  | (_, raw) :: ls, np :: "H" :: id :: fp :: k :: t => do
    let np ← normOf raw np; let fp ← hx fp
    let (ps, t') ← takePairs k.toNat! t
    let r ← parseResults ls t'
    pure ((np, .h id.toNat! fp ps) :: r)
  | (_, raw) :: ls, np :: "N" :: st :: t => do
    let np ← normOf raw np
    let r ← parseResults ls t
    pure ((np, .n st) :: r)
  | (_, raw) :: ls, np :: "P" :: t => do
    let np ← normOf raw np
    let r ← parseResults ls t
    pure ((np, .p) :: r)
  | (_, raw) :: ls, _ :: "X" :: t => do
    let r ← parseResults ls t
    pure ((raw, .x) :: r)
  | _, _ => none

def faultTok : Fault → String
  | .panic _ => "runtime"
  | .invalid => "invalid"
  | .conflict => "conflict"
  | .assert => "assert"

/-- register in order; on failure the index of the route that was refused -/
def addAll : Engine → Nat → List (Bytes × Bytes) → Except (Nat × Fault) Engine
  | e, _, [] => .ok e
  | e, i, (m, p) :: r =>
    match e.addRoute m p (i + 1) with
    | .error f => .error (i, f)
    | .ok e' => addAll e' (i + 1) r

def pairsTok : List (Bytes × Bytes) → List String
  | [] => []
  | (k, v) :: r => encHex k :: encHex v :: pairsTok r

def servedTok (np : String) : Served → List String
  | .handler f => [np, "H", toString f.handlers, encHex f.fullPath, toString f.params.length] ++ pairsTok f.params
  | .noRoute => [np, "N"]
  | .panic _ => [np, "P"]

/-- a pattern that `path.Join("/", p)` + the trailing-slash rule of `joinPaths` must leave alone:
starts with `/`, no empty, `.` or `..` segment except an empty last one -/
def cleanSegs : List Bytes → Bool
  | [] => true
  | [_] => true
  | s :: r => !s.isEmpty && s != [46] && s != [46, 46] && cleanSegs r

/-- split at `/` -/
def splitGo : Bytes → Bytes → List Bytes
  | cur, [] => [cur]
  | cur, c :: r => if c = 47 then cur :: splitGo [] r else splitGo (cur ++ [c]) r

def splitSlash (p : Bytes) : List Bytes := splitGo [] p

def isClean (p : Bytes) : Bool :=
  match p with
  | 47 :: r => r.isEmpty || (cleanSegs (splitSlash r) && (splitSlash r).getLast? != some [46] && (splitSlash r).getLast? != some [46, 46])
  | _ => false

def ltBytes : Bytes → Bytes → Bool
  | [], [] => false
  | [], _ :: _ => true
  | _ :: _, [] => false
  | a :: s, b :: t => a < b || (a == b && ltBytes s t)

def insertSorted (r : Spec.Route.Route) : List Spec.Route.Route → List Spec.Route.Route
  | [] => [r]
  | x :: t => if ltBytes (r.method ++ [0] ++ r.pattern) (x.method ++ [0] ++ x.pattern) then r :: x :: t else x :: insertSorted r t

/-- the route set in an order that does not depend on the registration order -/
def canonical (rs : List Spec.Route.Route) : List Spec.Route.Route := rs.foldr insertSorted []

def mkRoutes : Nat → List (Bytes × Bytes) → List Spec.Route.Route
  | _, [] => []
  | i, (m, p) :: r => { method := m, pattern := p, handler := i + 1 } :: mkRoutes (i + 1) r

def okStatus (s : String) : Bool := s == "404" || s == "301" || s == "307"

/-- the property's predicate on one observed lookup -/
def specLookup (rs : List Spec.Route.Route) (m : Bytes) : Bytes × ImplRes → Bool
  | (np, .h id fp ps) =>
    match rs.find? (·.handler == id) with
    | none => false
    | some r => fp == r.pattern && decide (Spec.Route.Selected rs m np r ps)
        && Spec.Route.instantiate (Spec.Route.parsePattern r.pattern) ps == np
  | (np, .n st) => okStatus st && decide (Spec.Route.NoMatch rs m np)
  | (_, .p) => false
  | (_, .x) => true

def specAll (rs : List Spec.Route.Route) : List (Bytes × Bytes) → List (Bytes × ImplRes) → Bool
  | [], [] => true
  | (m, _) :: ls, r :: rs' => specLookup rs m r && specAll rs ls rs'
  | _, _ => false

def nMatching (rs : List Spec.Route.Route) (m p : Bytes) : Nat :=
  (rs.filter (fun r => (r.matches m p).isSome)).length

def handle : Handler
  | "rt" :: n :: rest, impl => do
    let n := n.toNat!
    let (routes, rest) ← takeMP n rest
    let m ← rest.head?
    let m := m.toNat!
    let (lookups, rest') ← takeMP m (rest.drop 1)
    if !rest'.isEmpty then none
    let (abs, implRest) ← takeHex n impl
    let regs := (routes.zip abs).map (fun ((meth, _), a) => (meth, a))
    let absTok := abs.map encHex
    let cleanOk := (routes.zip abs).all (fun ((_, p), a) => !isClean p || a == p)
    let hasP := abs.any (·.contains 58)
    let hasA := abs.any (·.contains 42)
    let base := "rt:" ++ sizeClass n ++ boolTok hasP ++ boolTok hasA
    match addAll {} 0 regs with
    | .error (i, f) =>
      let implRuntime := implRest.getLast? == some "runtime"
      pure { out := absTok ++ ["REJ", toString i, faultTok f],
             spec := cleanOk && !implRuntime,
             specNote := "registration: clean patterns unchanged, no run-time error",
             tag := base ++ ":rej:" ++ faultTok f }
    | .ok e =>
      match implRest with
      | "OK" :: resToks =>
        match parseResults lookups resToks with
        | none => none
        | some results =>
          let served := (lookups.zip results).map (fun ((meth, raw), (np, _)) =>
            ((if np == raw then "=" else encHex np), e.serve meth np))
          -- the status of a lookup without handler is not modelled: copy it
          let outToks := (served.zip results).flatMap (fun ((np, s), (_, ir)) =>
            match s, ir with
            | .noRoute, .n st => [np, "N", st]
            | _, .x => ["=", "X"]
            | s, _ => servedTok np s)
          let rs := canonical (mkRoutes 0 regs)
          let spec := cleanOk && specAll rs lookups results
          let hits := (served.filter (fun (_, s) => match s with | .handler _ => true | _ => false)).length
          -- hits that bound at least one parameter
          let amb := (served.filter (fun (_, s) => match s with | .handler f => !f.params.isEmpty | _ => false)).length
          pure { out := absTok ++ "OK" :: outToks, spec := spec,
                 specNote := "selected route = best matching pattern (literal > param > catch-all at first difference), params = matched substrings, fullPath = pattern, none matches => no handler",
                 tag := base ++ ":ok:h" ++ sizeClass hits ++ "m" ++ sizeClass (m - hits) ++ "p" ++ sizeClass amb }
      | _ =>
        -- the implementation refused a set the model accepts
        pure { out := absTok ++ ["OK"], spec := cleanOk, tag := base ++ ":ok:implrej" }
  | _, _ => none

end Hertz.Driver.C06
