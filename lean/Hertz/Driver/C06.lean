import Hertz.Driver.Core
import Hertz.Model.Route
import Hertz.Model.RouteIter
import Hertz.Spec.Route
/-!
Correspondence + spec handler for C06 (router dispatch).

Line:  `rt n (method pattern)ⁿ m (method path)ᵐ | absⁿ (REJ i class | OK resultᵐ)`
       `rtx mask n (method pattern)ⁿ m (method path)ᵐ | …` the same with engine options: mask bit 0 =
       RedirectTrailingSlash OFF, bit 1 = HandleMethodNotAllowed, bit 2 = UseRawPath, bit 3 =
       UnescapePathValues OFF, bit 4 = RemoveExtraSlash (`normPath` is then the `rPath` the engine routes on).
The model that predicts the output is the ITERATIVE `find` (`Model/RouteIter.lean`: `Engine.serveIter`), status
of a lookup without handler included (301/307/405/404/400); the recursive `find` (`Engine.serve`) the
theorems speak about is recomputed too and must agree (`agree` below, part of the spec verdict).
* `abs` is what `RouterGroup.calculateAbsolutePath` (i.e. `path.Join`, an external call) made of the
  pattern; the model takes it from the implementation and the spec checks that it is the pattern
  itself whenever the pattern is already clean;
* `REJ i class`: registration of route `i` panicked (`invalid`, `conflict`, `assert`, `runtime`);
* `result` = `normPath H id fullPath k (key value)ᵏ` (route handler `id` ran) | `normPath N status`
  (no route handler ran) | `normPath P` (ServeHTTP panicked).  `normPath` is `URI().Path()`, the
  path the engine routes on (normalisation is C07's subject, the model takes it as given).
-/
namespace Hertz.Driver.C06
open Hertz Hertz.Driver Hertz.Route

def takePairs : Nat → List String → Option (List (Bytes × Bytes) × List String)
  | 0, t => some ([], t)
  | n + 1, a :: b :: t => do
    let a ← hx a; let b ← hx b
    let (r, t') ← takePairs n t
    pure ((a, b) :: r, t')
  | _, _ => none

/-- (method, hex) pairs; the method is a plain token (`GET`) -/
def takeMP : Nat → List String → Option (List (Bytes × Bytes) × List String)
  | 0, t => some ([], t)
  | n + 1, a :: b :: t => do
    let b ← hx b
    let (r, t') ← takeMP n t
    pure ((a.toUTF8.toList, b) :: r, t')
  | _, _ => none

def takeHex : Nat → List String → Option (List Bytes × List String)
  | 0, t => some ([], t)
  | n + 1, a :: t => do
    let a ← hx a
    let (r, t') ← takeHex n t
    pure (a :: r, t')
  | _, _ => none

inductive ImplRes where
  | h (id : Nat) (fullPath : Bytes) (params : List (Bytes × Bytes))
  | n (status : String)
  | p
  | x  -- the request could not be built (URI parser panicked): no lookup took place

/-- normalised path: `=` means "the request target itself" -/
def normOf (raw : Bytes) (tok : String) : Option Bytes := if tok == "=" then some raw else hx tok

/-- parse the lookup results, one per lookup -/
def parseResults : List (Bytes × Bytes) → List String → Option (List (Bytes × ImplRes))
  | [], [] => some []
  | [], _ :: _ => none
  | (_, raw) :: ls, np :: "H" :: id :: fp :: k :: t => do
    let np ← normOf raw np; let fp ← hx fp
    let (ps, t') ← takePairs k.toNat! t
    let r ← parseResults ls t'
    pure ((np, .h id.toNat! fp ps) :: r)
  | (_, raw) :: ls, np :: "N" :: st :: t => do
    let np ← normOf raw np
    let r ← parseResults ls t
    pure ((np, .n st) :: r)
  | (_, raw) :: ls, np :: "P" :: t => do
    let np ← normOf raw np
    let r ← parseResults ls t
    pure ((np, .p) :: r)
  | (_, raw) :: ls, _ :: "X" :: t => do
    let r ← parseResults ls t
    pure ((raw, .x) :: r)
  | _, _ => none

def faultTok : Fault → String
  | .panic _ => "runtime"
  | .invalid => "invalid"
  | .conflict => "conflict"
  | .assert => "assert"

/-- register in order; on failure the index of the route that was refused -/
def addAll : Engine → Nat → List (Bytes × Bytes) → Except (Nat × Fault) Engine
  | e, _, [] => .ok e
  | e, i, (m, p) :: r =>
    match e.addRoute m p (i + 1) with
    | .error f => .error (i, f)
    | .ok e' => addAll e' (i + 1) r

def pairsTok : List (Bytes × Bytes) → List String
  | [] => []
  | (k, v) :: r => encHex k :: encHex v :: pairsTok r

def servedTok (np : String) : Served → List String
  | .handler f => [np, "H", toString f.handlers, encHex f.fullPath, toString f.params.length] ++ pairsTok f.params
  | .noRoute => [np, "N"]
  | .panic _ => [np, "P"]

/-- a pattern that `path.Join("/", p)` + the trailing-slash rule of `joinPaths` must leave alone:
starts with `/`, no empty, `.` or `..` segment except an empty last one -/
def cleanSegs : List Bytes → Bool
  | [] => true
  | [_] => true
  | s :: r => !s.isEmpty && s != [46] && s != [46, 46] && cleanSegs r

/-- split at `/` -/
def splitGo : Bytes → Bytes → List Bytes
  | cur, [] => [cur]
  | cur, c :: r => if c = 47 then cur :: splitGo [] r else splitGo (cur ++ [c]) r

def splitSlash (p : Bytes) : List Bytes := splitGo [] p

def isClean (p : Bytes) : Bool :=
  match p with
  | 47 :: r => r.isEmpty || (cleanSegs (splitSlash r) && (splitSlash r).getLast? != some [46] && (splitSlash r).getLast? != some [46, 46])
  | _ => false

def ltBytes : Bytes → Bytes → Bool
  | [], [] => false
  | [], _ :: _ => true
  | _ :: _, [] => false
  | a :: s, b :: t => a < b || (a == b && ltBytes s t)

def insertSorted (r : Spec.Route.Route) : List Spec.Route.Route → List Spec.Route.Route
  | [] => [r]
  | x :: t => if ltBytes (r.method ++ [0] ++ r.pattern) (x.method ++ [0] ++ x.pattern) then r :: x :: t else x :: insertSorted r t

/-- the route set in an order that does not depend on the registration order -/
def canonical (rs : List Spec.Route.Route) : List Spec.Route.Route := rs.foldr insertSorted []

def mkRoutes : Nat → List (Bytes × Bytes) → List Spec.Route.Route
  | _, [] => []
  | i, (m, p) :: r => { method := m, pattern := p, handler := i + 1 } :: mkRoutes (i + 1) r

def okStatus (s : String) : Bool := s == "404" || s == "301" || s == "307"

/-- the property's predicate on one observed lookup -/
def specLookup (rs : List Spec.Route.Route) (m : Bytes) : Bytes × ImplRes → Bool
  | (np, .h id fp ps) =>
    match rs.find? (·.handler == id) with
    | none => false
    | some r => fp == r.pattern && decide (Spec.Route.Selected rs m np r ps)
        && Spec.Route.instantiate (Spec.Route.parsePattern r.pattern) ps == np
  | (np, .n st) => okStatus st && decide (Spec.Route.NoMatch rs m np)
  | (_, .p) => false
  | (_, .x) => true

def specAll (rs : List Spec.Route.Route) : List (Bytes × Bytes) → List (Bytes × ImplRes) → Bool
  | [], [] => true
  | (m, _) :: ls, r :: rs' => specLookup rs m r && specAll rs ls rs'
  | _, _ => false

def nMatching (rs : List Spec.Route.Route) (m p : Bytes) : Nat :=
  (rs.filter (fun r => (r.matches m p).isSome)).length

def servedITok (np : String) : Iter.ServedI → List String
  | .handler f => [np, "H", toString f.handlers, encHex f.fullPath, toString f.params.length] ++ pairsTok f.params
  | .redirect c => [np, "N", toString c]
  | .notAllowed => [np, "N", "405"]
  | .notFound => [np, "N", "404"]
  | .badRequest => [np, "N", "400"]
  | .panic _ => [np, "P"]
  | .outOfFuel => [np, "FUEL"]

/-- recursive `serve` and iterative `serveIter` give the same handler (values unescaped when asked) / no handler -/
def agree (u : Bool) : Served → Iter.ServedI → Bool
  | .handler f, .handler g =>
    g == { f with params := f.params.map fun kv => (kv.1, Iter.unescapeVal u kv.2) }
  | .noRoute, .redirect _ => true
  | .noRoute, .notAllowed => true
  | .noRoute, .notFound => true
  | .panic _, .panic _ => true
  | _, _ => false

/-- `trailingSlashURL` on the path -/
def toggleSlash (p : Bytes) : Bytes :=
  if p.length > 1 && p.getLast? == some 47 then p.dropLast else p ++ [47]

/-- the property's predicate on one observed lookup, with engine options -/
def specLookupX (o : Iter.Opts) (rs : List Spec.Route.Route) (m : Bytes) : Bytes × ImplRes → Bool
  | (np, .h id fp ps) =>
    match Spec.Route.select rs m np with
    | none => false
    | some (r, psRaw) =>
      r.handler == id && fp == r.pattern && decide (Spec.Route.Selected rs m np r psRaw)
        && ps == psRaw.map (fun kv => (kv.1, Iter.unescapeVal o.unescape kv.2))
        && Spec.Route.instantiate (Spec.Route.parsePattern r.pattern) psRaw == np
  | (np, .n st) =>
    decide (Spec.Route.NoMatch rs m np) &&
    (let other := rs.any (fun r => r.method != m && (r.matches r.method np).isSome)
     if st == "301" || st == "307" then
       o.redirectTrailingSlash && np != [47] && ((st == "301") == (m == Iter.mGET))
     else if st == "405" then o.handleMethodNotAllowed && other
     else if st == "404" then !(o.handleMethodNotAllowed && other)
     else false)
  | (_, .p) => false
  | (_, .x) => true

def specAllX (o : Iter.Opts) (rs : List Spec.Route.Route) : List (Bytes × Bytes) → List (Bytes × ImplRes) → Bool
  | [], [] => true
  | (m, _) :: ls, r :: rs' => specLookupX o rs m r && specAllX o rs ls rs'
  | _, _ => false

def optsOf (mask : Nat) : Iter.Opts :=
  { redirectTrailingSlash := !mask.testBit 0, handleMethodNotAllowed := mask.testBit 1,
    unescape := mask.testBit 2 && !mask.testBit 3 }

def handleRt (opName : String) (mask : Nat) (n : String) (rest impl : List String) : Option Result := do
    let o := optsOf mask
    let n := n.toNat!
    let (routes, rest) ← takeMP n rest
    let m ← rest.head?
    let m := m.toNat!
    let (lookups, rest') ← takeMP m (rest.drop 1)
    if !rest'.isEmpty then none
    let (abs, implRest) ← takeHex n impl
    let regs := (routes.zip abs).map (fun ((meth, _), a) => (meth, a))
    let absTok := abs.map encHex
    let cleanOk := (routes.zip abs).all (fun ((_, p), a) => !isClean p || a == p)
    let hasP := abs.any (·.contains 58)
    let hasA := abs.any (·.contains 42)
    let base := opName ++ (if mask == 0 then "" else toString mask) ++ ":" ++ sizeClass n ++ (if n ≥ 17 then "W" else "") ++ boolTok hasP ++ boolTok hasA
    match addAll {} 0 regs with
    | .error (i, f) =>
      let implRuntime := implRest.getLast? == some "runtime"
      pure { out := absTok ++ ["REJ", toString i, faultTok f],
             spec := cleanOk && !implRuntime,
             specNote := "registration: clean patterns unchanged, no run-time error",
             tag := base ++ ":rej:" ++ faultTok f }
    | .ok e =>
      match implRest with
      | "OK" :: resToks =>
        match parseResults lookups resToks with
        | none => none
        | some results =>
          let served := (lookups.zip results).map (fun ((meth, raw), (np, _)) =>
            ((if np == raw then "=" else encHex np), Iter.Engine.serveIter e o meth np, e.serve meth np))
          let outToks := (served.zip results).flatMap (fun ((np, s, _), (_, ir)) =>
            match ir with
            | .x => ["=", "X"]
            | _ => servedITok np s)
          let rs := canonical (mkRoutes 0 regs)
          -- the recursive find (subject of the theorems) agrees with the iterative one, for every option mask
          let agreeAll := served.all (fun (_, s, r) => agree o.unescape r s)
          let specOk := specAllX o rs lookups results
          let spec := cleanOk && agreeAll && specOk
          let hits := (served.filter (fun (_, s, _) => match s with | .handler _ => true | _ => false)).length
          -- hits that bound at least one parameter
          let amb := (served.filter (fun (_, s, _) => match s with | .handler f => !f.params.isEmpty | _ => false)).length
          let red := served.any (fun (_, s, _) => match s with | .redirect _ => true | _ => false)
          let na := served.any (fun (_, s, _) => match s with | .notAllowed => true | _ => false)
          -- redirects whose target (slash toggled) matches no route of the method: not part of the property, counted
          let dead := (lookups.zip served).any (fun ((meth, _), (_, s, _)) => match s with
            | .redirect _ => true | _ => false) &&
            (lookups.zip results).any (fun ((meth, _), (np, ir)) => match ir with
              | .n st => (st == "301" || st == "307") && (Spec.Route.select rs meth (toggleSlash np)).isNone | _ => false)
          pure { out := absTok ++ "OK" :: outToks, spec := spec,
                 specNote := "selected route = best matching pattern (literal > param > catch-all at first difference), params = matched substrings (unescaped when asked), fullPath = pattern, none matches => no handler, 301/307 only with RedirectTrailingSlash and path != /, 405 iff another method matches, else 404; iterative = recursive find",
                 tag := base ++ ":ok:h" ++ sizeClass hits ++ "m" ++ sizeClass (m - hits) ++ "p" ++ sizeClass amb
                          ++ (if red then "r" else "") ++ (if na then "a" else "") ++ (if dead then "d" else "") }
      | _ =>
        -- the implementation refused a set the model accepts
        pure { out := absTok ++ ["OK"], spec := cleanOk, tag := base ++ ":ok:implrej" }

def handle : Handler
  | "rt" :: n :: rest, impl => handleRt "rt" 0 n rest impl
  | "rtx" :: mask :: n :: rest, impl => handleRt "rtx" mask.toNat! n rest impl
  | _, _ => none

end Hertz.Driver.C06
