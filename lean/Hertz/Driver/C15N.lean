import Hertz.Driver.C15
import Hertz.Model.BindNested
/-!
Driver handler for C15, nested struct types and streamed bodies (extension X15).  One case:

`nbind <api> <st> FOREST REQ DEEP`
* `<api>` = `a` (Bind then BindAndValidate) | `v` (BindAndValidate then Bind): which entry point binds first; the
  model ignores it.  `<st>` = `b` buffered body | `s` body stream (`SetBodyStream`, known length) | `d` a body stream
  that was read to the end before the bind
* FOREST = `<n>` nodes; node = `L FIELD` | `S HDR <anon 0/1> FOREST`; FIELD as in Driver/C15.lean; HDR = FIELD whose
  type token is stars followed by `S`
* REQ as in Driver/C15.lean (its JSON members are the top-level members; an object value is the atom `o`)
* DEEP = `<n>` entries `<nparents> <parent hex>… <key hex> JVAL`: the members of nested objects, in wire order

Implementation output: the outcome of the first bind, `;`, the outcome of a second bind of THE SAME request into a
fresh value, `;`.  An outcome is `OK <leaf>…` (leaves in field order, depth first; a nil pointer-to-struct shows its
leaves as zero values), `ERR:<class>` or `PANIC`.
-/
namespace Hertz.Driver.C15N
open Hertz Hertz.Driver Hertz.Bind Hertz.Driver.C15

def parseHdrTy (s : String) : Option Ty :=
  let cs := s.toList
  if cs.dropWhile (· == '*') == ['S'] then some { base := .str, ptr := (cs.takeWhile (· == '*')).length } else none

def parseFieldWith (pty : String → Option Ty) : P Field := do
  let name ← hexTok
  let ty ← (do let t ← tok; (pty t : Option Ty))
  let d ← tok
  let dflt ← (match d.toList with
    | ['N'] => pure none
    | 'D' :: r => (do let b ← (hx (String.ofList r) : Option Bytes); pure (some b))
    | _ => failure : P (Option Bytes))
  let tags ← counted (do
    let s ← tok
    let src ← (Src.ofName s : Option Src)
    let c ← hexTok
    pure (src, c))
  pure { name, ty, tags, dflt }

mutual
partial def parseNodes : Nat → P Forest
  | 0 => pure .nil
  | n + 1 => do
    let k ← tok
    match k with
    | "L" => do
      let f ← parseFieldWith parseTy
      let rest ← parseNodes n
      pure (.leaf f rest)
    | "S" => do
      let hdr ← parseFieldWith parseHdrTy
      let a ← tok
      let kids ← parseForest
      let rest ← parseNodes n
      pure (.strct hdr (a == "1") kids rest)
    | _ => failure
partial def parseForest : P Forest := do
  let n ← natTok
  parseNodes n
end

def parseEntry : P JEntry := do
  let parents ← counted hexTok
  let key ← hexTok
  let val ← parseJVal
  pure { parents, key, val }

def parseSt (s : String) : Option BodySt :=
  match s with
  | "b" => some .buffered | "s" => some .stream | "d" => some .drained
  | _ => none

def renderN (fs : List Field) : NOutcome → Option (List String)
  | .ok vals => some ("OK" :: renderAll fs vals)
  | .err e => some [errTok e]
  | .unk => none
  | .fault => some ["PANIC"]

def depth : Forest → Nat
  | .nil => 0
  | .leaf _ rest => max 1 (depth rest)
  | .strct _ _ kids rest => max (1 + depth kids) (depth rest)

/-- largest number of struct-typed sibling fields at nesting depth ≥ `d` -/
def structSibs : Forest → Nat
  | .nil => 0
  | .leaf _ rest => structSibs rest
  | .strct _ _ _ rest => 1 + structSibs rest

def maxSibsDeep : Nat → Forest → Nat
  | _, .nil => 0
  | lvl, .leaf _ rest => maxSibsDeep lvl rest
  | lvl, .strct h a kids rest =>
    max (if lvl ≥ 3 then structSibs (.strct h a kids rest) else 0) (max (maxSibsDeep (lvl + 1) kids) (maxSibsDeep lvl rest))

def hasAnon : Forest → Bool
  | .nil => false
  | .leaf _ rest => hasAnon rest
  | .strct _ a kids rest => a || hasAnon kids || hasAnon rest

def shapeTok : NOutcome → String
  | .ok _ => "ok" | .err e => errTok e | .unk => "unk" | .fault => "fault"

/-- which source decides the deepest-first nested leaf (branch tag) -/
def deepSrc (q : NReq) (ctx : List (Field × Bool × List Bytes × Option (List Bytes))) : String :=
  match ctx.find? (fun x => !x.2.1 && x.2.2.1 != []) with
  | some x => Spec.Bind.decidedBy x.1 (Spec.Bind.focus q x.2.2.1)
  | none => "-"

def classifyN (q : NReq) (ctx : List (Field × Bool × List Bytes × Option (List Bytes))) (impl specOut : List String) : String :=
  let leafCtx := ctx.filter (fun x => !x.2.1)
  match impl, specOut with
  | "OK" :: a, "OK" :: b =>
    let diff := ((leafCtx.zip (a.zip b)).filter (fun x => x.2.1 != x.2.2)).map (·.1)
    let cs := diff.map (Spec.Bind.nestedClass q)
    if cs.all (· != "") then cs.headD "" else ""
  | _, _ => ((ctx.map (Spec.Bind.nestedClass q)).find? (· != "")).getD ""

def handle : Handler
  | "nbind" :: api :: st :: rest, impl => do
    let bst ← parseSt st
    let ((t, r, deep), left) ← (do
      let t ← parseForest
      let r ← parseReq
      let deep ← counted parseEntry
      pure (t, r, deep) : P (Forest × Req × List JEntry)) rest
    if !left.isEmpty then none
    let implSteps := splitSteps impl
    let (i1, i2) ← (match implSteps with
      | [a, b] => some (a, b)
      | _ => none)
    let q : NReq := { r := r, deep := deep, st := bst }
    let fs := leaves t
    let m1 := bindN t q
    let m2 := bindN t m1.2
    let o1 := (renderN fs m1.1).getD i1
    let o2 := (renderN fs m2.1).getD i2
    -- the spec: stateless, evaluated on the implementation's output of BOTH binds
    let sp := Spec.Bind.specBindN t q
    let specOut := renderN fs sp
    let ctx := Spec.Bind.fieldCtx [] (some []) t
    let ok1 := match specOut with
      | none => true
      | some o => o == i1
    let ok2 := match specOut with
      | none => true
      | some o => o == i2
    let specOk := ok1 && ok2
    let bad := if !ok1 then i1 else i2
    let bodyTag := match r.body with
      | .none => "0" | .notJson => "X" | .json _ => if deep.isEmpty then "J" else "JN"
    pure { out := o1 ++ [";"] ++ o2 ++ [";"], spec := specOk,
           specNote := "declarative binding spec for nested types, both binds of the request; expected " ++ " ".intercalate (specOut.getD []),
           cls := if specOk then "" else classifyN q.seen ctx bad (specOut.getD []),
           tag := "nb:" ++ api ++ st ++ ":d" ++ toString (depth t) ++ ":w" ++ toString (maxSibsDeep 0 t) ++ (if hasAnon t then "e" else "") ++ ":" ++
             bodyTag ++ ":" ++ shapeTok m1.1 ++ ":" ++ deepSrc q.seen ctx }
  | _, _ => none

end Hertz.Driver.C15N
