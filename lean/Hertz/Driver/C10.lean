import Hertz.Driver.Core
import Hertz.Model.ClientSim
/-!
C10 driver ops.

`c10seq max wait n (m f x d)*n | (cls count idle waitq pending dials closed sends)*n Q open excl dirty afterClose wrong late sentTwice T trace…`
  sequential run: the model predicts every token, including the whole hook trace.

`c10conc max wait ncallers nreq reapms seed (m f x d)* | trace… F count idle waitq pending open maxSeen excl dirty afterClose wrong late sentTwice`
`c10stale gap | trace… F … cls0 cls1`
  concurrent run: the recorded trace must be accepted by `Pool.step` with equal triples, and the
  model's final gauges must equal the observed ones.

The spec predicate is evaluated on the implementation's tokens only.
-/
namespace Hertz.Driver.C10
open Hertz Hertz.Driver Hertz.Pool

def parseReqs : List String → Option (List Req)
  | [] => some []
  | m :: f :: x :: d :: t => do
    let f ← f.toNat?; let x ← x.toNat?; let r ← parseReqs t
    pure ({ post := m == "p", fault := f, ctxm := x, dialFail := d == "1" } :: r)
  | _ => none

def nat? (s : String) : Option Nat := s.toNat?

/-- class of the one recorded defect of the tree (known_findings.json, F16) -/
def clsStale := "stale-waiter-queued"

def joinCls (l : List String) : String := "+".intercalate l

/-- spec on the per-request gauges of a sequential run: after every returned call the pool is at
rest: count = idle, no waiter, pending = 0; at the end open = idle, nothing bad was seen -/
def seqSpec (impl : List String) : Bool × List String × String :=
  let rec go (i : Nat) : List String → Bool × List String × String
    | "Q" :: op :: excl :: dirty :: acl :: wrong :: late :: twice :: _ =>
      let ok := excl == "0" && dirty == "0" && acl == "0" && wrong == "0" && late == "0" && twice == "0"
      (ok, if ok then [] else [""], op)
    | _cls :: count :: idle :: wq :: pend :: _d :: _c :: _s :: rest =>
      let r := go (i + 1) rest
      let okPool := count == idle && wq == "0"
      let okPend := pend == "0"
      (r.1 && okPool && okPend, (if !okPool || !okPend then [""] else []) ++ r.2.1, r.2.2)
    | _ => (false, [""], "")
  go 0 impl

def dedup (l : List String) : List String := l.foldl (fun acc x => if acc.contains x then acc else acc ++ [x]) []

def handle : Handler
  | "c10seq" :: max :: wait :: _n :: reqs, impl => do
    let max ← nat? max
    let reqs ← parseReqs reqs
    let cfg : Cfg := { maxConns := effMax max, wait := wait == "1" }
    let (sim, per) := simSeq cfg {} 0 reqs []
    let openM := sim.nextConn - sim.st.closed.length
    let out := per ++ ["Q", toString openM, "0", "0", "0", "0", "0", "0", "T"] ++ sim.trace.reverse
    let (ok, cl, op) := seqSpec impl
    -- at the end every connection is idle or closed
    let lastIdle := impl.getD (8 * (reqs.length - 1) + 2) "0"
    let ok2 := reqs.isEmpty || op == lastIdle
    let cls := dedup cl
    let clsStr := if !ok2 || cls.contains "" then "" else joinCls cls
    let seen := dedup ((List.range reqs.length).map (fun i => per.getD (8 * i) ""))
    pure { out, spec := ok && ok2 && sim.ok, specNote := "after every call: count=idle, no waiter, pending=0; at the end open=idle, no exclusive/dirty/late/wrong/resend",
           cls := clsStr,
           tag := s!"seq:m{max}w{wait}:" ++ ",".intercalate seen ++ (if (sim.trace.filter (·.startsWith "acq,")).length > reqs.length then ":retry" else "") }
  | "c10conc" :: max :: wait :: _nc :: _nr :: reap :: _seed :: _reqs, impl => conc max wait (reap != "0") impl
  | ["c10stale", _gap], impl => conc "1" "1" false impl
  | ["c10stale", _gap, _ctx], impl => conc "1" "1" false impl
  | _, _ => none
where
  conc (max wait : String) (reap : Bool) (impl : List String) : Option Result := do
    let max := effMax (← nat? max)
    let cfg : Cfg := { maxConns := max, wait := wait == "1" }
    let trace := impl.takeWhile (· != "F")
    let fin := (impl.dropWhile (· != "F")).drop 1
    let v := validate cfg trace
    match fin with
    | count :: idle :: wq :: pend :: op :: maxSeen :: excl :: dirty :: acl :: wrong :: late :: twice :: rest =>
      let s := v.st
      let dials := (trace.filter (fun t => t.startsWith "dial,")).length
      let mfin := [toString s.count, toString s.idle.length, toString s.queue.length, toString s.pending,
                   toString (dials - s.closed.length)]
      let out := match v.bad with
        | some b => trace.take v.n ++ [b]
        | none => trace ++ "F" :: mfin ++ maxSeen :: excl :: dirty :: acl :: wrong :: late :: twice :: rest
      -- spec, on the implementation's tokens
      let okPool := count == idle && idle == op
      let okWait := wq == "0"
      let okPend := pend == "0"
      let okMax := (maxSeen.toNat?.getD 999999) ≤ max && !v.tripleBad
      let okObs := excl == "0" && dirty == "0" && acl == "0" && wrong == "0" && late == "0" && twice == "0"
      -- known class: the queue holds only dead waiters (model view) while every call has returned
      let waitKnown := !okWait && v.bad.isNone && s.live.isEmpty
      let unknown := !okPool || !okMax || !okObs || !okPend || (!okWait && !waitKnown)
      let cls := if unknown then "" else joinCls (if waitKnown then [clsStale] else [])
      let quietOk := v.bad.isSome || decide (Quiet s)
      pure { out, spec := okPool && okWait && okPend && okMax && okObs && quietOk,
             specNote := "at quiescence: count=idle=open conns, no waiter queued, pending=0; count<=max throughout; no exclusive/dirty/late/wrong/resend",
             cls,
             tag := s!"conc:m{max}w{wait}r{boolTok reap}:" ++ String.join (v.feats.mergeSort (· ≤ ·)) }
    | _ => none

end Hertz.Driver.C10
