import Hertz.Driver.Core
import Hertz.Model.ClientSim
import Hertz.Model.ClientHosts
import Hertz.Model.ClientHelper
/-!
C10 driver ops.

`c10seq max wait n (m f x d)*n | (cls count idle waitq pending dials closed sends)*n Q open excl dirty afterClose wrong late sentTwice T trace…`
  sequential run: the model predicts every token, including the whole hook trace.

`c10conc max wait ncallers nreq reapms seed (m f x d)* | trace… F count idle waitq pending open maxSeen excl dirty afterClose wrong late sentTwice`
`c10stale gap | trace… F … cls0 cls1`
  concurrent run: the recorded trace must be accepted by `Pool.step` with equal triples, and the
  model's final gauges must equal the observed ones.

`c10cli max wait mcd ppol nsteps (kind host m f x d)* | (cls (count idle waitq pending shouldRemove nhc dials open)*3)*(nsteps+1) Q maxOpen*3 excl dirty afterClose wrong late sentTwice`
  Client-level script (host-client map, janitor tick, MaxConnDuration, requests kept in flight):
  the model predicts every row; see harness/c10cli.go.

The spec predicate is evaluated on the implementation's tokens only.
-/
namespace Hertz.Driver.C10
open Hertz Hertz.Driver Hertz.Pool

def parseReqs : List String → Option (List Req)
  | [] => some []
  | m :: f :: x :: d :: t => do
    let f ← f.toNat?; let x ← x.toNat?; let r ← parseReqs t
    pure ({ post := m == "p", fault := f, ctxm := x, dialFail := d == "1" } :: r)
  | _ => none

def nat? (s : String) : Option Nat := s.toNat?

/-- class of the one recorded defect of the tree (known_findings.json, F16) -/
def clsStale := "stale-waiter-queued"

def joinCls (l : List String) : String := "+".intercalate l

/-- spec on the per-request gauges of a sequential run: after every returned call the pool is at
rest: count = idle, no waiter, pending = 0; at the end open = idle, nothing bad was seen -/
def seqSpec (impl : List String) : Bool × List String × String :=
  let rec go (i : Nat) : List String → Bool × List String × String
    | "Q" :: op :: excl :: dirty :: acl :: wrong :: late :: twice :: _ =>
      let ok := excl == "0" && dirty == "0" && acl == "0" && wrong == "0" && late == "0" && twice == "0"
      (ok, if ok then [] else [""], op)
    | _cls :: count :: idle :: wq :: pend :: _d :: _c :: _s :: rest =>
      let r := go (i + 1) rest
      let okPool := count == idle && wq == "0"
      let okPend := pend == "0"
      (r.1 && okPool && okPend, (if !okPool || !okPend then [""] else []) ++ r.2.1, r.2.2)
    | _ => (false, [""], "")
  go 0 impl

def parseSteps : List String → Option (List CStep)
  | [] => some []
  | kind :: h :: m :: f :: x :: d :: t => do
    let h ← h.toNat?; let f ← f.toNat?; let x ← x.toNat?; let r ← parseSteps t
    let q : CReq := { post := m == "p" || m == "pc", close := m == "gc" || m == "pc", fault := f, ctxm := x, dialFail := d == "1" }
    let st ← match kind with
      | "R" => some (CStep.req h q)
      | "H" => some (CStep.hold h q)
      | "U" => some (CStep.unhold h)
      | "T" => some CStep.tick
      | "A" => some CStep.age
      | _ => none
    pure (st :: r)
  | _ => none

/-- width of one output row of `c10cli`: class token + 8 gauges per host -/
def cliRow : Nat := 1 + 8 * nHosts

/-- spec of a Client-level run, on the implementation's rows.  Every row: per host the open
connections never exceed the maximum, and a HostClient reports itself removable only when it counts
no connection.  Last row (all calls returned): every connection of the host is idle in the current
HostClient or closed, no waiter, pending = 0.  Tail: per-host maximum of simultaneously open
connections within the bound, no exclusive/dirty/after-close/wrong/late/resend. -/
def cliSpec (max : Nat) (impl : List String) : Bool :=
  let hostOk (last : Bool) (g : List String) : Bool :=
    match g with
    | [count, idle, wq, pend, sr, _nhc, _dials, op] =>
      decide ((op.toNat?.getD 999999) ≤ max) && (sr != "1" || count == "0") && (sr == "0" || sr == "1") &&
      (!last || (count == idle && idle == op && wq == "0" && pend == "0"))
    | _ => false
  let rec rows (fuel : Nat) (l : List String) : Bool :=
    match fuel, l with
    | 0, _ => false
    | _, "Q" :: rest =>
      (match rest.drop nHosts with
       | [excl, dirty, acl, wrong, late, twice] =>
         excl == "0" && dirty == "0" && acl == "0" && wrong == "0" && late == "0" && twice == "0"
       | _ => false) &&
      (rest.take nHosts).all (fun m => decide ((m.toNat?.getD 999999) ≤ max))
    | fuel + 1, cls :: rest =>
      let g := rest.take (8 * nHosts)
      g.length == 8 * nHosts &&
      (List.range nHosts).all (fun k => hostOk (cls == "end") ((g.drop (8 * k)).take 8)) &&
      rows fuel (rest.drop (8 * nHosts))
    | _, [] => false
  rows (impl.length + 1) impl

def stepTag : CStep → String
  | .req .. => "R" | .hold .. => "H" | .unhold _ => "U" | .tick => "T" | .age => "A"

def dedup (l : List String) : List String := l.foldl (fun acc x => if acc.contains x then acc else acc ++ [x]) []

/-! ### `c10url`: the convenience layer (`GetURLTimeout`), model `Model/ClientHelper.lean`

`c10url (s<i>S | s<i>L | d<i> | t<i> | r<i>)* | (T | G<v> | E:… | HANG)*` — per call what it returned.  At the end the op
releases every parked request and waits for every call, in index order. -/

def urlStep (tok : String) : Option (ClientHelper.Ev × Nat × Bool) :=
  let body := (tok.drop 1).toString
  let num := if body.endsWith "S" || body.endsWith "L" then (body.dropRight 1) else body
  match num.toNat? with
  | none => none
  | some i =>
    match tok.front with
    | 's' => some (.start i 0, i, body.endsWith "S")
    | 'd' => some (.send i, i, false)
    | 't' => some (.timeout i, i, false)
    | 'r' => some (.recv i, i, false)
    | _ => none

def urlHandle (toks impl : List String) : Option Result := do
  let steps ← toks.mapM urlStep
  let maxI := steps.foldl (fun m x => max m x.2.1) 0
  let s := ClientHelper.run false ClientHelper.init (steps.map (·.1))
  -- the end of the op: everything still parked is released, then every call is waited for in index order
  let calls := List.range (maxI + 1)
  let s := ClientHelper.run false s (calls.map .send)
  let s := calls.foldl (fun s i => ClientHelper.step false s (.recv i)) s
  let tokOf (i : Nat) : String := match s.phase i with
    | .got v => "G" ++ toString v
    | .timedOut => "T"
    | .waiting _ => "HANG"
    | .idle => "-"
  let out := calls.map tokOf
  -- the property, on the implementation's tokens alone: a call that returns a result returns the result of ITS request
  let own := (impl.zip calls).all (fun (t, i) => !t.startsWith "G" || t == "G" ++ toString i)
  let clean := impl.all (fun t => t == "T" || t.startsWith "G" || t == "-")
  let nT := (out.filter (· == "T")).length
  let late := steps.any (fun x => match x.1 with
    | .send i => steps.any (fun y => y.1 == .timeout i) | _ => false)
  pure { out, spec := own && clean,
         specNote := "a helper call that returns a result returns the result of its own request; no error, no hang",
         tag := "c10url:" ++ toString (min calls.length 5) ++ ":t" ++ toString (min nT 3) ++ (if late then ":late" else "") ++
                ":p" ++ toString (min s.pool.length 3) }

/-- `c10closeidle`: one forced schedule of `CloseIdleConnections` against a concurrent release (harness/c10idle.go).
The expectation is what the pool model's `reap a idle.length` + closes give for it (`Props/C10.lean:
close_idle_takes_every_idle_connection`, `close_idle_matches_source`):
both connections idle at the call are closed, the one released meanwhile is pooled and open, count = idle = 1, the next
call reuses it (3 dials in all).  A scenario, not a theorem. -/
def closeIdleExpected : List String := ["1", "1", "0", "1", "1", "ok", "3"]

def handle : Handler
  | ["c10closeidle"], impl =>
    some { out := closeIdleExpected, spec := impl == closeIdleExpected,
           specNote := "connections idle at the call are closed, a connection released meanwhile stays pooled and open, gauges agree, next call reuses it",
           tag := "c10closeidle" }
  | "c10url" :: toks, impl => urlHandle toks impl
  | "c10seq" :: max :: wait :: _n :: reqs, impl => do
    let max ← nat? max
    let reqs ← parseReqs reqs
    let cfg : Cfg := { maxConns := effMax max, wait := wait == "1" }
    let (sim, per) := simSeq cfg {} 0 reqs []
    let openM := sim.nextConn - sim.st.closed.length
    let out := per ++ ["Q", toString openM, "0", "0", "0", "0", "0", "0", "T"] ++ sim.trace.reverse
    let (ok, cl, op) := seqSpec impl
    -- at the end every connection is idle or closed
    let lastIdle := impl.getD (8 * (reqs.length - 1) + 2) "0"
    let ok2 := reqs.isEmpty || op == lastIdle
    let cls := dedup cl
    let clsStr := if !ok2 || cls.contains "" then "" else joinCls cls
    let seen := dedup ((List.range reqs.length).map (fun i => per.getD (8 * i) ""))
    pure { out, spec := ok && ok2 && sim.ok, specNote := "after every call: count=idle, no waiter, pending=0; at the end open=idle, no exclusive/dirty/late/wrong/resend",
           cls := clsStr,
           tag := s!"seq:m{max}w{wait}:" ++ ",".intercalate seen ++ (if (sim.trace.filter (·.startsWith "acq,")).length > reqs.length then ":retry" else "") }
  | "c10cli" :: max :: wait :: mcd :: ppol :: _n :: steps, impl => do
    let maxN ← nat? max
    let steps ← parseSteps steps
    let cfg : MCfg := { pool := { maxConns := effMax maxN, wait := wait == "1" }, mcd := (← nat? mcd), ppol := (← nat? ppol) }
    if impl == ["SPOILED"] then
      pure { out := impl, spec := true, specNote := "run discarded by the harness: real-time assumptions did not hold", tag := "cli:spoiled" }
    else
    let (cs, rows) := simScript cfg {} 0 steps []
    let cs := releaseAll cfg cs
    let tail := impl.drop (cliRow * (steps.length + 1) + 1)
    let out := rows ++ "end" :: gaugeRow cs ++ "Q" :: tail.take nHosts ++ ["0", "0", "0", "0", "0", "0"]
    let classes := dedup ((List.range steps.length).map (fun i => rows.getD (cliRow * i) ""))
    let nhcs := (List.range nHosts).map (fun k => toString (cs.hosts k).nhc)
    pure { out, spec := cliSpec cfg.pool.maxConns impl && cs.ok,
           specNote := "every row: open connections per host <= max, ShouldRemove only with no counted connection; at the end count=idle=open, no waiter, pending=0; no exclusive/dirty/late/wrong/resend",
           tag := s!"cli:m{max}w{wait}d{mcd}p{ppol}:" ++ String.join (dedup (steps.map stepTag)) ++ ":" ++ ",".intercalate classes
                  ++ ":hc" ++ "".intercalate nhcs }
  | "c10conc" :: max :: wait :: _nc :: _nr :: reap :: _seed :: _reqs, impl => conc max wait (reap != "0") impl
  | ["c10stale", _gap], impl => conc "1" "1" false impl
  | ["c10stale", _gap, _ctx], impl => conc "1" "1" false impl
  | _, _ => none
where
  conc (max wait : String) (reap : Bool) (impl : List String) : Option Result := do
    let max := effMax (← nat? max)
    let cfg : Cfg := { maxConns := max, wait := wait == "1" }
    let trace := impl.takeWhile (· != "F")
    let fin := (impl.dropWhile (· != "F")).drop 1
    let v := validate cfg trace
    match fin with
    | count :: idle :: wq :: pend :: op :: maxSeen :: excl :: dirty :: acl :: wrong :: late :: twice :: rest =>
      let s := v.st
      let dials := (trace.filter (fun t => t.startsWith "dial,")).length
      let mfin := [toString s.count, toString s.idle.length, toString s.queue.length, toString s.pending,
                   toString (dials - s.closed.length)]
      let out := match v.bad with
        | some b => trace.take v.n ++ [b]
        | none => trace ++ "F" :: mfin ++ maxSeen :: excl :: dirty :: acl :: wrong :: late :: twice :: rest
      -- spec, on the implementation's tokens
      let okPool := count == idle && idle == op
      let okWait := wq == "0"
      let okPend := pend == "0"
      let okMax := (maxSeen.toNat?.getD 999999) ≤ max && !v.tripleBad
      let okObs := excl == "0" && dirty == "0" && acl == "0" && wrong == "0" && late == "0" && twice == "0"
      -- known class: the queue holds only dead waiters (model view) while every call has returned
      let waitKnown := !okWait && v.bad.isNone && s.live.isEmpty
      let unknown := !okPool || !okMax || !okObs || !okPend || (!okWait && !waitKnown)
      let cls := if unknown then "" else joinCls (if waitKnown then [clsStale] else [])
      let quietOk := v.bad.isSome || decide (Quiet s)
      pure { out, spec := okPool && okWait && okPend && okMax && okObs && quietOk,
             specNote := "at quiescence: count=idle=open conns, no waiter queued, pending=0; count<=max throughout; no exclusive/dirty/late/wrong/resend",
             cls,
             tag := s!"conc:m{max}w{wait}r{boolTok reap}:" ++ String.join (v.feats.mergeSort (· ≤ ·)) }
    | _ => none

end Hertz.Driver.C10
