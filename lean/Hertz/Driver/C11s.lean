import Hertz.Driver.C11
import Hertz.Model.Http1.RespStream
import Hertz.Model.Multipart
import Hertz.Spec.Multipart
/-!
Driver for `c11str`: sequences of exchanges through the real client in STREAMING mode, with a caller that reads the
body stream in pieces / stops early / closes / never closes (`harness/c11s.go`).  The model (`RespStream.exchangeS`)
predicts every token; two values are taken from the implementation because the code's choice depends on buffering
and on the capacity of a pooled buffer, and are CHECKED for admissibility instead: the prefetched length when the
declared length exceeds the limit (`prefetchOk`), and whether a well-formed rest of a chunked message was drained
or the connection closed (`After.either`).
-/
namespace Hertz.Driver.C11s
open Hertz Hertz.Driver Hertz.H1 Hertz.H1.RespRead Hertz.H1.RespStream Hertz.Driver.C11

structure Step where
  head : Bool
  cc : Bool
  resp : Bytes
  close : Bool
  cs : Stream.Consume
  fin : Fin

def parseSteps : Nat → List String → Option (List Step)
  | 0, [] => some []
  | 0, _ => none
  | n + 1, m :: cc :: r :: cl :: rs :: sa :: mode :: t => do
    let rest ← parseSteps n t
    let fin ← match mode with
      | "c" => some Fin.close | "n" => some Fin.never | "r" => some Fin.reuse | _ => none
    pure ({ head := m == "H", cc := cc == "1", resp := ← hx r, close := cl == "1",
            cs := { readSize := rs.toNat!, stopAfter := sa.toNat! }, fin } :: rest)
  | _, _ => none

structure Impl where
  dials : Nat
  held : String
  /-- `err:…`, or the head dump up to (excluding) `S` -/
  res : List String
  /-- the seven tokens after `S` -/
  s : List String

def parseImpl : Nat → List String → Option (List Impl)
  | 0, [] => some []
  | 0, ["NODEADLINE", _] => some []
  | 0, _ => none
  | n + 1, "X" :: d :: held :: t =>
    match t with
    | "ok" :: _ =>
      let hd := t.takeWhile (· != "S")
      let r := (t.dropWhile (· != "S")).drop 1
      if r.length < 7 then none else do
        let rest ← parseImpl n (r.drop 7)
        pure ({ dials := d.toNat!, held, res := hd, s := r.take 7 } :: rest)
    | e :: t' => do
      let rest ← parseImpl n t'
      pure ({ dials := d.toNat!, held, res := [e], s := [] } :: rest)
    | [] => none
  | _, _ => none

def headTokens (hd : RespHead) (trailers : List (Bytes × Bytes)) : List String :=
  (respTokens { head := hd, body := [], trailers, rest := [] }).dropLast

def framingTag (maxBody : Nat) (r : SOut) : String :=
  if !r.stream then "nostream"
  else if r.fault then "overread"
  else if r.head.cl = -1 then "chunked"
  else if r.head.cl = -2 then "identity"
  else if r.head.cl.toNat ≤ maxEff maxBody then (if r.head.cl.toNat ≤ 8192 then "fixed" else "fixedPre8k") else "fixedOverLimit"

def readTag (r : SOut) (cs : Stream.Consume) : String :=
  if cs.stopAfter = 0 then "none" else if r.got.err then "err" else if r.got.eof then "eof" else "part"

structure Acc where
  st : Exchange.St := {}
  out : List String := []
  spec : Bool := true
  note : String := ""
  tags : List String := []
  cls : String := ""
  conforming : Bool := true
  /-- the exchange before left a stream open in mode `r`: the model's word on whether its connection was closed -/
  held : Option Bool := none

/-- spec for one exchange: a conforming response comes back as sent, through the stream -/
def specStep (e : End) (s : Step) (i : Impl) : Bool × String :=
  match specResponse e s.resp with
  | none => (true, "not-wellformed")
  | some (st, fs, body) =>
    if !comparable fs then (true, "not-comparable")
    else if i.res.headD "" != "ok" then (false, "conforming response refused: " ++ i.res.headD "")
    else match implView (i.res ++ ["-", "0"]), i.s with
      | some (st', fs', _), [_stream, _p, got, eof, err, _ce, _k] =>
        let body := if s.head then [] else body
        let want := body.take s.cs.stopAfter
        let gotB := (hx got).getD []
        let okBytes := gotB == want && err == "0"
        let okEof := (eof == "1" → gotB == body) && (body.length < s.cs.stopAfter → eof == "1")
        (st == st' && H1Spec.canonFields fs == H1Spec.canonFields fs' && okBytes && okEof,
         "status and fields as sent; the bytes read are the first stopAfter bytes of the body; EOF only at the end and always behind it")
      | _, _ => (false, "unreadable result")

def go (cfg : Exchange.Cfg) : List Step → List Impl → Acc → Option Acc
  | [], [], a => some a
  | s :: ss, i :: is, a => do
    let rq : Exchange.Req := { skipBody := s.head, retryable := true, connClose := s.cc }
    let sv : Exchange.Srv := { resp := s.resp, closeAfter := s.close }
    let implOk := i.res.headD "" == "ok"
    let p := if implOk then (i.s.getD 1 "0").toNat! else 0
    -- `either`: what the implementation did (this exchange's own flag, or - mode r - the flag reported with the next exchange)
    let drained := match s.fin with
      | .reuse => (match is with | j :: _ => j.held != "1" | [] => true)
      | _ => i.s.getD 6 "0" == "0"
    let (st', o) := exchangeS cfg a.st rq sv p s.cs s.fin drained
    let e := if s.close then End.eof else End.stall
    let heldTok := match a.held with | none => "-" | some b => boolTok b
    let (toks, tag, held') : List String × String × Option Bool := match o with
      | .err x => ([errTok x], errTok x, none)
      | .badPool => (["err:badpool"], "badpool", none)
      | .ok r =>
        -- the prefetched length must be one the code can produce; the model has no own value when it depends on buffering
        let gotToks := if r.fault then (i.s.drop 2).take 3 else [encHex r.got.bytes, boolTok r.got.eof, boolTok r.got.err]
        let stillOpen := r.stream && s.fin != .close
        let closed := if stillOpen then false else st'.idle.isNone
        -- after a failed read of a chunked body the model has no opinion on what `ReadTrailer` left in the trailer
        let hdToks := if r.got.err && r.head.cl == -1 then
            let pre := (headTokens r.head []).dropLast
            pre ++ i.res.drop pre.length
          else headTokens r.head r.trailers
        (hdToks ++ ["S", boolTok r.stream, toString (if r.stream then p else 0)] ++ gotToks ++ ["0", boolTok closed],
         framingTag cfg.maxBody r ++ ":" ++ readTag r s.cs ++ ":" ++ (match s.fin with | .close => "c" | .never => "n" | .reuse => "r") ++
           (if stillOpen && s.fin == .never then "H" else if st'.idle.isSome then "P" else "X"),
         if r.stream && s.fin == .reuse then some st'.idle.isNone else none)
    -- admissibility of the prefetched length (checked on the bytes this attempt read from)
    let pOk := match o with
      | .ok r =>
        if !r.stream then true else
        let c0 : Exchange.Conn := match a.st.idle with
          | some c => if st'.dials == a.st.dials then c else {}
          | none => {}
        let c1 := Exchange.serve c0 sv
        (match readHeaders cfg.disableNorm (Exchange.endOf c1) c1.pending with
         | .ok (hd, s1) => prefetchOk cfg.maxBody hd s1 p
         | .error _ => false)
      | _ => true
    let (sok, snote) :=
      if !a.conforming then (true, "the peer did not conform earlier in the sequence")
      else match o with
        | .badPool => (true, "pooled connection closed by the peer")
        | _ => specStep e s i
    -- overread region (`SOut.fault`): the caller gets bytes beyond the body or `Read` panics; both are the known finding
    let inFault := match o with | .ok r => r.fault | _ => false
    let faultPanic := inFault && (i.s.getD 2 "" == "50414e4943" || !sok)
    let spec' := a.spec && sok && pOk && !faultPanic
    let note' := if !a.note.isEmpty then a.note
      else if faultPanic then "the peer sent more than the declared Content-Length and the prefetch took it: bodyStream.Read panicked or handed out bytes beyond the body"
      else if !pOk then "prefetched length not admissible" else if !sok then snote else ""
    let cls' := if faultPanic then ""   -- class `stream-prefetch-overread` repaired in /repo (4e91084)
      else if !sok && hardInterim s.resp && a.cls.isEmpty then "" else a.cls
    let t := tag ++ (if a.st.idle.isSome && st'.dials == a.st.dials then "r" else "d")
    go cfg ss is { st := st', out := a.out ++ ["X", toString st'.dials, heldTok] ++ toks, spec := spec', note := note',
                   tags := if a.tags.contains t then a.tags else a.tags ++ [t], cls := cls',
                   conforming := a.conforming && cleanResp s.head e s.resp, held := held' }
  | _, _, _ => none

def strHandle (flags : String) (maxBody n : Nat) (rest impl : List String) : Option Result := do
  let steps ← parseSteps n rest
  let impls ← parseImpl n impl
  let cfg : Exchange.Cfg := { disableNorm := flags.contains 'n', maxBody }
  let a ← go cfg steps impls {}
  let tail := match impl.dropWhile (· != "NODEADLINE") with | [] => [] | l => l
  pure { out := a.out ++ tail, spec := a.spec, cls := a.cls,
         specNote := if a.note.isEmpty then "every conforming response comes back through the stream as sent, whatever the caller did with the streams before" else a.note,
         tag := "str:" ++ (if maxBody > 0 then "L" else "") ++ ":" ++ ",".intercalate (a.tags.take 2) }

/-! ### `mpwrite`: hertz's part of the multipart writer -/

def parseParts : Nat → List String → Option (List (Bool × Multipart.Part))
  | 0, [] => some []
  | 0, _ => none
  | n + 1, kind :: name :: file :: ct :: content :: t => do
    let rest ← parseParts n t
    pure ((kind == "F", { name := ← hx name, fileName := ← hx file, ctype := ← hx ct, content := ← hx content }) :: rest)
  | _, _ => none

/-- what the application attached, in the terms of the decoders: no `filename` parameter for a blank file name, no
`Content-Type` line for an empty type -/
def intended (p : Multipart.Part) : Spec.Multipart.Part :=
  -- CR / LF cannot stand in a quoted parameter value or a header line: the writer replaces them (`%0D` / `%0A` in names
  -- like `mime/multipart`, a blank in the content type); everything else comes back as attached (`/repo` 865e699)
  let pct (v : Bytes) : Bytes := v.flatMap (fun c => if c == 13 then [37, 48, 68] else if c == 10 then [37, 48, 65] else [c])
  { name := pct p.name, fileName := if Multipart.blank p.fileName then none else some (pct p.fileName),
    ctype := if p.ctype.isEmpty then none else some (Multipart.cleanCT p.ctype), content := p.content }

def goParts : Nat → List String → Option (List Spec.Multipart.Part)
  | 0, [] => some []
  | 0, _ => none
  | n + 1, name :: fn :: ct :: content :: t => do
    let rest ← goParts n t
    let opt (x : String) : Option (Option Bytes) := if x == "~" then some none else (hx x).map some
    pure ({ name := ← hx name, fileName := ← opt fn, ctype := ← opt ct, content := ← hx content } :: rest)
  | _, _ => none

/-- a value that `CreateMultipartHeader` would have to escape: `"`, `\`, CR, LF -/
def needsEscape (v : Bytes) : Bool := v.any (fun c => c == 34 || c == 92 || c == 13 || c == 10)

def containsSub (pat : Bytes) : Bytes → Bool
  | [] => pat.isEmpty
  | c :: t => pat.isPrefixOf (c :: t) || containsSub pat t

def mpHandle (boundary : String) (n : Nat) (rest impl : List String) : Option Result := do
  let b ← hx boundary
  let ps ← parseParts n rest
  let parts := ps.map (·.2)
  let model := Multipart.wire b parts
  match impl with
  | wire :: _ct :: "G" :: go =>
    let wireB ← hx wire
    let want := parts.map intended
    let lean := Spec.Multipart.decode b wireB
    let goDec := match go with
      | "ok" :: k :: t => goParts k.toNat! t
      | _ => none
    let hostile := parts.any (fun p => needsEscape p.name || needsEscape p.fileName || p.ctype.any (fun c => c == 13 || c == 10))
    -- the premise of the round trip: no content contains a delimiter of this body
    let clash := parts.any (fun p => containsSub ([13, 10, 45, 45] ++ b) p.content)
    let ok := lean == some want && goDec == some want
    pure { out := [encHex model, encHex (Multipart.formDataContentType b), "G"] ++ go,
           spec := clash || ok,
           cls := "",   -- the class `multipart-disposition-unescaped` was repaired in /repo (865e699): a return is a violation
           specNote := "the independent decoder and mime/multipart read back exactly the names, file names, types and contents attached",
           tag := "mpwrite:" ++ toString (min n 3) ++ (if hostile then "H" else "") ++ (if clash then "C" else "") ++
                  (if ps.any (·.1) then "F" else "") ++ sizeClass (parts.foldl (fun m p => max m p.content.length) 0) }
  | _ => pure { out := ["model-has-no-error"], tag := "mpwrite:err" }

def handle : Handler
  | "c11str" :: flags :: maxBody :: _frag :: n :: rest, impl => strHandle flags maxBody.toNat! n.toNat! rest impl
  | "mpwrite" :: boundary :: n :: rest, impl => mpHandle boundary n.toNat! rest impl
  | _, _ => none

end Hertz.Driver.C11s
