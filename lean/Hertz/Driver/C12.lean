import Hertz.Driver.Core
import Hertz.Model.Chain
/-!
Driver handler for C12.

ops
* `chain <script>…` — `app.NewContext; SetHandlers; Next` on handlers with the given scripts
  (script alphabet: `n` Next, `a` Abort, `s` AbortWithStatus(401), `t` AbortWithStatus(503), `p` probe
  of `GetIndex`, `-` the empty script).
* `eng <op>… Q:<method>:<group>:<num>:<nohost> <S:id:script>…` — registration calls on a fresh engine
  (`U:g:ids` Use, `G:p:ids` Group, `H:g:method:num:ids` Handle, `NR:ids` NoRoute, `NM:ids` NoMethod,
  `RU:ids` engine.RouterGroup.Use), then one request through `Engine.ServeHTTP`.

output: `E<id>:<pos>` `X<id>:<pos>:<index>` `A<id>` `S<id>:<code>` `P<id>:<index>` … then `ST<status>`,
or the trace so far and `PANIC`; `LOOP` if the run does not end; `REGPANIC:<k>` / `ERR:nogroup:<k>` if the
k-th registration call fails.
-/
namespace Hertz.Driver.C12
open Hertz Hertz.Driver Hertz.Chain

def parseScript (s : String) : Option Script :=
  if s == "-" then some [] else
  s.toList.mapM fun c =>
    if c == 'n' then some Act.next
    else if c == 'a' then some Act.abort
    else if c == 's' then some (Act.abortStatus 401)
    else if c == 't' then some (Act.abortStatus 503)
    else if c == 'p' then some Act.probe
    else none

def parseIds (s : String) : Option (List Nat) :=
  if s.isEmpty then some [] else (s.splitOn ",").mapM String.toNat?

def parseOp (tok : String) : Option Op :=
  match tok.splitOn ":" with
  | ["U", g, ids] => do pure (.use (← g.toNat?) (← parseIds ids))
  | ["G", p, ids] => do pure (.group (← p.toNat?) (← parseIds ids))
  | ["H", g, m, k, ids] => do pure (.handle (← g.toNat?) (← m.toNat?) (← k.toNat?) (← parseIds ids))
  | ["NR", ids] => do pure (.noRoute (← parseIds ids))
  | ["NM", ids] => do pure (.noMethod (← parseIds ids))
  | ["RU", ids] => do pure (.rawUse (← parseIds ids))
  | _ => none

def intTok (i : Int) : String := toString i

def renderEvent (ids : List Nat) (e : Event) : String :=
  let idOf (p : Nat) : String := toString (ids.getD p 0)
  match e with
  | .enter p => s!"E{idOf p}:{p}"
  | .exit p i => s!"X{idOf p}:{p}:{intTok i}"
  | .abort p => s!"A{idOf p}"
  | .abortStatus p c => s!"S{idOf p}:{c}"
  | .probe p i => s!"P{idOf p}:{intTok i}"

def renderRun (ids : List Nat) (dflt : Nat) (r : R) : List String :=
  match r.2 with
  | .ok _ => r.1.map (renderEvent ids) ++ [s!"ST{finalStatus dflt r.1}"]
  | .error .fuel => ["LOOP"]
  | .error _ => r.1.map (renderEvent ids) ++ ["PANIC"]

/-- impl tokens → events; `A`/`S`/`P` tokens carry no position, they are attributed to the innermost
open handler with that id (tracked here with a stack of (id, pos)). -/
def parseImpl : List (Nat × Nat) → List String → Option (List Event × List Nat)
  | _, [] => some ([], [])
  | st, tok :: t =>
    let k := (tok.take 1).toString
    let body := ((tok.drop 1).toString).splitOn ":"
    if k == "E" then
      match body with
      | [id, p] => do
        let id ← id.toNat?; let p ← p.toNat?
        let (es, ids) ← parseImpl ((id, p) :: st) t
        pure (.enter p :: es, id :: ids)
      | _ => none
    else if k == "X" then
      match body with
      | [_, p, i] => do
        let p ← p.toNat?; let i ← i.toInt?
        let (es, ids) ← parseImpl (st.drop 1) t
        pure (.exit p i :: es, ids)
      | _ => none
    else
      -- attribute to the open handler with this id; an id that is not open gets a position nobody has
      let posOf (id : Nat) : Nat := match st.find? (·.1 == id) with | some x => x.2 | none => 1000000
      if k == "A" then
        match body with
        | [id] => do
          let id ← id.toNat?
          let (es, ids) ← parseImpl st t
          pure (.abort (posOf id) :: es, ids)
        | _ => none
      else if k == "S" && !tok.startsWith "ST" then
        match body with
        | [id, c] => do
          let id ← id.toNat?; let c ← c.toNat?
          let (es, ids) ← parseImpl st t
          pure (.abortStatus (posOf id) c :: es, ids)
        | _ => none
      else if k == "P" && tok != "PANIC" then
        match body with
        | [id, i] => do
          let id ← id.toNat?; let i ← i.toInt?
          let (es, ids) ← parseImpl st t
          pure (.probe (posOf id) i :: es, ids)
        | _ => none
      else none

structure Verdict where
  ok : Bool
  note : String
  cls : String

/-- The property evaluated on what the implementation printed for a chain of `n` handlers whose
expected (literal-reading) order of ids is `want` when `passThrough` (no script aborts). -/
def judge (n : Nat) (impl : List String) (longCls : Bool) : Verdict :=
  match impl.getLast? with
  | some "PANIC" => ⟨false, "the chain panicked", ""⟩
  | some "LOOP" => ⟨false, "the chain does not terminate", if longCls then "long-chain" else ""⟩
  | some last =>
    if last.startsWith "ST" then
      match parseImpl [] impl.dropLast with
      | some (es, _) =>
        if onionOK n es then ⟨true, "", ""⟩
        else ⟨false, "trace is not onion-ordered", if longCls then "long-chain" else ""⟩
      | none => ⟨false, "unreadable trace", ""⟩
    else ⟨false, "no status token", ""⟩
  | none => ⟨false, "empty output", ""⟩

def scriptClass (sc : Script) : String :=
  String.ofList (sc.map fun a => match a with
    | .next => 'n' | .abort => 'a' | .abortStatus _ => 's' | .probe => 'p')

def lenClass (n : Nat) : String :=
  if n ≤ 7 then toString n else if n ≤ 30 then "m" else if n ≤ 63 then "l" else "x"

def outcomeTag (r : R) : String :=
  match r.2 with
  | .ok i => if i == 127 then "sat" else if i ≥ abortIndex then (if r.1.any isAbort then "ab" else "hi") else "ok"
  | .error .fuel => "loop"
  | .error _ => "panic"

def lookupScript (scripts : List (Nat × Script)) (id : Nat) : Script :=
  match scripts.find? (·.1 == id) with
  | some x => x.2
  | none => []

def parseScriptTok (tok : String) : Option (Nat × Script) :=
  match tok.splitOn ":" with
  | ["S", id, sc] => do pure (← id.toNat?, ← parseScript sc)
  | _ => none

def kindTag (st : Nat) : String :=
  if st == 200 then "hit" else if st == 404 then "404" else if st == 405 then "405" else "400"

def faultTok (pos : Nat) : Fault → String
  | .noGroup => s!"ERR:nogroup:{pos}"
  | _ => s!"REGPANIC:{pos}"

def handle : Handler
  | "chain" :: scs, impl => do
    let hs ← scs.mapM parseScript
    let r := run hs
    let ids := List.range hs.length
    let v := judge hs.length impl (decide (hs.length > 63))
    let shape := if hs.length ≤ 2 && hs.all (fun s => s.length ≤ 2) then String.intercalate "." (hs.map scriptClass) else
      (if hs.any (·.contains .abort) then "a" else "") ++ (if hs.any (fun s => nexts s ≥ 2) then "nn" else "")
      ++ (if hs.any (·.contains .probe) then "p" else "")
    pure { out := renderRun ids 200 r, spec := v.ok, specNote := v.note, cls := v.cls,
           tag := s!"chain:{lenClass hs.length}:{outcomeTag r}:{shape}" }
  | "eng" :: rest, impl => do
    let opToks := rest.takeWhile (fun t => !t.startsWith "Q:")
    let after := rest.dropWhile (fun t => !t.startsWith "Q:")
    let q ← after.head?
    let scripts ← (after.drop 1).mapM parseScriptTok
    let ops ← opToks.mapM parseOp
    let (method, g, k, noHost) ← match q.splitOn ":" with
      | ["Q", m, g, k, h] => do pure (← m.toNat?, ← g.toNat?, ← k.toNat?, h == "1")
      | _ => none
    match Engine.new.applyAll 0 ops with
    | .error (pos, f) =>
      -- a refused registration: nothing of the property to judge
      pure { out := [faultTok pos f], tag := s!"eng:reg:{faultTok 0 f}" }
    | .ok e =>
      let (chain, st) := e.select method g k noHost
      let hs := chain.map (lookupScript scripts)
      let r := run hs
      let v := judge hs.length impl false
      -- group order, literal reading: with scripts that never abort, the ids entered are exactly
      -- everything attached so far to each group on the path (outermost first), then the route's own
      let regAt := ops.findIdx? fun op => match op with
        | .handle g' m' k' _ => g' == g && m' == method && k' == k
        | _ => false
      let before := ops.take (regAt.getD ops.length)
      let ls := shadowOf before
      let passThrough := hs.all (fun sc => !sc.any (fun a => a != .next && a != .probe))
      let uac := !noUseAfterChild shadowInit before
      let regHs := ops.findSome? fun op => match op with
        | .handle g' m' k' hs' => if g' == g && m' == method && k' == k then some hs' else none
        | _ => none
      let implIds := match parseImpl [] impl.dropLast with
        | some (_, ids) => ids
        | none => []
      let engineMws := ops.flatMap fun op => match op with
        | .use 0 m => m
        | _ => []
      let noRouteNow := (ops.reverse.findSome? fun op => match op with | .noRoute h => some h | _ => none).getD []
      let noMethodNow := (ops.reverse.findSome? fun op => match op with | .noMethod h => some h | _ => none).getD []
      let (orderOk, orderNote, orderCls) :=
        if !passThrough then (true, "", "") else
        match st, regHs with
        | 200, some own =>
          let want := literalMws ls g ++ own
          let snap := snapshotMws ls g ++ own
          if implIds == want then (true, "", "")
          else (false, "route chain differs from (everything attached to each group on the path) ++ own",
                if uac && implIds == snap then "use-after-group" else "")
        | 200, none => (false, "matched a route that was never registered", "")
        | 404, _ => (engineMws.isSublist implIds && noRouteNow.isSuffixOf implIds,
                     "404 chain is not (engine middleware …) ++ NoRoute handlers", "")
        | 405, _ => (engineMws.isSublist implIds && noMethodNow.isSuffixOf implIds,
                     "405 chain is not (engine middleware …) ++ NoMethod handlers", "")
        | _, _ => (engineMws.isSublist implIds, "400 chain does not contain the engine middleware in order", "")
      let spec := v.ok && orderOk
      let depth := match ls[g]? with | some l => l.length | none => 0
      pure { out := renderRun chain st r, spec := spec,
             specNote := if !v.ok then v.note else orderNote,
             cls := if !v.ok then v.cls else orderCls,
             tag := s!"eng:{kindTag st}:d{depth}:{lenClass hs.length}:{outcomeTag r}:{boolTok uac}{boolTok passThrough}" }
  | _, _ => none

end Hertz.Driver.C12
