import Hertz.Driver.Core
import Hertz.Model.Tagexpr
import Hertz.Model.TagexprShared
import Hertz.Spec.Tagexpr
/-!
Correspondence + spec handler for C20 (validation expressions).

  shape <expr-hex>                                     | <shape> / ERR / PANIC:<kind> / HANG
  vd <expr-hex> <want> <wf> <cur> <k> (<name> <val>){k} | ok / rej / ERR / PANIC:<kind> / HANG
  vdm <mode> <param> <vsel> <expr-hex> <wf> <cur> <k> (<name> <gotype>){k} <m> (<want> <val>{k}){m}
                                                       | one of ok / rej / ERR / PANIC:<kind> / MIX:… per row, or HANG

`out` is what the Lean model of the engine answers.  `spec` is evaluated on the implementation's
answer: for `shape`, the tree the implementation built must satisfy the precedence conditions at
every operator node (the decidable local form of `Tree.IsPrecTree`) and must have the token sequence
of the input; for `vd`, the verdict must be the one the independent evaluator of the harness
derived from the documented semantics (`want`), and a well-formed expression must neither fail to
compile nor panic.  `vdm` validates m values (rows) of ONE struct type through ONE validator - in
sequence, interleaved at scheduling points, or from m goroutines at once (harness/c20m.go); the
model compiles the expression once and evaluates it for every row (`validateShared`); the spec asks
of every row what `vd` asks, and that all observations of the row agree (no `MIX:`): whether a
value is accepted depends on the expression and on that value only, never on what else the
validator has validated before or is validating at the same time.
-/
namespace Hertz.Driver.C20
open Hertz Hertz.Driver Hertz.Tagexpr

def bytesToChars (b : Bytes) : Option (List Char) :=
  if b.all (· < 128) then some (b.map (fun c => Char.ofNat c.toNat)) else none

def parseInt (s : String) : Option Int :=
  match s.toList with
  | '-' :: r => (String.ofList r).toNat?.map (fun n => -(n : Int))
  | _ => s.toNat?.map (fun n => (n : Int))

def parseDec (s : String) : Option Float :=
  match parseFloat s with
  | some (some f) => some f
  | _ => none

def parseVal (tok : String) : Option Val :=
  if tok == "n" then some .nil
  else
    match tok.splitOn ":" with
    | ["i", v] => (parseInt v).map (fun i => .num (intToFloat i))
    | ["f", v] => (parseDec v).map .num
    | ["s", v] => (hx v >>= bytesToChars).map (fun cs => .str (String.ofList cs))
    | ["b", v] => some (.bool (v == "1"))
    | ["li", v] => if v == "~" then some (.ints []) else (v.splitOn ",").mapM parseInt |>.map .ints
    | ["ls", v] => if v == "~" then some (.strs []) else
        (v.splitOn ",").mapM (fun h => (hx h >>= bytesToChars).map String.ofList) |>.map .strs
    | _ => none

def parseFields : List String → Option (List (String × Val))
  | [] => some []
  | n :: v :: t => do
    let v ← parseVal v
    let r ← parseFields t
    pure ((n, v) :: r)
  | _ => none

/-- the tag-level reader in front of `parseExpr` (`parseTag`/`readOneExpr`) on expressions without
`;` and `:`: an unbalanced `'` (escaped ones not counted) is an error; an empty tag, `-` and `?`
carry no expression. -/
def quoteCount : List Char → Nat
  | [] => 0
  | '\\' :: '\'' :: t => quoteCount t
  | '\'' :: t => quoteCount t + 1
  | _ :: t => quoteCount t

inductive TagKind | noExpr | badQuote | expr

def tagKind (cs : List Char) : TagKind :=
  if cs == ['-'] || cs == ['?'] then .noExpr
  else if (trimLeft cs).isEmpty then .noExpr
  else if quoteCount cs % 2 != 0 then .badQuote
  else .expr

/-! shape strings of the implementation, checked against the precedence conditions -/

def opOfSym (s : List Char) : Option (Op × List Char) :=
  match s with
  | '|' :: '|' :: t => some (.or, t)
  | '&' :: '&' :: t => some (.and, t)
  | '=' :: '=' :: t => some (.eq, t)
  | '!' :: '=' :: t => some (.ne, t)
  | '>' :: '=' :: t => some (.ge, t)
  | '<' :: '=' :: t => some (.le, t)
  | '>' :: t => some (.gt, t)
  | '<' :: t => some (.lt, t)
  | '+' :: t => some (.add, t)
  | '-' :: t => some (.sub, t)
  | '*' :: t => some (.mul, t)
  | '/' :: t => some (.div, t)
  | '%' :: t => some (.rem, t)
  | _ => none

/-- parses a shape string; returns (priority of the root, all operator nodes satisfy the local
precedence conditions, rest) -/
def checkShape : Nat → List Char → Option (Nat × Bool × List Char)
  | 0, _ => none
  | n + 1, s =>
    match s with
    | '(' :: t => do
      let (pl, okl, t1) ← checkShape n t
      let (op, t2) ← opOfSym t1
      let (pr, okr, t3) ← checkShape n t2
      match t3 with
      | ')' :: t4 => some (op.prio, okl && okr && decide (op.prio ≤ pl) && decide (op.prio < pr), t4)
      | _ => none
    | 'G' :: '[' :: t | 'R' :: '[' :: t => do
      let (_, ok, t1) ← checkShape n t
      match t1 with
      | ']' :: t2 => some (operandPrio, ok, t2)
      | _ => none
    | 'F' :: '[' :: t => checkArgs n t true
    | c :: t => if "~nsbz$vkU".toList.contains c then some (operandPrio, true, t) else none
    | [] => none
where
  checkArgs : Nat → List Char → Bool → Option (Nat × Bool × List Char)
    | 0, _, _ => none
    | n + 1, s, acc => do
      let (_, ok, t1) ← checkShape n s
      match t1 with
      | ';' :: t2 => checkArgs n t2 (acc && ok)
      | ']' :: t2 => some (operandPrio, acc && ok, t2)
      | _ => none

def shapePrecOK (s : String) : Bool :=
  match checkShape (2 * s.length + 4) s.toList with
  | some (_, ok, []) => ok
  | _ => false

def dropParens (s : String) : String := String.ofList (s.toList.filter (fun c => c != '(' && c != ')'))

/-- the unsorted chain (token order of the input), rendered -/
def chainShape (cs : List Char) : Option String :=
  match parseExprNode (4 * cs.length + 8) cs none with
  | .ok (t, _) => some ("G[" ++ shapeOf t ++ "]")
  | .error _ => none

/-- the kind of Go run-time panic behind a model fault site: the model has only the method call on
a nil ExprNode (`nil.Run`, `leftOperandToParent`) -/
def panicTok (_site : String) : String := "PANIC:nilderef"

def verdictTok : Verdict → Option String
  | .accept => some "ok"
  | .reject => some "rej"
  | .compileError => some "ERR"
  | .panic site => some (panicTok site)
  | .unsupported _ => none

def rootKind (cs : List Char) : String :=
  match parseExpr cs with
  | .ok (.node op _ _) => op.sym
  | .ok (.leaf o) => (o.shape.take 1).toString
  | .ok .nil => "~"
  | .error _ => "E"

def opCount (cs : List Char) : Nat :=
  match parseExpr cs with
  | .ok t => t.size
  | .error _ => 0

def everyOther : List String → List String
  | a :: _ :: t => a :: everyOther t
  | _ => []

/-- rows of `vdm`: `<want> <val>{k}` each -/
def splitRows : Nat → Nat → List String → Option (List (String × List String))
  | _, _, [] => some []
  | 0, _, _ => none
  | fuel + 1, k, want :: t =>
    if t.length < k then none else (splitRows fuel k (t.drop k)).map (fun r => (want, t.take k) :: r)

structure VdmRow where
  want : String
  mv : Verdict × Option Val
  i : String

def parseVals (l : List String) : Option (List Val) := l.mapM parseVal

def handle : Handler
  | ["shape", e], impl => do
    let cs ← hx e >>= bytesToChars
    let i ← impl.head?
    let isShape := i != "ERR" && !i.startsWith "PANIC"
    if i == "HANG" then
      return { out := ["-"], spec := false, specNote := "compiling the expression does not terminate", tag := "shape:HANG" }
    match parseExpr cs with
    | .ok t =>
      let m := "G[" ++ shapeOf t ++ "]"
      let tokensOK := (chainShape cs).map dropParens == some (dropParens i)
      pure { out := [m], spec := !isShape || (shapePrecOK i && tokensOK),
             specNote := "implementation's tree is a precedence tree over the input's tokens",
             tag := "shape:ok:" ++ sizeClass t.size ++ ":" ++ (match t with | .node op _ _ => op.sym | _ => "leaf") }
    | .error .syntax => pure { out := ["ERR"], tag := "shape:ERR" }
    | .error (.fault (.panic site)) => pure { out := [panicTok site], tag := "shape:PANIC" }
    | .error (.unsupported w) =>
      pure { out := impl, spec := !isShape || shapePrecOK i, specNote := "implementation's tree is a precedence tree",
             tag := "shape:unsupported:" ++ w }
    | .error .fuel => pure { out := ["FUEL"], tag := "shape:fuel" }
  | "vd" :: e :: want :: wf :: cur :: _k :: fields, impl => do
    let cs ← hx e >>= bytesToChars
    let fs ← parseFields fields
    let i ← impl.head?
    let env : Env := { cur, fields := fs }
    let (v, val) : Verdict × Option Val :=
      match tagKind cs with
      | .noExpr => (.accept, none)
      | .badQuote => (.compileError, none)
      | .expr => validate (trimLeft cs.reverse).reverse env   -- `readOneExpr` trims the tag on both sides
    let wfb := wf == "1"
    let specOK := i != "HANG" && (want != "T" || i == "ok") && (want != "F" || i == "rej") && (!wfb || (!i.startsWith "PANIC" && i != "ERR"))
    let cls :=
      if i.startsWith "PANIC" then ""     -- no panic is a known finding any more
      else match v, val with
        | .accept, some .nil => if want == "F" && i == "ok" then "nil-result-accepted" else ""
        | _, _ => ""
    let note := "want=" ++ want ++ " wf=" ++ wf ++ " : verdict must match the documented semantics; no panic / compile error on a well-formed expression"
    match verdictTok v with
    | some tok =>
      pure { out := [tok], spec := specOK, specNote := note, cls,
             tag := "vd:" ++ tok ++ ":" ++ want ++ wf ++ ":" ++ rootKind cs ++ ":" ++ sizeClass (opCount cs) }
    | none =>
      pure { out := impl, spec := specOK, specNote := note, cls,
             tag := "vd:unsupported:" ++ (match v with | .unsupported w => w | _ => "") }
  | "vdm" :: mode :: _param :: _vsel :: e :: wf :: cur :: k :: rest, impl => do
    let cs ← hx e >>= bytesToChars
    let k ← k.toNat?
    let names := everyOther (rest.take (2 * k))
    guard (names.length == k)
    let (m, rowToks) ← match rest.drop (2 * k) with
      | m :: t => m.toNat?.map (fun m => (m, t))
      | [] => none
    let rows ← splitRows rowToks.length k rowToks
    guard (rows.length == m)
    let envs ← rows.mapM (fun r => (parseVals r.2).map (fun vs => ({ cur, fields := names.zip vs } : Env)))
    let model : List (Verdict × Option Val) :=
      match tagKind cs with
      | .noExpr => envs.map (fun _ => (.accept, none))
      | .badQuote => envs.map (fun _ => (.compileError, none))
      | .expr => validateShared (trimLeft cs.reverse).reverse envs
    let wfb := wf == "1"
    let hang := impl == ["HANG"] || impl.length != m
    let implToks := if hang then rows.map (fun _ => "HANG") else impl
    let per : List VdmRow := ((rows.zip model).zip implToks).map (fun x => { want := x.1.1.1, mv := x.1.2, i := x.2 })
    let rowOK : VdmRow → Bool := fun r =>
      r.i != "HANG" && !r.i.startsWith "MIX" && (r.want != "T" || r.i == "ok") && (r.want != "F" || r.i == "rej") &&
        (!wfb || (!r.i.startsWith "PANIC" && r.i != "ERR"))
    let rowKnown : VdmRow → Bool := fun r =>
      match r.mv with
      | (.accept, some .nil) => r.want == "F" && r.i == "ok"
      | _ => false
    let bad := per.filter (fun x => !rowOK x)
    let cls := if !bad.isEmpty && bad.all rowKnown then "nil-result-accepted" else ""
    let outToks := per.map (fun r => match verdictTok r.mv.1 with | some t => t | none => r.i)
    let oks := model.filter (fun mv => match mv.1 with | .accept => true | _ => false) |>.length
    let rejs := model.filter (fun mv => match mv.1 with | .reject => true | _ => false) |>.length
    let mixc := if oks == m then "allok" else if rejs == m then "allrej" else if oks + rejs == m then "okrej" else "other"
    let hasF : Bool := match parseExpr cs with
      | .ok t => decide (((shapeOf t).splitOn "F[").length > 1)
      | .error _ => false
    pure { out := outToks, spec := bad.isEmpty,
           specNote := "wf=" ++ wf ++ " : every row's verdict must match the documented semantics for that row's value, the same in " ++
             "every observation (no MIX), whatever else the validator validates before or meanwhile; no panic / compile error on a well-formed expression",
           cls, tag := "vdm:" ++ mode ++ ":" ++ (if hasF then "F" else "-") ++ ":" ++ mixc ++ ":" ++ sizeClass m ++ ":" ++ rootKind cs }
  | _, _ => none

end Hertz.Driver.C20
