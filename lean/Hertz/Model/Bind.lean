import Hertz.Model.Http1.Scan
import Hertz.Gen.BindTags
/-!
Model of request binding (property C15), mirroring function by function

* `decoder/tag.go`            `head`, `lookupFieldTags`, `getDefaultFieldTags`
* `decoder/getter.go`         `path`, `postForm`, `query`, `cookie`, `header`
* `decoder/slice_getter.go`   `pathSlice`, `postFormSlice`, `querySlice`, `cookieSlice`, `headerSlice`
* `decoder/sonic_required.go` `checkRequireJSON`, `keyExist`
* `decoder/text_decoder.go`   `SelectTextDecoder`, the `UnmarshalString` methods (strconv rules)
* `decoder/util.go`           `toDefaultValue`, `stringToValue`
* `decoder/base_type_decoder.go`  `baseTypeFieldTextDecoder.Decode`
* `decoder/slice_type_decoder.go` `sliceTypeFieldTextDecoder.Decode`
* `decoder/decoder.go`        `GetReqDecoder` (one field decoder per field, run in order, first error wins)
* `binding/default.go`        `preBindBody`, `bindTag` with its per-type decoder cache

for struct types whose fields have the kinds bool, intN, uintN, floatN, string, pointers to and
slices of those, tagged with any of the six source tags and `default`.

What is external (parameters of the model, see `assumptions` in bin/props.py): the JSON parser
(the body arrives as a list of members), `strconv.ParseFloat` (three-valued: canonical text /
certainly invalid / no opinion), multipart parsing, the request containers (`Args`, header list,
cookie list are lists of pairs; header keys are normalised as `RequestHeader.Add` does).
The source priority is not written down here: it is read from the regenerated
`Gen.Bind.lookupFieldTagsOrder`.
-/
namespace Hertz.Bind
open Hertz

/-! ## Type descriptions -/

inductive Src | path | form | query | cookie | header | json
  deriving DecidableEq, Repr

def Src.name : Src → String
  | .path => "path" | .form => "form" | .query => "query"
  | .cookie => "cookie" | .header => "header" | .json => "json"

def Src.ofName (s : String) : Option Src :=
  if s = "path" then some .path else if s = "form" then some .form
  else if s = "query" then some .query else if s = "cookie" then some .cookie
  else if s = "header" then some .header else if s = "json" then some .json else none

/-- The order in which `lookupFieldTags` collects the tags of a field = the source priority.
Taken from the Go source on every run (`raw_body` and `file_name` are outside this model). -/
def lookupOrder : List Src := Gen.Bind.lookupFieldTagsOrder.filterMap Src.ofName

/-- The order of `getDefaultFieldTags` (field without any source tag). -/
def defaultOrder : List Src := Gen.Bind.defaultFieldTagsOrder.filterMap Src.ofName

/-- Base kinds; `bits = 0` is Go's `int` / `uint` (`bitSize` 0 = platform size, 64 here). -/
inductive Base | bool | int (bits : Nat) | uint (bits : Nat) | float (bits : Nat) | str
  deriving DecidableEq, Repr

/-- `reflect.Kind` name of a base kind -/
def Base.kindName : Base → String
  | .bool => "Bool" | .str => "String"
  | .int 0 => "Int" | .int n => "Int" ++ toString n
  | .uint 0 => "Uint" | .uint n => "Uint" ++ toString n
  | .float n => "Float" ++ toString n

/-- decoder type and `bitSize` chosen by `SelectTextDecoder` -/
def Base.decoder : Base → String × Nat
  | .bool => ("boolDecoder", 0) | .str => ("stringDecoder", 0)
  | .int n => ("intDecoder", n) | .uint n => ("uintDecoder", n) | .float n => ("floatDecoder", n)

/-- strconv: `bitSize == 0` means `strconv.IntSize` (64-bit platform assumed) -/
def effBits (bits : Nat) : Nat := if bits = 0 then 64 else bits

/-- `ptr` stars in front, then (if `slice`) `[]`, then `elemPtr` stars, then the base kind:
`**[]*int8` is `{base := .int 8, ptr := 2, slice := true, elemPtr := 1}`. -/
structure Ty where
  base : Base
  ptr : Nat := 0
  slice : Bool := false
  elemPtr : Nat := 0
  deriving DecidableEq, Repr

/-- One struct field: Go name, type, the source tags present in its struct tag (raw contents,
e.g. `a,required`), and the `default:"…"` tag if present. -/
structure Field where
  name : Bytes
  ty : Ty
  tags : List (Src × Bytes) := []
  dflt : Option Bytes := none
  deriving DecidableEq, Repr

/-! ## Requests -/

abbrev KV := Bytes × Bytes

inductive JAtom
  | null | bool (b : Bool) | int (i : Int) | num (text : Bytes) | str (s : Bytes) | obj
  deriving DecidableEq, Repr

inductive JVal | atom (a : JAtom) | arr (l : List JAtom)
  deriving DecidableEq, Repr

/-- `none`: empty body (`ContentLength() <= 0`); `notJson`: a non-empty body that is not a JSON
object (form data, multipart, garbage, truncated JSON); `json`: a JSON object, members in wire order. -/
inductive Body | none | notJson | json (members : List (Bytes × JVal))
  deriving DecidableEq, Repr

structure Req where
  params : List KV := []
  form : List KV := []      -- PostArgs
  mform : List KV := []     -- multipart form values, in wire order
  query : List KV := []
  cookies : List KV := []
  headers : List KV := []   -- as passed to RequestHeader.Add (keys not yet normalised)
  ct : Bytes := []          -- Content-Type value
  body : Body := .none
  deriving DecidableEq, Repr

def asciiLower (c : UInt8) : UInt8 := if 65 ≤ c ∧ c ≤ 90 then c + 32 else c

/-- `utils.FilterContentType`: cut at the first space or semicolon -/
def filterCT : Bytes → Bytes
  | [] => []
  | c :: t => if c = 32 ∨ c = 59 then [] else c :: filterCT t

/-- `consts.MIMEApplicationJSON` = "application/json" -/
def mimeJSON : Bytes := [97, 112, 112, 108, 105, 99, 97, 116, 105, 111, 110, 47, 106, 115, 111, 110]

/-- `strings.ToLower(FilterContentType(ct)) == MIMEApplicationJSON` (preBindBody),
equivalently `strings.EqualFold` (checkRequireJSON and, since the fix ee1271c, keyExist);
ASCII content types assumed -/
def ctFold (r : Req) : Bool := (filterCT r.ct).map asciiLower == mimeJSON

def hasBody (r : Req) : Bool := r.body != .none

def bodyMembers (r : Req) : List (Bytes × JVal) :=
  match r.body with
  | .json m => m
  | _ => []

/-- `sonic.Get(req.Body(), name).Exists()` for a top-level name without dots -/
def bodyHasKey (r : Req) (k : Bytes) : Bool := (bodyMembers r).any (fun m => m.1 == k)

/-! ## tag.go -/

structure TagInfo where
  key : Src
  value : Bytes
  jsonName : Bytes
  required : Bool := false
  skip : Bool := false
  dflt : Bytes := []
  deriving DecidableEq, Repr

/-- `head(str, ",")` -/
def headComma : Bytes → Bytes × Bytes
  | [] => ([], [])
  | c :: t => if c = 44 then ([], t) else ((c :: (headComma t).1), (headComma t).2)

/-- "required" -/
def requiredOpt : Bytes := [114, 101, 113, 117, 105, 114, 101, 100]

/-- the `for len(opts) > 0 { opt, opts = head(opts, ","); … opt == requiredTagOpt }` loop;
`cur` is the option being read, reversed -/
def optsRequired (cur : Bytes) : Bytes → Bool
  | [] => cur.reverse == requiredOpt
  | c :: t => if c = 44 then (cur.reverse == requiredOpt || optsRequired [] t) else optsRequired (c :: cur) t

def dash : Bytes := [45]

/-- body of the `for _, tag := range ret` loop of `lookupFieldTags` for one tag (top-level field:
`parentJSONName` is empty) -/
def mkTagInfo (f : Field) (s : Src) (content : Bytes) : TagInfo :=
  let hv := headComma content
  let tv := if hv.1 = [] then f.name else hv.1
  let skip := tv == dash
  { key := s, value := tv,
    jsonName := if s = .json ∧ ¬ skip then tv else f.name,
    required := optsRequired [] hv.2, skip := skip, dflt := f.dflt.getD [] }

def lookupFieldTags (f : Field) : List TagInfo :=
  lookupOrder.filterMap (fun s => (f.tags.lookup s).map (mkTagInfo f s))

def getDefaultFieldTags (f : Field) : List TagInfo :=
  defaultOrder.map (fun s => { key := s, value := f.name, jsonName := f.name, dflt := f.dflt.getD [] })

/-- `getFieldDecoder`: `lookupFieldTags`, and `getDefaultFieldTags` when that is empty
(`DisableDefaultTag` is off) -/
def fieldTagInfos (f : Field) : List TagInfo :=
  let l := lookupFieldTags f
  if l.isEmpty then getDefaultFieldTags f else l

/-! ## getter.go / slice_getter.go -/

/-- `Args.PeekExists`, `Params.Get`, `peekArgStr`: first entry with that key -/
def peek (l : List KV) (k : Bytes) : Option Bytes := (l.find? (fun e => e.1 == k)).map (·.2)

def peekAll (l : List KV) (k : Bytes) : List Bytes := (l.filter (fun e => e.1 == k)).map (·.2)

/-- header list as stored by `RequestHeader.Add`: keys normalised -/
def normHeaders (r : Req) : List KV := r.headers.map (fun e => (H1.normalizeKey false e.1, e.2))

/-- the five getters; result `(ret, exist)` -/
def getter (r : Req) : Src → Bytes → Bytes × Bool
  | .path, k => match peek r.params k with
    | some v => (v, true)
    | none => ([], false)
  | .form, k => match peek r.form k with
    | some v => (v, true)
    | none =>
      -- multipart: `ret = v[0]`, only used when non-empty
      let ret := (peek r.mform k).getD []
      if ret ≠ [] then (ret, true)
      else match peek r.query k with
        | some v => (v, true)
        | none => ([], false)
  | .query, k => match peek r.query k with
    | some v => (v, true)
    | none => ([], false)
  | .cookie, k => match peek r.cookies k with
    | some v => (v, true)
    | none => ([], false)
  | .header, k => match peek (normHeaders r) (H1.normalizeKey false k) with   -- RequestHeader.Peek
    | some v => (v, true)
    | none => ([], false)
  | .json, _ => ([], false)   -- no getter is installed for json; never called

def sliceGetter (r : Req) : Src → Bytes → List Bytes
  | .path, k => match peek r.params k with
    | some v => if v ≠ [] then [v] else []
    | none => []
  | .form, k =>
    let a := peekAll r.form k
    if a ≠ [] then a else peekAll r.mform k     -- no fall-back to the query here
  | .query, k => peekAll r.query k
  | .cookie, k => peekAll r.cookies k
  | .header, k => ((normHeaders r).filter (fun e => H1.ciEq e.1 k)).map (·.2)   -- VisitAll + strings.EqualFold (fix c70acfd)
  | .json, _ => []

/-! ## sonic_required.go -/

/-- `checkRequireJSON` (names without dots) -/
def checkRequireJSON (r : Req) (ti : TagInfo) : Bool :=
  if !ti.required then true
  else if !ctFold r then false
  else bodyHasKey r ti.jsonName

/-- `keyExist` (content type compared with `strings.EqualFold`) -/
def keyExist (r : Req) (ti : TagInfo) : Bool :=
  if !ctFold r then false else bodyHasKey r ti.jsonName

/-! ## text_decoder.go: strconv rules -/

/-- three-valued results: `unk` = the model has no opinion (only produced by the float classifier
and the JSON-text classifier) -/
inductive Conv (α : Type) | ok (a : α) | err | unk
  deriving DecidableEq, Repr

inductive Scalar | b (v : Bool) | i (v : Int) | u (v : Nat) | f (text : Bytes) | s (v : Bytes)
  deriving DecidableEq, Repr

/-- `strconv.ParseBool` -/
def parseBool (s : Bytes) : Option Bool :=
  if s = [49] ∨ s = [116] ∨ s = [84] ∨ s = [84, 82, 85, 69] ∨ s = [116, 114, 117, 101] ∨ s = [84, 114, 117, 101] then some true
  else if s = [48] ∨ s = [102] ∨ s = [70] ∨ s = [70, 65, 76, 83, 69] ∨ s = [102, 97, 108, 115, 101] ∨ s = [70, 97, 108, 115, 101] then some false
  else none

def isDigit (c : UInt8) : Bool := 48 ≤ c && c ≤ 57

def digitsVal : Bytes → Nat → Option Nat
  | [], acc => some acc
  | c :: t, acc => if isDigit c then digitsVal t (acc * 10 + (c.toNat - 48)) else none

/-- unsigned decimal, at least one digit, nothing else (base 10 given explicitly: no underscores) -/
def parseNat (s : Bytes) : Option Nat := if s = [] then none else digitsVal s 0

/-- the syntax of `strconv.ParseInt(s, 10, _)` before the range check -/
def parseIntText : Bytes → Option Int
  | [] => none
  | 43 :: t => (parseNat t).map Int.ofNat
  | 45 :: t => (parseNat t).map (fun n => - Int.ofNat n)
  | c :: t => (parseNat (c :: t)).map Int.ofNat

def intInRange (bits : Nat) (v : Int) : Bool :=
  decide (- (2 ^ (effBits bits - 1) : Int) ≤ v) && decide (v < (2 ^ (effBits bits - 1) : Int))

def uintInRange (bits : Nat) (n : Nat) : Bool := decide (n < 2 ^ effBits bits)

/-- bytes that can occur in a string `strconv.ParseFloat` accepts (decimal and hex floats,
underscores, inf/infinity/nan in any case) -/
def floatByte (c : UInt8) : Bool :=
  isDigit c || (97 ≤ c && c ≤ 102) || (65 ≤ c && c ≤ 70) || c == 43 || c == 45 || c == 46 || c == 95 ||
  c == 120 || c == 88 || c == 112 || c == 80 || c == 105 || c == 73 || c == 110 || c == 78 ||
  c == 116 || c == 84 || c == 121 || c == 89

def noLeadZero : Bytes → Bool
  | [] => false
  | [_] => true
  | c :: _ => c != 48

/-- `-?int(.frac)?` with no redundant zeros and at most six digits: `FormatFloat(ParseFloat(s), 'f', -1, bits)`
gives back `s` for both float sizes (`-0` is left out: the decoders disagree on its sign) -/
def canonFloat (s : Bytes) : Bool :=
  s != [45, 48] &&
  let t := match s with
    | 45 :: r => r
    | r => r
  let ip := t.takeWhile isDigit
  let rest := t.dropWhile isDigit
  noLeadZero ip && (match rest with
    | [] => ip.length ≤ 6
    | 46 :: fr => fr != [] && fr.all isDigit && fr.getLast? != some 48 && ip.length + fr.length ≤ 6
    | _ => false)

/-- `strconv.ParseFloat` as far as the model states it -/
def parseFloatText (s : Bytes) : Conv Bytes :=
  if canonFloat s then .ok s
  else if s = [] ∨ s.any (fun c => !floatByte c) then .err
  else .unk

/-- `TextDecoder.UnmarshalString` (LooseZeroMode off) -/
def convText (b : Base) (s : Bytes) : Conv Scalar :=
  match b with
  | .bool => match parseBool s with
    | some v => .ok (.b v)
    | none => .err
  | .int bits => match parseIntText s with
    | some v => if intInRange bits v then .ok (.i v) else .err
    | none => .err
  | .uint bits => match parseNat s with
    | some n => if uintInRange bits n then .ok (.u n) else .err
    | none => .err
  | .float _ => match parseFloatText s with
    | .ok t => .ok (.f t)
    | .err => .err
    | .unk => .unk
  | .str => .ok (.s s)

/-- decode texts in order; the first one that is not `ok` decides (the Go loop breaks there) -/
def convAll (b : Base) : List Bytes → Conv (List Scalar)
  | [] => .ok []
  | s :: t => match convText b s with
    | .ok v => match convAll b t with
      | .ok l => .ok (v :: l)
      | .err => .err
      | .unk => .unk
    | .err => .err
    | .unk => .unk

/-! ## Field values -/

/-- value of a field after binding: `unset` = untouched zero value (0, "", false, nil pointer, nil slice);
`one s` = the scalar behind `ptr` freshly allocated pointers; `many l` = a slice (behind `ptr` pointers),
element `none` = JSON `null` (zero element, or nil pointer element). -/
inductive FieldVal | unset | one (s : Scalar) | many (l : List (Option Scalar))
  deriving DecidableEq, Repr

/-! ## JSON pre-bind (`preBindBody` → `hJson.Unmarshal(req.Body(), v)`) -/

def natDigits (n : Nat) : Bytes := (Nat.toDigits 10 n).map (fun c => c.toNat.toUInt8)

def intText (i : Int) : Bytes :=
  match i with
  | .ofNat n => natDigits n
  | .negSucc n => 45 :: natDigits (n + 1)

/-- one JSON atom into a base kind; `ok none` = `null`.
`sonic = true` is the decoder hertz uses (sonic v1.13.2, amd64): it performs NO range check when the
target is `uint32` and the literal is below 2^63: the value is truncated to 32 bits.
`sonic = false` is what `encoding/json` does (range error); the spec uses that. -/
def jsonAtomConv (sonic : Bool) (b : Base) : JAtom → Conv (Option Scalar)
  | .null => .ok none
  | .obj => .err
  | .bool v => if b = .bool then .ok (some (.b v)) else .err
  | .int i => match b with
    | .int bits => if intInRange bits i then .ok (some (.i i)) else .err
    | .uint bits =>
      if sonic ∧ bits = 32 then
        (if 0 ≤ i ∧ uintInRange 63 i.toNat then .ok (some (.u (i.toNat % 2 ^ 32))) else .err)
      else if 0 ≤ i ∧ uintInRange bits i.toNat then .ok (some (.u i.toNat)) else .err
    | .float _ => if canonFloat (intText i) then .ok (some (.f (intText i))) else .unk
    | _ => .err
  | .num text => match b with
    | .float _ => if canonFloat text then .ok (some (.f text)) else .unk
    | _ => .err
  | .str s => if b = .str then .ok (some (.s s)) else .err

def jsonAtomsConv (sonic : Bool) (b : Base) : List JAtom → Conv (List (Option Scalar))
  | [] => .ok []
  | a :: t => match jsonAtomConv sonic b a, jsonAtomsConv sonic b t with
    | .err, _ => .err
    | _, .err => .err
    | .unk, _ => .unk
    | _, .unk => .unk
    | .ok v, .ok l => .ok (v :: l)

/-- assign one JSON value to a field holding `prev` -/
def jsonStep (sonic : Bool) (ty : Ty) (prev : FieldVal) (v : JVal) : Conv FieldVal :=
  if ty.slice then
    match v with
    | .atom .null => .ok .unset
    | .atom (.str _) => if ty.base = .uint 8 ∧ ty.elemPtr = 0 then .unk else .err   -- []byte takes base64
    | .atom _ => .err
    | .arr l => match jsonAtomsConv sonic ty.base l with
      | .ok l' => .ok (.many l')
      | .err => .err
      | .unk => .unk
  else
    match v with
    | .arr _ => .err
    | .atom a => match jsonAtomConv sonic ty.base a with
      | .ok none => .ok (if ty.ptr > 0 then .unset else prev)
      | .ok (some s) => .ok (.one s)
      | .err => .err
      | .unk => .unk

/-- the name `encoding/json` / sonic know the field by; `none` = ignored (`json:"-"`) -/
def jsonFieldName (f : Field) : Option Bytes :=
  match f.tags.lookup .json with
  | none => some f.name
  | some content =>
    if content = dash then none
    else some (if (headComma content).1 = [] then f.name else (headComma content).1)

/-- a member key selects the field: case-insensitive match (field names are assumed pairwise
distinct up to case, so exact-match preference never matters) -/
def jsonMatches (f : Field) (k : Bytes) : Bool :=
  match jsonFieldName f with
  | some n => H1.ciEq k n
  | none => false

/-- fold over the members; an error anywhere makes `Unmarshal` fail (it keeps going and reports it
at the end), `unk` = error status not known to the model -/
def preBindMembers (sonic : Bool) (f : Field) : List (Bytes × JVal) → Conv FieldVal → Conv FieldVal
  | [], acc => acc
  | m :: t, acc =>
    if jsonMatches f m.1 then
      match acc with
      | .err => .err
      | .unk => (match jsonStep sonic f.ty .unset m.2 with
        | .err => .err
        | _ => preBindMembers sonic f t .unk)
      | .ok prev => preBindMembers sonic f t (jsonStep sonic f.ty prev m.2)
    else preBindMembers sonic f t acc

def preBindField (sonic : Bool) (r : Req) (f : Field) : Conv FieldVal :=
  preBindMembers sonic f (bodyMembers r) (.ok .unset)

def collect : List (Conv FieldVal) → Conv (List FieldVal)
  | [] => .ok []
  | c :: t => match c, collect t with
    | .err, _ => .err
    | _, .err => .err
    | .unk, _ => .unk
    | _, .unk => .unk
    | .ok v, .ok l => .ok (v :: l)

/-- `preBindBody`: only with a body and a JSON content type -/
def preBind (sonic : Bool) (r : Req) (fields : List Field) : Conv (List FieldVal) :=
  if hasBody r && ctFold r then
    match r.body with
    | .json _ => collect (fields.map (preBindField sonic r))
    | _ => .err
  else .ok (fields.map (fun _ => .unset))

/-! ## JSON from a text (slice default values and the slice fall-back) -/

def splitComma (cur : Bytes) : Bytes → List Bytes
  | [] => [cur.reverse]
  | c :: t => if c = 44 then cur.reverse :: splitComma [] t else splitComma (c :: cur) t

def plainStrByte (c : UInt8) : Bool := 32 ≤ c && c ≤ 126 && c != 34 && c != 92 && c != 44 && c != 91 && c != 93

/-- one array element in the small grammar the model reads itself -/
def parseAtomText (s : Bytes) : Option JAtom :=
  if s = [110, 117, 108, 108] then some .null
  else if s = [116, 114, 117, 101] then some (.bool true)
  else if s = [102, 97, 108, 115, 101] then some (.bool false)
  else match s with
    | 34 :: r =>
      if r.getLast? = some 34 ∧ r.dropLast.all plainStrByte then some (.str r.dropLast) else none
    | _ =>
      let t := match s with
        | 45 :: r => r
        | r => r
      if s = [45, 48] then none
      else if t.all isDigit ∧ noLeadZero t then (parseIntText s).map .int
      else if canonFloat s then some (.num s) else none

/-- the JSON value of a text: flat arrays of simple atoms and `null` are read by the model; a text
that starts like neither an array nor `null` cannot be assigned to a slice whatever it is (`err`);
everything else: no opinion -/
def parseSliceJSON (s : Bytes) : Conv JVal :=
  match s with
  | [] => .err
  | 91 :: r =>
    if r = [93] then .ok (.arr [])
    else if r.getLast? = some 93 then
      match (splitComma [] r.dropLast).mapM parseAtomText with
      | some l => .ok (.arr l)
      | none => .unk
    else .unk
  | c :: _ =>
    if s = [110, 117, 108, 108] then .ok (.atom .null)
    else if c = 110 ∨ c = 32 ∨ c = 9 ∨ c = 10 ∨ c = 13 then .unk
    else .err

/-- `strings.Replace(s, old, new, -1)` for a one-byte pattern -/
def replace1 (old : UInt8) (new : Bytes) : Bytes → Bytes
  | [] => []
  | c :: t => if c = old then new ++ replace1 old new t else c :: replace1 old new t

/-- `strings.Replace(s, "\\'", "\x07", -1)` -/
def replaceEscQuote : Bytes → Bytes
  | [] => []
  | [c] => [c]
  | a :: b :: t => if a = 92 ∧ b = 39 then 7 :: replaceEscQuote t else a :: replaceEscQuote (b :: t)
termination_by structural x => x

/-- `toDefaultValue`: for slices quotes are rewritten (single quotes become double quotes) -/
def toDefaultValue (ty : Ty) (d : Bytes) : Bytes :=
  if ty.slice then
    replace1 7 [39] (replace1 39 [34] (replaceEscQuote (replace1 34 [92, 34] d)))
  else d

/-! ## base_type_decoder.go -/

inductive ErrKind | required | conv | body
  deriving DecidableEq, Repr

/-- the local variables `err`, `text`, `exist`, `defaultValue` of `Decode` -/
structure LoopSt where
  err : Option ErrKind := none
  text : Bytes := []
  exist : Bool := false
  dflt : Bytes := []
  deriving DecidableEq, Repr

/-- the json branch of the tag loop (identical in both decoders); works on `err` and `defaultValue` -/
def jsonBranch (r : Req) (ti : TagInfo) (err : Option ErrKind) : Option ErrKind × Bytes :=
  let err :=
    if checkRequireJSON r ti then
      (if ti.required || keyExist r ti then none else err)
    else some .required
  (err, if ti.dflt ≠ [] ∧ keyExist r ti then [] else ti.dflt)

/-- `for _, tagInfo := range d.tagInfos { … }` of `baseTypeFieldTextDecoder.Decode` -/
def baseLoop (r : Req) : List TagInfo → LoopSt → LoopSt
  | [], st => st
  | ti :: rest, st =>
    if ti.skip ∨ ti.key = .json then
      if ti.key = .json then
        let e := jsonBranch r ti st.err
        baseLoop r rest { st with err := e.1, dflt := e.2 }
      else baseLoop r rest st
    else
      let g := getter r ti.key ti.value
      if g.2 then { err := none, text := g.1, exist := true, dflt := ti.dflt }      -- break
      else baseLoop r rest { err := if ti.required then some .required else st.err, text := g.1, exist := false, dflt := ti.dflt }

/-- outcome of one field decoder -/
inductive FOut | ok (v : FieldVal) | err (e : ErrKind) | unk
  deriving DecidableEq, Repr

/-- `UnmarshalString` / `stringToValue` on the chosen text, and what `Decode` returns for it -/
def textOutcome (ty : Ty) (text : Bytes) : FOut :=
  match convText ty.base text with
  | .ok s => .ok (.one s)
  | .err => .err .conv
  | .unk => .unk

/-- `baseTypeFieldTextDecoder.Decode`; `pre` is what the JSON pre-bind left in the field -/
def decodeBase (r : Req) (ty : Ty) (tis : List TagInfo) (pre : FieldVal) : FOut :=
  let st := baseLoop r tis {}
  match st.err with
  | some e => .err e
  | none =>
    let text := if st.text = [] ∧ st.dflt ≠ [] then toDefaultValue ty st.dflt else st.text
    if !st.exist ∧ text = [] then .ok pre
    else textOutcome ty text

/-! ## slice_type_decoder.go -/

structure SLoopSt where
  err : Option ErrKind := none
  texts : List Bytes := []
  dflt : Bytes := []
  deriving DecidableEq, Repr

def sliceLoop (r : Req) : List TagInfo → SLoopSt → SLoopSt
  | [], st => st
  | ti :: rest, st =>
    if ti.skip ∨ ti.key = .json then
      if ti.key = .json then
        let e := jsonBranch r ti st.err
        sliceLoop r rest { st with err := e.1, dflt := e.2 }
      else sliceLoop r rest st
    else
      let ts := sliceGetter r ti.key ti.value
      if ts ≠ [] then { err := none, texts := ts, dflt := ti.dflt }
      else sliceLoop r rest { err := if ti.required then some .required else st.err, texts := ts, dflt := ti.dflt }

/-- `hJson.Unmarshal(texts[0], &field)` -/
def jsonFromText (ty : Ty) (pre : FieldVal) (text : Bytes) : FOut :=
  match parseSliceJSON text with
  | .err => .err .conv
  | .unk => .unk
  | .ok v => match jsonStep true ty pre v with
    | .ok fv => .ok fv
    | .err => .err .conv
    | .unk => .unk

/-- the element loop of the slice decoder with its JSON fall-back on the first text -/
def textsOutcome (ty : Ty) (pre : FieldVal) (t0 : Bytes) (ts : List Bytes) : FOut :=
  match convAll ty.base (t0 :: ts) with
  | .ok l => .ok (.many (l.map some))
  | .err => jsonFromText ty pre t0                        -- "text[0] can be a complete json content"
  | .unk => .unk

/-- `sliceTypeFieldTextDecoder.Decode` (slices; arrays are outside the model) -/
def decodeSlice (r : Req) (ty : Ty) (tis : List TagInfo) (pre : FieldVal) : FOut :=
  let st := sliceLoop r tis {}
  match st.err with
  | some e => .err e
  | none =>
    if st.texts = [] ∧ st.dflt ≠ [] then
      jsonFromText ty pre (toDefaultValue ty st.dflt)         -- isDefault
    else match st.texts with
      | [] => .ok pre
      | t0 :: ts => textsOutcome ty pre t0 ts

/-! ## decoder.go / default.go -/

/-- what `getFieldDecoder` builds once per field and `bindTag` caches per type -/
structure FieldDec where
  ty : Ty
  tis : List TagInfo
  deriving DecidableEq, Repr

def compileField (f : Field) : FieldDec := { ty := f.ty, tis := fieldTagInfos f }

/-- `GetReqDecoder`: one decoder per field, in field order -/
def compile (fields : List Field) : List FieldDec := fields.map compileField

def FieldDec.run (r : Req) (d : FieldDec) (pre : FieldVal) : FOut :=
  if d.ty.slice then decodeSlice r d.ty d.tis pre else decodeBase r d.ty d.tis pre

inductive Outcome | ok (vals : List FieldVal) | err (e : ErrKind) | unk
  deriving DecidableEq, Repr

/-- the closure returned by `GetReqDecoder`: run the field decoders in order, stop at the first error.
(`unk` followed by anything is `unk`: the model does not know whether the unknown field failed.) -/
def runDecoders (r : Req) : List FieldDec → List FieldVal → Outcome
  | [], _ => .ok []
  | d :: ds, pres =>
    match d.run r (pres.headD .unset) with
    | .err e => .err e
    | .unk => .unk
    | .ok v => match runDecoders r ds pres.tail with
      | .ok vs => .ok (v :: vs)
      | .err e => .err e
      | .unk => .unk

/-- `binding.Bind` on a fresh struct value, with a decoder list `decs` (fresh or cached) -/
def bindWith (decs : List FieldDec) (fields : List Field) (r : Req) : Outcome :=
  match preBind true r fields with
  | .err => .err .body
  | .unk => .unk
  | .ok pres => runDecoders r decs pres

/-- **Bind as a function of the type description and the request.** -/
def bind (fields : List Field) (r : Req) : Outcome := bindWith (compile fields) fields r

/-- pre-bind as seen by one field -/
def preField (r : Req) (f : Field) : Conv FieldVal :=
  if hasBody r && ctFold r then
    match r.body with
    | .json _ => preBindField true r f
    | _ => .err
  else .ok .unset

/-- result for one field alone (what `bind` computes for it when no other field fails first) -/
def bindField (f : Field) (r : Req) : FOut :=
  match preField r f with
  | .err => .err .body
  | .unk => .unk
  | .ok pre => (compileField f).run r pre

/-! ### the per-type decoder cache of `defaultBinder.bindTag` -/

/-- `decoderCache`: type → compiled decoders (the type description stands for the `typeID`) -/
structure Binder where
  cache : List (List Field × List FieldDec) := []

/-- `bindTag`: pre-bind the body, then use the cached decoder or build and store one -/
def Binder.bind (b : Binder) (fields : List Field) (r : Req) : Outcome × Binder :=
  match b.cache.lookup fields with
  | some decs => (bindWith decs fields r, b)
  | none => (bindWith (compile fields) fields r, { cache := (fields, compile fields) :: b.cache })

/-- a sequence of binds through one binder -/
def Binder.run (b : Binder) : List (List Field × Req) → List Outcome
  | [] => []
  | (t, r) :: rest => (b.bind t r).1 :: Binder.run (b.bind t r).2 rest

/-! ### the entry points of `defaultBinder` and its five decoder caches

`Bind` / `BindAndValidate` call `bindTag` / `bindTagWithValidate` with `tag = ""`; `BindPath`, `BindForm`,
`BindQuery`, `BindHeader` call `bindTag` with their tag.  A non-empty tag (i) skips `preBindBody`,
(ii) makes `getFieldDecoder` replace the tag list of every field by `getFieldTagInfoByTag(field, tag)`,
(iii) selects another decoder cache (`tagCache`).  All caches are keyed by the type alone, so which cache
a decoder is loaded from and stored into is part of the behaviour. -/

inductive Api | bind | validate | path | form | query | header
  deriving DecidableEq, Repr

/-- the `tag` argument the entry point passes on (`none` = the empty string) -/
def Api.byTag : Api → Option Src
  | .bind => none | .validate => none
  | .path => some .path | .form => some .form | .query => some .query | .header => some .header

/-- the five `sync.Map`s of `defaultBinder` -/
inductive Slot | all | query | header | form | path
  deriving DecidableEq, Repr

/-- `defaultBinder.tagCache` -/
def tagCache : Option Src → Slot
  | some .query => .query | some .header => .header | some .form => .form | some .path => .path
  | _ => .all

/-- `getFieldTagInfoByTag`: exactly one tag, named by the struct tag of that source if the field has one
(empty name = Go name, `-` = skipped, option `required`), else by the Go name; no default, no JSON name -/
def tagInfoByTag (f : Field) (s : Src) : List TagInfo :=
  match f.tags.lookup s with
  | some content =>
    let hv := headComma content
    let tv := if hv.1 = [] then f.name else hv.1
    [{ key := s, value := tv, jsonName := [], required := optsRequired [] hv.2, skip := tv == dash }]
  | none => [{ key := s, value := f.name, jsonName := [] }]

/-- `getFieldDecoder(…, byTag, …)` for one top-level field -/
def compileFieldBy (tg : Option Src) (f : Field) : FieldDec :=
  match tg with
  | none => compileField f
  | some s => { ty := f.ty, tis := tagInfoByTag f s }

/-- `GetReqDecoder(rt, byTag, config)` -/
def compileBy (tg : Option Src) (fields : List Field) : List FieldDec := fields.map (compileFieldBy tg)

/-- `bindTag` once the decoder `decs` is in hand: `preBindBody` only when `len(tag) == 0`; a tag-restricted
bind runs the decoders on the untouched fresh value -/
def bindWithBy (tg : Option Src) (decs : List FieldDec) (fields : List Field) (r : Req) : Outcome :=
  match tg with
  | none => bindWith decs fields r
  | some _ => runDecoders r decs (fields.map (fun _ => .unset))

/-- **An entry point as a function of the type description and the request** (no cache) -/
def bindBy (tg : Option Src) (fields : List Field) (r : Req) : Outcome :=
  bindWithBy tg (compileBy tg fields) fields r

/-- `defaultBinder`: one cache per `Slot`, each type → compiled decoders -/
structure TagBinder where
  caches : Slot → List (List Field × List FieldDec) := fun _ => []

/-- `cache.Store(typeID, …)` on the cache `s` -/
def TagBinder.store (b : TagBinder) (s : Slot) (t : List Field) (d : List FieldDec) : TagBinder :=
  { caches := fun s' => if s' = s then (t, d) :: b.caches s' else b.caches s' }

/-- `bindTag` (and `bindTagWithValidate` for types without a validation tag: `needValidate` is false):
`cache := b.tagCache(tag)`; load → fast path; else build with `byTag = tag`, store into THE SAME cache, run -/
def TagBinder.bindTag (b : TagBinder) (tg : Option Src) (fields : List Field) (r : Req) : Outcome × TagBinder :=
  match (b.caches (tagCache tg)).lookup fields with
  | some decs => (bindWithBy tg decs fields r, b)
  | none => (bindWithBy tg (compileBy tg fields) fields r, b.store (tagCache tg) fields (compileBy tg fields))

def TagBinder.call (b : TagBinder) (a : Api) (fields : List Field) (r : Req) : Outcome × TagBinder :=
  b.bindTag a.byTag fields r

/-- a sequence of calls of any entry points through one binder -/
def TagBinder.run (b : TagBinder) : List (Api × List Field × Req) → List Outcome
  | [] => []
  | (a, t, r) :: rest => (b.call a t r).1 :: TagBinder.run (b.call a t r).2 rest

end Hertz.Bind
