import Hertz.Basic
/-!
Interleaving model of graceful shutdown (property C18).

One `step` is one atomic operation (or one lock region) of one goroutine of the real server:

* the `Run` goroutine          — `Engine.Init` (CAS 0→initialized), `Engine.MarkAsRunning`
  (CAS initialized→running), `standard.transport.serve` (listen under `t.mu`, `ln.Accept`,
  `updateActive(1)`), the deferred `StoreUint32(status, closed)` of `Engine.Run`;
* one goroutine per connection — `http1.Server.Serve`: request read, `ServeHTTP`, the *exit check*
  `if !s.Core.IsRunning() { connectionClose = true }`, `writeResponse`+`Flush`, loop or return,
  then `updateActive(-1)` in the transport;
* any number of `Engine.Shutdown` callers — `LoadUint32`, `CompareAndSwapUint32`, and for the
  winner: `context.WithTimeout` + `go executeOnShutdownHooks`, `transport.Shutdown` (listener
  close, ticker, first unconditional tick, polling loop with `ctx.Done`), the deferred wait for
  the hooks or the deadline;
* one goroutine per shutdown hook;
* the peer (client) side, as far as it can be observed: closing its end, reading a complete
  response, reading EOF, dialling.

Time is an abstract clock (`now`, advanced by `advance d`); the ticker period, `ExitWaitTimeout`
and the 30 s cap of `transport.Shutdown` are parameters (`Cfg`).

What is NOT modelled (assumptions recorded in bin/props.py): write errors towards the peer, the
service registry (`Deregister` is the no-op registry), hijacked connections, `IdleTimeout`
expiry (a keep-alive connection only ends when the peer closes or a response carried
`Connection: close`), TLS, and netpoll's own event loop (see `Cfg.netpoll`: its `Shutdown`
closes idle connections itself and polls with a different period).
-/
namespace Hertz.Shutdown

/-- engine status values (`pkg/route/engine.go`; pinned to the source by
`Hertz.Props.C18.model_matches_gen`) -/
def stInitialized : Nat := 1
def stRunning : Nat := 2
def stShutdown : Nat := 3
def stClosed : Nat := 4

structure Cfg where
  /-- `ExitWaitTimeout` in clock units -/
  exitWait : Nat
  /-- `shutdownTicker` -/
  tick : Nat := 10
  /-- `shutdownTimeout` (hard cap inside `transport.Shutdown`) -/
  maxWait : Nat := 30000
  /-- netpoll transport: `Shutdown` closes idle connections itself -/
  netpoll : Bool := false
  deriving Repr, BEq, Hashable, DecidableEq

/-- what `Engine.Shutdown` returned -/
inductive Err | nil | notRunning | timeout
  deriving Repr, BEq, Hashable, DecidableEq

/-- where a connection goroutine is -/
inductive ConnPh
  /-- in the keep-alive loop, no complete request read yet (fresh, idle or mid-request) -/
  | idle
  /-- request read, `ServeHTTP` running; `rc` = request asked for `Connection: close` -/
  | handling (rc : Bool)
  /-- `ServeHTTP` returned, exit check not yet done; `cl` = close wanted so far (request or
  handler), `g` = ghost: the status had already left `running` when the handler returned -/
  | returned (cl g : Bool)
  /-- exit check done, `connectionClose = cl`, response not yet written -/
  | checked (cl g : Bool)
  /-- `Serve` returned (response with close written, or peer gone), `updateActive(-1)` pending -/
  | closing
  /-- `updateActive(-1)` done -/
  | gone
  deriving Repr, BEq, Hashable, DecidableEq

/-- a complete response on the wire: did it carry `Connection: close`; ghost `flipped` as above -/
structure Resp where
  close : Bool
  flipped : Bool
  deriving Repr, BEq, Hashable, DecidableEq

structure Conn where
  ph : ConnPh := .idle
  peerClosed : Bool := false
  /-- requests whose handler has started -/
  started : Nat := 0
  /-- complete responses written, oldest first -/
  resps : List Resp := []
  /-- responses the client has read completely -/
  acked : Nat := 0
  deriving Repr, BEq, Hashable, DecidableEq

inductive HookPh | unspawned | spawned | running | done
  deriving Repr, BEq, Hashable, DecidableEq

/-- one caller of `Engine.Shutdown` -/
inductive CallerPh
  | called | loaded | winner | returned (e : Err) | finished (e : Err)
  deriving Repr, BEq, Hashable, DecidableEq

/-- the caller that won the CAS -/
inductive WinPh
  | none
  /-- CAS done; `WithTimeout` / `go executeOnShutdownHooks` pending -/
  | pre
  /-- about to run `transport.Shutdown`: `Listener()` + `ln.Close()` + `NewTicker` -/
  | closeLn
  /-- `<-tk.C` (unconditional) -/
  | wait1
  /-- polling loop entered at time `t0` -/
  | loop (t0 : Nat)
  /-- `transport.Shutdown` returned; deferred `select` on hooks / deadline -/
  | deferred (e : Err)
  | returned (e : Err) (t : Nat)
  deriving Repr, BEq, Hashable, DecidableEq

inductive RunPh | fresh | inited | marked | serving | acceptFailed | exited
  deriving Repr, BEq, Hashable, DecidableEq

structure State where
  now : Nat := 0
  status : Nat := 0
  /-- `t.ln != nil` -/
  lnSet : Bool := false
  /-- listener socket open -/
  lnOpen : Bool := false
  active : Int := 0
  conns : List Conn := []
  hooks : List HookPh := []
  callers : List CallerPh := []
  win : WinPh := .none
  /-- ghost: index of the caller that won the CAS (meaningful once `win ≠ none`) -/
  winK : Nat := 0
  /-- ghost: time of the successful CAS -/
  tcas : Nat := 0
  /-- deadline of the shutdown context -/
  dl : Nat := 0
  nextTick : Nat := 0
  runPh : RunPh := .fresh
  dials : List (Option Bool) := []
  /-- ghost: `transport.Shutdown` found `t.ln == nil` and closed nothing -/
  lnSkipped : Bool := false
  /-- ghost: connections accepted after the listener-closing step of `transport.Shutdown` -/
  lateAccepts : Nat := 0
  deriving Repr, BEq, Hashable, DecidableEq

def init (nHooks : Nat) : State := { hooks := List.replicate nHooks .unspawned }

inductive Act
  | advance (d : Nat)
  -- Run goroutine
  | init | markRunning | listen | accept | acceptFail | runReturn
  -- connection goroutines
  | reqArrive (c : Nat) (rc : Bool) | handlerRet (c : Nat) (respClose : Bool)
  | exitCheck (c : Nat) | writeResp (c : Nat) | connDrop (c : Nat) | connGone (c : Nat)
  | badReq (c : Nat)
  -- peer
  | peerClose (c : Nat) | clientRead (c : Nat) (cl : Bool) | clientEof (c : Nat)
  | dialStart | dialProbe (i : Nat) | dialEnd (i : Nat) (ok : Bool)
  -- Shutdown callers
  | shutCall | shutLoad (k : Nat) | shutCas (k : Nat) | shutSpawn | shutCloseLn | shutTick1
  | shutTickLoop | shutCtxDone | shutFinish | callerRet (k : Nat) (e : Err)
  -- netpoll only: the shutdown loop closes a connection on which no request has been started
  | npCloseIdle (c : Nat)
  -- hooks
  | hookStart (j : Nat) | hookEnd (j : Nat)
  deriving Repr, BEq, Hashable, DecidableEq

/-- `Engine.IsRunning`: status is running and the transport has a listener -/
def isRunning (s : State) : Bool := s.status == stRunning && s.lnSet

def updConn (s : State) (c : Nat) (f : Conn → Option Conn) : Option State :=
  match s.conns[c]? with
  | none => none
  | some cn =>
    match f cn with
    | none => none
    | some cn' => some { s with conns := s.conns.set c cn' }

def updCaller (s : State) (k : Nat) (f : CallerPh → Option CallerPh) : Option State :=
  match s.callers[k]? with
  | none => none
  | some p =>
    match f p with
    | none => none
    | some p' => some { s with callers := s.callers.set k p' }

def updHook (s : State) (j : Nat) (f : HookPh → Option HookPh) : Option State :=
  match s.hooks[j]? with
  | none => none
  | some p =>
    match f p with
    | none => none
    | some p' => some { s with hooks := s.hooks.set j p' }

def hooksDone (s : State) : Bool := s.hooks.all fun p => decide (p = HookPh.done)

/-- the listener-closing step of `transport.Shutdown` has been executed -/
def postClose : WinPh → Bool
  | .none | .pre | .closeLn => false
  | _ => true

def spawnHook : HookPh → HookPh
  | .unspawned => .spawned
  | p => p

def winnerRet (e : Err) : CallerPh → CallerPh
  | .winner => .returned e
  | p => p

/-! ### what one connection goroutine (or its peer) does to its own record -/

def cReqArrive (rc : Bool) (cn : Conn) : Option Conn :=
  match cn.ph with
  | .idle => some { cn with ph := .handling rc, started := cn.started + 1 }
  | _ => none

/-- `flipped`: the status had left `running` already -/
def cHandlerRet (respClose flipped : Bool) (cn : Conn) : Option Conn :=
  match cn.ph with
  | .handling rc => some { cn with ph := .returned (rc || respClose) flipped }
  | _ => none

/-- the exit check: `if !s.Core.IsRunning() { connectionClose = true }` -/
def cExitCheck (running : Bool) (cn : Conn) : Option Conn :=
  match cn.ph with
  | .returned cl g => some { cn with ph := .checked (cl || !running) g }
  | _ => none

def cWriteResp (cn : Conn) : Option Conn :=
  match cn.ph with
  | .checked cl g => some { cn with ph := if cl then .closing else .idle, resps := cn.resps ++ [⟨cl, g⟩] }
  | _ => none

def cConnDrop (cn : Conn) : Option Conn :=
  match cn.ph with
  | .idle => if cn.peerClosed then some { cn with ph := .closing } else none
  | _ => none

def cBadReq (cn : Conn) : Option Conn :=
  match cn.ph with
  | .idle => some { cn with ph := .closing }
  | _ => none

def cGone (cn : Conn) : Option Conn :=
  match cn.ph with
  | .closing => some { cn with ph := .gone }
  | _ => none

def cPeerClose (cn : Conn) : Option Conn := some { cn with peerClosed := true }

def cClientRead (cl : Bool) (cn : Conn) : Option Conn :=
  match cn.resps[cn.acked]? with
  | some r => if r.close = cl then some { cn with acked := cn.acked + 1 } else none
  | none => none

def cClientEof (cn : Conn) : Option Conn :=
  match cn.ph with
  | .closing | .gone => if cn.acked = cn.resps.length then some cn else none
  | _ => none

def cNpClose (cn : Conn) : Option Conn :=
  match cn.ph with
  | .idle => if cn.started = 0 then some { cn with ph := .closing } else none
  | _ => none

def step (cfg : Cfg) (s : State) : Act → Option State
  | .advance d => some { s with now := s.now + d }
  -- Engine.Init: CAS(status, 0, initialized)
  | .init =>
    if s.runPh = .fresh then
      if s.status = 0 then some { s with status := stInitialized, runPh := .inited }
      else some { s with runPh := .exited }
    else none
  -- Engine.MarkAsRunning: CAS(status, initialized, running)
  | .markRunning =>
    if s.runPh = .inited then
      if s.status = stInitialized then some { s with status := stRunning, runPh := .marked }
      else some { s with runPh := .exited }
    else none
  -- transport.serve: t.ln = net.Listen(...) under t.mu
  | .listen =>
    if s.runPh = .marked then some { s with lnSet := true, lnOpen := true, runPh := .serving } else none
  -- ln.Accept() succeeded; updateActive(1); go handler
  | .accept =>
    if s.runPh = .serving ∧ s.lnOpen = true then
      some { s with conns := s.conns ++ [{}], active := s.active + 1,
                    lateAccepts := s.lateAccepts + (if postClose s.win then 1 else 0) }
    else none
  | .acceptFail =>
    if s.runPh = .serving ∧ s.lnOpen = false then some { s with runPh := .acceptFailed } else none
  -- deferred atomic.StoreUint32(&engine.status, statusClosed) of Engine.Run
  | .runReturn =>
    if s.runPh = .acceptFailed then some { s with status := stClosed, runPh := .exited } else none
  | .reqArrive c rc => updConn s c (cReqArrive rc)
  | .handlerRet c respClose => updConn s c (cHandlerRet respClose (decide (stShutdown ≤ s.status)))
  -- the exit check
  | .exitCheck c => updConn s c (cExitCheck (isRunning s))
  | .writeResp c => updConn s c cWriteResp
  | .connDrop c => updConn s c cConnDrop
  -- unparsable request: error response (not a handler response) and `Serve` returns
  | .badReq c => updConn s c cBadReq
  -- updateActive(-1)
  | .connGone c => (updConn s c cGone).map fun s' => { s' with active := s'.active - 1 }
  | .peerClose c => updConn s c cPeerClose
  | .clientRead c cl => updConn s c (cClientRead cl)
  | .clientEof c => updConn s c cClientEof
  | .dialStart => some { s with dials := s.dials ++ [none] }
  | .dialProbe i =>
    match s.dials[i]? with
    | some none => some { s with dials := s.dials.set i (some s.lnOpen) }
    | _ => none
  | .dialEnd i ok =>
    match s.dials[i]? with
    | some (some r) => if r = ok then some s else none
    | _ => none
  | .shutCall => some { s with callers := s.callers ++ [.called] }
  -- if atomic.LoadUint32(&engine.status) != statusRunning { return errStatusNotRunning }
  | .shutLoad k =>
    updCaller s k fun p =>
      match p with
      | .called => some (if s.status = stRunning then .loaded else .returned .notRunning)
      | _ => none
  -- if !atomic.CompareAndSwapUint32(&engine.status, statusRunning, statusShutdown) { return errStatusNotRunning }
  | .shutCas k =>
    match s.callers[k]? with
    | some .loaded =>
      if s.status = stRunning then
        some { s with status := stShutdown, callers := s.callers.set k .winner, win := .pre, winK := k, tcas := s.now }
      else some { s with callers := s.callers.set k (.returned .notRunning) }
    | _ => none
  -- ctx = WithTimeout(ctx, ExitWaitTimeout); go executeOnShutdownHooks(ctx)
  | .shutSpawn =>
    match s.win with
    | .pre => some { s with dl := s.now + cfg.exitWait, hooks := s.hooks.map spawnHook, win := .closeLn }
    | _ => none
  -- transport.Shutdown: if ln := t.Listener(); ln != nil { ln.Close() }; tk := NewTicker(shutdownTicker)
  | .shutCloseLn =>
    match s.win with
    | .closeLn =>
      some { s with lnOpen := if s.lnSet then false else s.lnOpen, lnSkipped := !s.lnSet,
                    nextTick := s.now + cfg.tick, win := .wait1 }
    | _ => none
  -- <-tk.C ; if t.updateActive(0) <= 0 { return nil } ; t0 := time.Now()
  | .shutTick1 =>
    match s.win with
    | .wait1 =>
      if s.nextTick ≤ s.now then
        some { s with nextTick := s.nextTick + cfg.tick,
                      win := if s.active ≤ 0 then .deferred .nil else .loop s.now }
      else none
    | _ => none
  -- case now := <-tk.C: active <= 0 → nil ; now.Sub(t0) > shutdownTimeout → errShutdownTimeout
  | .shutTickLoop =>
    match s.win with
    | .loop t0 =>
      if s.nextTick ≤ s.now then
        some { s with nextTick := s.nextTick + cfg.tick,
                      win := if s.active ≤ 0 then .deferred .nil
                             else if cfg.maxWait < s.now - t0 then .deferred .timeout else .loop t0 }
      else none
    | _ => none
  -- case <-ctx.Done(): return ctx.Err()   (Engine.Shutdown maps err == ctx.Err() to nil)
  | .shutCtxDone =>
    match s.win with
    | .loop _ => if s.dl ≤ s.now then some { s with win := .deferred .nil } else none
    | _ => none
  -- deferred select { case <-ctx.Done(): case <-ch: }
  | .shutFinish =>
    match s.win with
    | .deferred e =>
      if s.dl ≤ s.now ∨ hooksDone s = true then
        some { s with win := .returned e s.now, callers := s.callers.map (winnerRet e) }
      else none
    | _ => none
  | .callerRet k e =>
    updCaller s k fun p =>
      match p with
      | .returned e' => if e' = e then some (.finished e) else none
      | _ => none
  | .npCloseIdle c =>
    if cfg.netpoll = true ∧ postClose s.win = true then updConn s c cNpClose else none
  | .hookStart j =>
    updHook s j fun p => match p with | .spawned => some .running | _ => none
  | .hookEnd j =>
    updHook s j fun p => match p with | .running => some .done | _ => none

def run (cfg : Cfg) : State → List Act → Option State
  | s, [] => some s
  | s, a :: t =>
    match step cfg s a with
    | none => none
    | some s' => run cfg s' t

/-- a state reachable from the initial state (with `n` registered hooks) -/
def Reachable (cfg : Cfg) (n : Nat) (s : State) : Prop := ∃ acts, run cfg (init n) acts = some s

/-- requests of a connection that are in flight (handler started, response not yet written) -/
def inflight : ConnPh → Nat
  | .handling _ | .returned _ _ | .checked _ _ => 1
  | _ => 0

/-! ### scheduling discipline for the time bound

`step` lets the clock advance at any time (goroutines may be delayed arbitrarily).  The bound on the
duration of `Shutdown` is a statement about runs in which the shutdown goroutine is never delayed
when it can move: the clock advances only while that goroutine is blocked, and not beyond the
instant at which it is woken (next tick or deadline).  `canAdvance s d` says so. -/
def canAdvance (s : State) (d : Nat) : Bool :=
  match s.win with
  | .none | .returned _ _ => true
  | .pre | .closeLn => d == 0
  | .wait1 => s.now + d ≤ s.nextTick
  | .loop _ => d == 0 || (s.now + d ≤ s.nextTick && s.now + d ≤ s.dl)
  | .deferred _ => d == 0 || (!hooksDone s && s.now + d ≤ s.dl)

def actOk (s : State) : Act → Bool
  | .advance d => canAdvance s d
  | _ => true

/-- `run` restricted to prompt schedules of the shutdown goroutine -/
def runPrompt (cfg : Cfg) : State → List Act → Option State
  | s, [] => some s
  | s, a :: t =>
    if actOk s a then
      match step cfg s a with
      | none => none
      | some s' => runPrompt cfg s' t
    else none

end Hertz.Shutdown
