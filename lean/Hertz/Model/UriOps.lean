import Hertz.Model.Uri
import Hertz.Model.ArgsProg
/-!
The remaining mutators of `pkg/protocol/uri.go` as programs over ONE `URI` object: `Parse`, `SetScheme/SetHost/SetPath/SetHash`,
`SetQueryString`, `SetUsername/SetPassword`, mutation through `QueryArgs()`, `Update/UpdateBytes`, `Reset`.
Extends `Model/Uri.lean` (`parse` is used as it is; `FullURI()` of a state is `URI.fullURIp` with the state's flag and list).

State of the object = the `URI` record + the two fields behind `QueryArgs()`: the visible entries of `queryArgs` and the flag
`parsedQueryArgs`.

What the Go code does (uri.go), stated exactly:
* user-info: `parse` cuts `user[:password]@` off the front of the host (first `@`, then first `:` inside) into
  `username`/`password`; the setters only store bytes; NOTHING writes them: `appendSchemeHost` is `Scheme() :// Host()`.
  So user-info never reaches `FullURI()` and a re-parse has none.
* `RequestURI()` (since /repo 97b0e80) chooses by `parsedQueryArgs`: flag set → `?` + `queryArgs.AppendBytes` when
  `queryArgs.Len() > 0`, and NO query when the list is empty; flag clear → `?` + `queryString` when that is non-empty.
  `SetQueryString` / `Update("?…")` store the string and clear only the flag (the old entries stay in `queryArgs`, unseen);
  a mutation through `QueryArgs()` never touches `queryString` (it may be out of date, unseen while the flag is set).  So
  the query written is always the query `QueryArgs()` reports.  Before that commit the choice was made by
  `queryArgs.Len() > 0` alone and the two situations `UState.staleQuery` wrote a query the object did not report (former
  known finding `C17-stale-query`; regression theorems `uri_stale_query_repaired` in `Props/C17.lean`).
* `updateBytes(newURI)`: empty → nothing; contains `//` ANYWHERE → `Parse(nil, newURI)` (with `scheme ":"` prefixed - the raw
  field, possibly empty - when `//` is at position 0), the old scheme kept if the new one is empty; starts with `/` →
  `Parse(nil, Scheme()://Host() + newURI)`; `?…` → `SetQueryStringBytes` (everything after `?`, a `#` included); `#…` →
  `SetHashBytes`; else → `Parse(nil, Scheme()://Host() + quotePath(Path() up to its last '/') + newURI)`, panicking if
  `Path()` has no `/`.
-/
namespace Hertz.Uri
open Hertz Hertz.Gen.Str

structure UState where
  u : URI := {}
  /-- visible entries of `u.queryArgs` -/
  args : List ArgKV := []
  /-- `u.parsedQueryArgs` -/
  parsed : Bool := false
deriving Repr, DecidableEq

/-- `URI.FullURI()`: the flag decides between the argument list and the raw query string -/
def UState.fullURI (st : UState) : Bytes := st.u.fullURIp st.parsed st.args

/-- `URI.parseQueryArgs()` (what `QueryArgs()` does first) -/
def UState.parseQA (st : UState) : UState :=
  if st.parsed then st else { st with args := parseArgs st.u.query, parsed := true }

/-- what `QueryArgs()` reports (without changing the object) -/
def UState.queryView (st : UState) : List ArgKV := st.parseQA.args

/-- `URI.Parse(host, uri)`: `Reset` clears the argument list and the flag -/
def UState.ofParse (host uri : Bytes) : UState := { u := parse host uri }

/-- `bytes.LastIndexByte(b, c)` -/
def lastIndexOf (c : UInt8) (b : Bytes) : Option Nat :=
  (indexOf c b.reverse).map (fun i => b.length - 1 - i)

/-- `URI.updateBytes`; `none` = panic ("BUG: path must contain at least one slash") -/
def UState.update (st : UState) (newURI : Bytes) : Option UState :=
  match newURI with
  | [] => some st
  | c0 :: _ =>
    if containsSub strSlashSlash newURI then
      let text := if strSlashSlash.isPrefixOf newURI then st.u.scheme ++ strColon ++ newURI else newURI
      let p := parse [] text
      some { u := if !st.u.scheme.isEmpty && p.scheme.isEmpty then { p with scheme := st.u.scheme } else p }
    else if c0 = 47 then
      some (UState.ofParse [] (st.u.schemeOrHTTP ++ strColonSlashSlash ++ st.u.host ++ newURI))
    else if c0 = 63 then
      some { st with u := { st.u with query := newURI.drop 1 }, parsed := false }
    else if c0 = 35 then
      some { st with u := { st.u with hash := newURI.drop 1 } }
    else
      match lastIndexOf 47 st.u.pathOrSlash with
      | none => none
      | some n =>
        some (UState.ofParse [] (st.u.schemeOrHTTP ++ strColonSlashSlash ++ st.u.host ++
          quotePath (st.u.pathOrSlash.take (n + 1)) ++ newURI))

inductive UriOp where
  | parse (host uri : Bytes)
  | setScheme (b : Bytes)
  | setHost (b : Bytes)
  | setPath (b : Bytes)
  | setHash (b : Bytes)
  | setQueryString (b : Bytes)
  | setUsername (b : Bytes)
  | setPassword (b : Bytes)
  | args (op : ArgOp)          -- `u.QueryArgs().Add/Set/Del/ParseBytes/Reset`
  | update (b : Bytes)
  | reset
deriving Repr, DecidableEq

def UState.step (st : UState) : UriOp → Option UState
  | .parse host uri => some (UState.ofParse host uri)
  | .setScheme b => some { st with u := { st.u with scheme := b.map toLower } }
  | .setHost b => some { st with u := { st.u with host := b.map toLower } }
  | .setPath b => some { st with u := { st.u with pathOriginal := b, path := normalizePath b } }
  | .setHash b => some { st with u := { st.u with hash := b } }
  | .setQueryString b => some { st with u := { st.u with query := b }, parsed := false }
  | .setUsername b => some { st with u := { st.u with username := b } }
  | .setPassword b => some { st with u := { st.u with password := b } }
  | .args op => some { st.parseQA with args := argStep st.parseQA.args op }
  | .update b => st.update b
  | .reset => some {}

/-- run a program on a reset URI; `none` = a panic on the way -/
def runUriOps (ops : List UriOp) : Option UState := ops.foldlM UState.step {}

/-- The two situations in which flag and list disagree with the other field: the arguments were used and then a new query
string was set (`SetQueryString`, `Update("?…")`) - old arguments are still in the list, flag clear; or the arguments were
parsed and all deleted - the old query string is still there, flag set.  Before /repo 97b0e80 `FullURI()` wrote the OLD
arguments resp. the OLD query string here; now it writes what `QueryArgs()` reports (`uri_program_roundtrip` holds in these
states too).  No longer a finding class: used by the driver as a branch tag only (the states must keep being reached). -/
def UState.staleQuery (st : UState) : Bool :=
  (!st.parsed && !st.args.isEmpty) || (st.parsed && st.args.isEmpty && !st.u.query.isEmpty)

/-- `URI.LastPathSegment()` -/
def URI.lastPathSegment (u : URI) : Bytes :=
  match lastIndexOf 47 u.pathOrSlash with
  | none => u.pathOrSlash
  | some n => u.pathOrSlash.drop (n + 1)

end Hertz.Uri
