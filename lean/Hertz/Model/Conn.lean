import Hertz.Basic
/-!
Model of the buffered connection `pkg/network/standard` (`connection.go`, `buffer.go`) and of
`pkg/network/writer.go` (`networkWriter`), function by function.

* A `linkBufferNode` is a `Node`: `data` is `buf[0:malloc]` (so `malloc = data.length`), `cap` is
  `cap(buf)`, `off` the read offset.  `id` is the identity of the memory block (ghost, used for the
  peek-stability theorem only).
* The input `linkBuffer` is a zipper over the node chain `head … read … write`:
  `done` = nodes strictly before `read`, `mid` = nodes from `read` up to but excluding `write`,
  `w` = the tail node `write`.  `read` is the first node of `mid ++ [w]`.
* The wire (`net.Conn.Read`) is a script of events; `Conn.Read(p)` semantics is `connRead`.
* Whatever would panic in Go (nil node dereference when a walk runs off the chain, slicing beyond
  capacity) or spin forever (`fill` calling `Read` with an empty buffer while still needing bytes)
  is an explicit `Fault`, never totalised away.
Sizes are `Nat`: every public entry point is modelled for `n ≥ 0` only (see INTEGRATION notes).
-/
namespace Hertz.Conn

/-- error classes: `0` = the reader's own "skip not enough" error, `1` = `io.EOF`, others = scripted wire errors -/
abbrev Err := Nat
def errSkip : Err := 0
def errEOF : Err := 1

inductive Fault
  | nilDeref (site : String)
  | sliceBounds (site : String)
  | hang (site : String)
  deriving Repr, DecidableEq

/-! ## constants of `connection.go` / `writer.go` (pinned to the source by `Proofs/Conn.lean:model_matches_gen`) -/
def block1k : Nat := 1024
def block4k : Nat := 4096
def block8k : Nat := 8192
def mallocMax : Nat := 524288
def defaultMallocSize : Nat := 4096
def size4K : Nat := 4096

/-! ## `mcache.Malloc`: capacity is the next power of two (`calcIndex`), 1 for size 0 -/
def pow2ceilAux : Nat → Nat → Nat → Nat
  | 0, p, _ => p
  | f + 1, p, n => if n ≤ p then p else pow2ceilAux f (2 * p) n

def pow2ceil (n : Nat) : Nat := pow2ceilAux 64 1 n

/-- `cap(malloc(size, size))` of `buffer.go` -/
def capOf (size : Nat) : Nat := if size > mallocMax then size else pow2ceil size

structure Node where
  id : Nat
  cap : Nat
  data : Bytes := []
  off : Nat := 0
  readOnly : Bool := false
  deriving Repr, DecidableEq

/-- `linkBufferNode.Len` -/
def Node.len (b : Node) : Nat := b.data.length - b.off
/-- the bytes `buf[off:malloc]` -/
def Node.unread (b : Node) : Bytes := b.data.drop b.off
/-- `linkBufferNode.Reset` -/
def Node.reset (b : Node) : Node := { b with data := [], off := 0, readOnly := false }
/-- `linkBufferNode.recyclable` -/
def Node.recyclable (b : Node) : Bool := decide (b.cap ≤ block8k) && !b.readOnly
/-- `newBufferNode(size)` -/
def newNode (size id : Nat) : Node := { id := id, cap := capOf size }

/-! ## the wire -/

/-- one scripted behaviour of `net.Conn.Read`: deliver `d` (in pieces if the caller's buffer is
smaller), the error `e` (if any) comes together with the last piece; `d = []` is a read returning
`(0, e)` (or `(0, nil)`).  After the script: `(0, io.EOF)` forever. -/
inductive Ev
  | data (d : Bytes) (e : Option Err)
  deriving Repr, DecidableEq

abbrev Wire := List Ev

/-- `c.c.Read(p)` with `len(p) = room` -/
def connRead : Wire → Nat → (Bytes × Option Err) × Wire
  | [], _ => (([], some errEOF), [])
  | .data d e :: t, room =>
    if d.length ≤ room then ((d, e), t) else ((d.take room, none), .data (d.drop room) e :: t)

/-- all bytes still on the wire -/
def wireBytes : Wire → Bytes
  | [] => []
  | .data d _ :: t => d ++ wireBytes t

/-! ## reader -/

structure Reader where
  done : List Node := []
  mid : List Node := []
  w : Node
  len : Nat := 0
  maxSize : Nat
  err : Option Err := none
  /-- block ids of the copies handed out by cross-node `Peek` (`c.caches`) -/
  caches : List Nat := []
  nextId : Nat
  deriving Repr, DecidableEq

/-- `newConn(c, size)`, input side -/
def Reader.new (size : Nat) : Reader :=
  let maxSize := if size > defaultMallocSize then size else defaultMallocSize
  { w := newNode maxSize 0, maxSize := maxSize, nextId := 1 }

/-- the chain from `read` to `write` -/
def Reader.cur (s : Reader) : List Node := s.mid ++ [s.w]
def Reader.nodes (s : Reader) : List Node := s.done ++ s.mid ++ [s.w]
/-- the node `read` points to (never nil in this representation) -/
def Reader.readNode (s : Reader) : Node :=
  match s.mid with
  | [] => s.w
  | nd :: _ => nd
/-- buffered but unconsumed bytes -/
def Reader.unread (s : Reader) : Bytes := s.cur.flatMap Node.unread

inductive FillEnd
  | ok
  | stash (e : Err)
  | fail (e : Err)
  | hang
  deriving Repr, DecidableEq

/-- `d` was appended to the write node before the rest of the loop ran -/
def prependBytes {α : Type} (d : Bytes) (r : Bytes × α) : Bytes × α := (d ++ r.1, r.2)

/-- the `for i > 0 { n, err := c.c.Read(buf[malloc:]) … }` loop of `fill`; `need` is `i`,
`room` is `len(buf[malloc:])`.  Returns the bytes appended to the write node. -/
def fillLoop : Wire → Nat → Nat → Bytes × FillEnd × Wire
  | w, 0, _ => ([], .ok, w)
  | [], _ + 1, _ => ([], .fail errEOF, [])
  | .data d e :: t, need + 1, room =>
    if d.length ≤ room then
      if d.length > 0 then
        match e with
        | some e => (d, .stash e, t)
        | none => prependBytes d (fillLoop t (need + 1 - d.length) (room - d.length))
      else
        match e with
        | some e => ([], .fail e, t)
        | none => fillLoop t (need + 1) room
    else if room = 0 then
      -- Read(empty buffer) returns (0, nil) and the loop condition still holds: spins forever
      ([], .hang, .data d e :: t)
    else if need + 1 ≤ room then
      (d.take room, .ok, .data (d.drop room) e :: t)
    else
      -- buffer full, still `i > 0`: the next iteration calls Read with an empty buffer
      (d.take room, .hang, .data (d.drop room) e :: t)

/-- `Conn.fill(i)`; the first component is the returned error -/
def fill (s : Reader) (wire : Wire) (i : Nat) : Except Fault (Option Err × Reader × Wire) :=
  if s.len ≥ i then pure (none, s, wire)
  else
    match s.err with
    | some e =>
      -- readErr() cleared c.err
      if s.len > 0 then pure (none, { s with err := some e }, wire)
      else pure (some e, { s with err := none }, wire)
    | none =>
      let node := s.w
      let left := node.cap - node.data.length
      let s1 : Reader :=
        if left < i - s.len || node.readOnly then
          let malloc := if i < s.maxSize then s.maxSize else i
          { s with mid := s.mid ++ [{ node with readOnly := false }], w := newNode malloc s.nextId,
                   nextId := s.nextId + 1 }
        else s
      let need := i - s1.len
      let room := s1.w.cap - s1.w.data.length
      let r := fillLoop wire need room
      let s2 : Reader := { s1 with w := { s1.w with data := s1.w.data ++ r.1 }, len := s1.len + r.1.length }
      match r.2.1 with
      | .ok => pure (none, s2, r.2.2)
      | .stash e => pure (none, { s2 with err := some e }, r.2.2)
      | .fail e => pure (some e, s2, r.2.2)
      | .hang => throw (.hang "fill: Read with empty buffer while i > 0")

/-- `Conn.peekBuffer(i, buf)`: the bytes copied into `buf[0:i]`, walking from `read` -/
def peekWalk : List Node → Nat → Except Fault Bytes
  | _, 0 => pure []
  | [], _ + 1 => throw (.nilDeref "peekBuffer: node.next is nil")
  | nd :: rest, ack + 1 =>
    if nd.len ≥ ack + 1 then pure (nd.unread.take (ack + 1))
    else do
      let r ← peekWalk rest (ack + 1 - nd.len)
      pure (nd.unread ++ r)

/-- `Conn.Peek(i)`: returned slice, returned error, new state -/
def peek (s : Reader) (wire : Wire) (i : Nat) : Except Fault (Bytes × Option Err × Reader × Wire) := do
  let (e, s1, w1) ← fill s wire i
  match e with
  | some e => pure ([], some e, s1, w1)
  | none =>
    let short := s1.len < i
    let i' := if short then s1.len else i
    let err := if short then s1.err else none
    let s2 : Reader := if short then { s1 with err := none } else s1
    let node := s2.readNode
    if node.len ≥ i' then pure (node.unread.take i', err, s2, w1)
    else
      let s3 : Reader :=
        if block1k < i' && i' ≤ mallocMax then
          { s2 with caches := s2.caches ++ [s2.nextId], nextId := s2.nextId + 1 }
        else s2
      let p ← peekWalk s3.cur i'
      pure (p, err, s3, w1)

/-- the loop of `Conn.Skip`, moving `read` along the chain -/
def skipWalk : List Node → List Node → Node → Nat → Except Fault (List Node × List Node × Node)
  | done, mid, w, 0 => pure (done, mid, w)
  | done, [], w, ack + 1 =>
    if w.len ≥ ack + 1 then pure (done, [], { w with off := w.off + (ack + 1) })
    else throw (.nilDeref "Skip: read.next is nil")
  | done, nd :: mid, w, ack + 1 =>
    if nd.len ≥ ack + 1 then pure (done, { nd with off := nd.off + (ack + 1) } :: mid, w)
    else skipWalk (done ++ [nd]) mid w (ack + 1 - nd.len)

/-- `Conn.Skip(n)`: `some errSkip` when not enough is buffered -/
def skip (s : Reader) (n : Nat) : Except Fault (Option Err × Reader) :=
  if s.len < n then pure (some errSkip, s)
  else do
    let (done, mid, w) ← skipWalk s.done s.mid s.w n
    pure (none, { s with done := done, mid := mid, w := w, len := s.len - n })

def clampMax (maxSize size : Nat) : Nat :=
  let size := if size > mallocMax then mallocMax else size
  if size > maxSize then size else maxSize

/-- the general path of `Release` (data left, or more than two nodes) -/
def releaseGeneral (s : Reader) : Reader :=
  let size :=
    match s.done with
    | _ :: rest => ((rest ++ [s.readNode]).map (fun nd => nd.data.length)).sum
    | [] => 0
  { s with done := [], w := { s.w with readOnly := true }, maxSize := clampMax s.maxSize size, caches := [] }

/-- `Release` when `head.next == write` and nothing is buffered (with `handleTail`) -/
def releaseTwo (s : Reader) (h : Node) : Reader :=
  let maxSize := clampMax s.maxSize (h.data.length + s.w.data.length)
  if s.w.cap > mallocMax then
    { s with done := [], mid := [], w := newNode maxSize s.nextId, nextId := s.nextId + 1,
             maxSize := maxSize, caches := [] }
  else
    { s with done := [], mid := [], w := s.w.reset, maxSize := maxSize, caches := [] }

/-- `Conn.Release()` (always returns nil) -/
def release (s : Reader) : Reader :=
  if s.len = 0 then
    match s.done, s.mid with
    | [], [] => { s with w := s.w.reset }
    | [h], [] => releaseTwo s h
    | [], [h] => releaseTwo s h
    | _, _ => releaseGeneral s
  else releaseGeneral s

/-- `Conn.next(length, b)`: bytes copied to `b[0:length]`, error -/
def next (s : Reader) (l : Nat) : Except Fault (Bytes × Option Err × Reader) := do
  let p ← peekWalk s.cur l
  let (e, s1) ← skip s l
  match e with
  | some e => pure (p, some e, s1)
  | none => pure (p, none, release s1)

inductive Op
  | peek (n : Nat)
  | skip (n : Nat)
  | readByte
  | readBinary (n : Nat)
  /-- `Read(b)` with `len(b) = n` -/
  | read (n : Nat)
  | release
  | len
  deriving Repr, DecidableEq

structure Out where
  bytes : Bytes := []
  err : Option Err := none
  /-- `Len()` right after the operation -/
  len : Nat
  deriving Repr, DecidableEq

def step (s : Reader) (wire : Wire) : Op → Except Fault (Out × Reader × Wire)
  | .peek n => do
    let (p, e, s1, w1) ← peek s wire n
    pure ({ bytes := p, err := e, len := s1.len }, s1, w1)
  | .skip n => do
    let (e, s1) ← skip s n
    pure ({ err := e, len := s1.len }, s1, wire)
  | .readByte => do
    let (p, e, s1, w1) ← peek s wire 1
    match e with
    | some e => pure ({ err := some e, len := s1.len }, s1, w1)
    | none =>
      let (e2, s2) ← skip s1 1
      match e2 with
      | some e2 => pure ({ err := some e2, len := s2.len }, s2, w1)
      | none =>
        match p with
        | [] => throw (.sliceBounds "ReadByte: b[0]")
        | b :: _ => pure ({ bytes := [b], len := s2.len }, s2, w1)
  | .readBinary n => do
    let (p, e, s1, w1) ← peek s wire n
    match e with
    | some e => pure ({ err := some e, len := s1.len }, s1, w1)
    | none =>
      let (e2, s2) ← skip s1 n
      -- out := make([]byte, n); copy(out, p)
      pure ({ bytes := p ++ List.replicate (n - p.length) 0, err := e2, len := s2.len }, s2, w1)
  | .read k =>
    if s.len > 0 then do
      let l := min s.len k
      let (p, e, s1) ← next s l
      pure ({ bytes := p, err := e, len := s1.len }, s1, wire)
    else if k ≤ block4k then do
      let (e, s1, w1) ← fill s wire 1
      match e with
      | some e => pure ({ err := some e, len := s1.len }, s1, w1)
      | none =>
        let l := min s1.len k
        let (p, e, s2) ← next s1 l
        pure ({ bytes := p, err := e, len := s2.len }, s2, w1)
    else
      let r := connRead wire k
      pure ({ bytes := r.1.1, err := r.1.2, len := s.len }, s, r.2)
  | .release => pure ({ len := (release s).len }, release s, wire)
  | .len => pure ({ len := s.len }, s, wire)

/-- run a whole operation sequence -/
def run (s : Reader) (wire : Wire) : List Op → Except Fault (List Out × Reader × Wire)
  | [] => pure ([], s, wire)
  | op :: ops => do
    let (o, s1, w1) ← step s wire op
    let (os, s2, w2) ← run s1 w1 ops
    pure (o :: os, s2, w2)

/-! ## writer side of `standard.Conn` -/

structure Writer where
  /-- nodes from `head` up to but excluding `write` -/
  pre : List Node := []
  w : Node
  /-- `outputBuffer.len`: room left in the write node -/
  len : Nat := 0
  nextId : Nat
  deriving Repr, DecidableEq

/-- `newConn`, output side: `newBufferNode(0)` -/
def Writer.new : Writer := { w := newNode 0 0, nextId := 1 }

/-- bytes accepted but not yet sent -/
def Writer.pending (s : Writer) : Bytes := (s.pre ++ [s.w]).flatMap Node.unread

/-- `Malloc(len(bs))` followed by the caller filling the returned slice with `bs` -/
def wmalloc (s : Writer) (bs : Bytes) : Except Fault Writer :=
  let n := bs.length
  if n = 0 then pure s
  else if s.len > n then
    if s.w.data.length + n > s.w.cap then throw (.sliceBounds "Malloc: node.buf[:node.malloc]")
    else pure { s with w := { s.w with data := s.w.data ++ bs }, len := s.len - n }
  else
    let mallocSize := if n < defaultMallocSize then defaultMallocSize else n
    let node : Node := { newNode mallocSize s.nextId with data := bs }
    pure { s with pre := s.pre ++ [s.w], w := node, len := node.cap - n, nextId := s.nextId + 1 }

/-- `WriteBinary(bs)`; returns the byte count -/
def wwriteBinary (s : Writer) (bs : Bytes) : Except Fault (Nat × Writer) :=
  if bs.length < block4k then do
    let s1 ← wmalloc s bs
    pure (bs.length, s1)
  else
    let node : Node := { id := s.nextId, cap := bs.length, data := bs, readOnly := true }
    pure (bs.length, { s with pre := s.pre ++ [s.w], w := node, len := 0, nextId := s.nextId + 1 })

/-- the script of `net.Conn.Write`: one entry per call, `true` = fails with `(0, err)`;
exhausted = succeeds -/
abbrev WScript := List Bool

def wscriptNext : WScript → Bool × WScript
  | [] => (false, [])
  | b :: t => (b, t)

/-- `d` went to the peer before the rest of the loop ran -/
def prependSent {α : Type} (d : Bytes) (r : Bool × Bytes × α) : Bool × Bytes × α := (r.1, d ++ r.2.1, r.2.2)

/-- the `for { … }` loop of `Flush` from `head`; returns (failed?, bytes sent, new pre, new w, new len, script) -/
def flushLoop : List Node → Node → Nat → WScript → Bool × Bytes × List Node × Node × Nat × WScript
  | [], w, len, sc =>
    let (f, sc') := wscriptNext sc
    if f then (true, [], [], w, len, sc')
    else
      let w1 := { w with off := w.off + w.unread.length }
      if w1.recyclable then (false, w.unread, [], w1.reset, w1.cap, sc')
      else (false, w.unread, [], w1, len, sc')
  | h :: pre, w, len, sc =>
    let (f, sc') := wscriptNext sc
    if f then (true, [], h :: pre, w, len, sc')
    else prependSent h.unread (flushLoop pre w len sc')

/-- `Flush()`: (failed?, bytes handed to the peer, state, script) -/
def wflush (s : Writer) (sc : WScript) : Bool × Bytes × Writer × WScript :=
  match s.pre with
  | [] =>
    if s.w.len = 0 then (false, [], s, sc)
    else
      let r := flushLoop [] s.w s.len sc
      (r.1, r.2.1, { s with pre := r.2.2.1, w := r.2.2.2.1, len := r.2.2.2.2.1 }, r.2.2.2.2.2)
  | h :: pre =>
    -- `if head.Len() == 0 { head = head.next }`
    let pre' := if h.len = 0 then pre else h :: pre
    let r := flushLoop pre' s.w s.len sc
    (r.1, r.2.1, { s with pre := r.2.2.1, w := r.2.2.2.1, len := r.2.2.2.2.1 }, r.2.2.2.2.2)

inductive WOp
  | malloc (bs : Bytes)
  | writeBinary (bs : Bytes)
  | flush
  deriving Repr, DecidableEq

/-- what a write op reports: `n` (bytes accepted, or failure flag for flush), and the bytes the peer got -/
structure WOut where
  n : Nat := 0
  failed : Bool := false
  sent : Bytes := []
  deriving Repr, DecidableEq

def wstep (s : Writer) (sc : WScript) : WOp → Except Fault (WOut × Writer × WScript)
  | .malloc bs => do
    let s1 ← wmalloc s bs
    pure ({ n := bs.length }, s1, sc)
  | .writeBinary bs => do
    let (n, s1) ← wwriteBinary s bs
    pure ({ n := n }, s1, sc)
  | .flush =>
    let r := wflush s sc
    pure ({ failed := r.1, sent := r.2.1 }, r.2.2.1, r.2.2.2)

def wrun (s : Writer) (sc : WScript) : List WOp → Except Fault (List WOut × Writer × WScript)
  | [] => pure ([], s, sc)
  | op :: ops => do
    let (o, s1, sc1) ← wstep s sc op
    let (os, s2, sc2) ← wrun s1 sc1 ops
    pure (o :: os, s2, sc2)

/-! ## `network.networkWriter` (`pkg/network/writer.go`) -/

structure NwNode where
  data : Bytes
  cap : Nat
  readOnly : Bool := false
  deriving Repr, DecidableEq

structure NetWriter where
  caches : List NwNode := []
  deriving Repr, DecidableEq

def nwAppendLast : List NwNode → Bytes → Option (List NwNode)
  | [], _ => none
  | [n], bs => if !n.readOnly && n.cap - n.data.length ≥ bs.length then some [{ n with data := n.data ++ bs }] else none
  | n :: m :: t, bs => (nwAppendLast (m :: t) bs).map (n :: ·)

/-- `networkWriter.Malloc(len(bs))` + fill -/
def nwMalloc (s : NetWriter) (bs : Bytes) : NetWriter :=
  match nwAppendLast s.caches bs with
  | some c => { caches := c }
  | none => { caches := s.caches ++ [{ data := bs, cap := pow2ceil bs.length }] }

def nwWriteBinary (s : NetWriter) (bs : Bytes) : NetWriter :=
  if bs.length < size4K then nwMalloc s bs
  else { caches := s.caches ++ [{ data := bs, cap := bs.length, readOnly := true }] }

def nwFlushLoop : List NwNode → WScript → Bool × Bytes × WScript
  | [], sc => (false, [], sc)
  | n :: t, sc =>
    let (f, sc') := wscriptNext sc
    if f then (true, [], sc')
    else prependSent n.data (nwFlushLoop t sc')

/-- `networkWriter.Flush()`: everything is released whatever the outcome -/
def nwFlush (s : NetWriter) (sc : WScript) : Bool × Bytes × NetWriter × WScript :=
  let r := nwFlushLoop s.caches sc
  (r.1, r.2.1, {}, r.2.2)

def nwStep (s : NetWriter) (sc : WScript) : WOp → WOut × NetWriter × WScript
  | .malloc bs => ({ n := bs.length }, nwMalloc s bs, sc)
  | .writeBinary bs => ({ n := bs.length }, nwWriteBinary s bs, sc)
  | .flush =>
    let r := nwFlush s sc
    ({ failed := r.1, sent := r.2.1 }, r.2.2.1, r.2.2.2)

def nwRun (s : NetWriter) (sc : WScript) : List WOp → List WOut × NetWriter × WScript
  | [] => ([], s, sc)
  | op :: ops =>
    let r := nwStep s sc op
    let r2 := nwRun r.2.1 r.2.2 ops
    (r.1 :: r2.1, r2.2)

end Hertz.Conn
