import Hertz.Model.Http1.Body
/-!
Model of the keep-alive loop `pkg/protocol/http1/server.go:Server.Serve` (buffered request bodies),
with `req.ReadHeader`, `req.ReadLimitBody/ContinueReadBody`, the error classification of
`defaultErrorHandler`, `Expect: 100-continue`, and the connection-close decision.

Inbound bytes are one stream `s` (see `Body.lean`); the handler is the harness's echo middleware: it
records what it sees and answers 200.  Outputs are the events a peer / the handler can observe.
-/
namespace Hertz.H1
open Hertz Hertz.Gen.Str

structure Cfg where
  disableNorm : Bool := false
  maxBody : Nat := 4194304
  disableKeepalive : Bool := false
  /-- `!DisablePreParseMultipartForm` -/
  preParse : Bool := false
deriving Repr

/-- what the handler observes of one request -/
structure Seen where
  head : ReqHead
  body : Bytes
  trailers : List (Bytes × Bytes)
deriving Repr, DecidableEq

inductive Ev where
  | unmodelled        -- from here on the model has no opinion (multipart pre-parse by mime/multipart)
  | continue100
  | req (s : Seen)
  | resp (status : Nat) (close : Bool)
deriving Repr, DecidableEq

def appendUintDec (n : Nat) : Bytes := (toString n).toUTF8.toList

def isGetOrHead (hd : ReqHead) : Bool := hd.method == strGet || hd.method == strHead

/-- `Request.MayContinue` -/
def mayContinue (hd : ReqHead) : Bool :=
  (match hd.h.find? (fun kv => kv.1 == strExpect) with
   | some kv => kv.2
   | none => []) == str100Continue

/-- `RequestHeader.SetContentLength(n)` for `n ≥ 0` -/
def setContentLength (hd : ReqHead) (n : Nat) : ReqHead :=
  { hd with cl := n, clBytes := appendUintDec n, h := hd.h.filter (fun kv => kv.1 != strTransferEncoding) }

inductive BodyRes where
  | ok (hd : ReqHead) (body : Bytes) (trailers : List (Bytes × Bytes)) (rest : Bytes)
  | err (e : RdErr)

def filledTrailers (tr : List (Bytes × Option Bytes)) : List (Bytes × Bytes) :=
  tr.map (fun kv => (kv.1, kv.2.getD []))

/-- `ext.ReadTrailer` as used by `ContinueReadBody` (EOF is tolerated by the caller) -/
def readTrailerReq (cfg : Cfg) (e : End) (names : List Bytes) (s : Bytes) :
    Except RdErr (Option (List (Bytes × Bytes)) × Bytes) :=
  let tr0 : List (Bytes × Option Bytes) := names.map (fun k => (k, none))
  if s.isEmpty then
    match e with
    | .eof => .ok (none, s)        -- io.EOF: `ReadTrailer` resets the trailer; the caller tolerates EOF
    | .stall => .error .hzTimeout
  else
    match parseTrailer cfg.disableNorm tr0 s with
    | .ok (tr, n) => .ok (some (filledTrailers tr), s.drop n)
    | .error .bad => .error .bad
    | .error .needMore =>
      match e with
      | .eof => .ok (none, s)    -- trailer reset, io.EOF tolerated, nothing discarded from the reader
      | .stall => .error .hzTimeout

/-- `req.ContinueReadBody` -/
def continueReadBody (cfg : Cfg) (e : End) (hd : ReqHead) (s : Bytes) : BodyRes :=
  let names := hd.trailer
  if hd.cl > 0 then
    let n := hd.cl.toNat
    if cfg.maxBody > 0 ∧ n > cfg.maxBody then .err .tooLarge
    else if cfg.preParse && mIMEFormData.isPrefixOf hd.contentType then .err .unmodelled
    else match takeN e n s with
      | .ok (b, rest) => .ok hd b (names.map (fun k => (k, []))) rest
      | .error x => .err x
  else if hd.cl = -2 then
    .ok (if isGetOrHead hd then hd else setContentLength hd 0) [] (names.map (fun k => (k, []))) s
  else if hd.cl = -1 then
    match readBodyChunked e cfg.maxBody (s.length + 1) [] s with
    | .error x => .err x
    | .ok (body, rest) =>
      match readTrailerReq cfg e names rest with
      | .error x => .err x
      | .ok (some tr, rest') => .ok (setContentLength hd body.length) body tr rest'
      | .ok (none, rest') => .ok (setContentLength { hd with trailer := [] } body.length) body [] rest'
  else -- cl = 0
    .ok (setContentLength hd 0) [] (names.map (fun k => (k, []))) s

/-- status written by `writeErrorResponse`, or `none` when the connection is closed silently -/
def errStatus : RdErr → Option Nat
  | .eof => none              -- `err == io.EOF` ⇒ `return errUnexpectedEOF`, nothing written
  | .timeout => some 408
  | .tooLarge => some 413
  | .unexpectedEOF => some 400
  | .unmodelled => none
  | .hzTimeout => some 400     -- not a net.Error: classified as a parse error
  | .bad => some 400

/-- One connection. `fuel` bounds the number of requests (`s.length + 1` suffices). -/
def serveLoop (cfg : Cfg) (e : End) : Nat → Bool → Bytes → List Ev
  | 0, _, _ => []
  | fuel + 1, first, s =>
    -- idle wait between requests: `zr.Peek(4)`
    if !first && s.length < 4 then [] else
    match parseReqHead cfg.disableNorm s with
    | .error .bad => [.resp 400 true]
    | .error .needMore =>
      if s.isEmpty then
        match e with
        | .eof => []                -- ErrNothingRead: clean close
        | .stall => [.resp 408 true]
      else
        match e with
        | .eof => [.resp 400 true]  -- errEOFReadHeader
        | .stall => [.resp 408 true]
    | .ok (hd, n) =>
      let s1 := s.drop n
      let cont := mayContinue hd
      let pre : List Ev := if cont then [.continue100] else []
      match continueReadBody cfg e hd s1 with
      | .err .unmodelled => pre ++ [.unmodelled]
      | .err x =>
        -- after `100 Continue` every body error is answered (no io.EOF special case on that path)
        pre ++ (match errStatus x with
                | some st => [.resp st true]
                | none => if cont then [.resp 400 true] else [])
      | .ok hd' body tr rest =>
        let close := cfg.disableKeepalive || hd'.connClose
        pre ++ [.req { head := hd', body := body, trailers := tr }, .resp 200 close] ++
          (if close then [] else serveLoop cfg e fuel false rest)

def serve (cfg : Cfg) (e : End) (s : Bytes) : List Ev := serveLoop cfg e (s.length + 1) true s

end Hertz.H1
