import Hertz.Model.Http1.Serve
/-!
Model of the client's response reader: `resp.parseFirstLine`, `resp.parseHeaders`, `resp.ReadHeader`
(retry loop), `resp.ReadHeaders` (interim responses skipped), `resp.ReadRespBody`,
`ext.ReadBody` incl. `readBodyIdentity`.
-/
namespace Hertz.H1.RespRead
open Hertz Hertz.H1 Hertz.Gen.Str

structure RespHead where
  status : Nat := 0
  http11 : Bool := true
  contentType : Bytes := []
  contentEncoding : Bytes := []
  server : Bytes := []
  cl : Int := -2
  clBytes : Bytes := []
  connClose : Bool := false
  h : List (Bytes × Bytes) := []
  cookies : List Bytes := []
  trailer : List Bytes := []
deriving Repr, DecidableEq

def parseFirstLine (buf : Bytes) : Except HeadErr (RespHead × Nat) := do
  let (line, consumed) ← parseFirstLineAux (buf.length + 1) buf 0
  match indexByte 32 line with
  | none => .error .bad
  | some n =>
    let http11 := line.take n == strHTTP11
    let b := line.drop (n + 1)
    match parseUintBuf b with
    | .error _ => .error .bad
    | .ok (code, k) =>
      if b.length > k ∧ (b.drop k).head? ≠ some 32 then .error .bad
      else .ok ({ status := code, http11 := http11 }, consumed)

/-- `ResponseHeader.MustSkipContentLength` -/
def mustSkipCL (status : Nat) : Bool :=
  if status < 100 || status == 200 then false else status == 304 || status == 204 || status < 200

structure HState where
  head : RespHead
  err : Bool := false

def applyHeader (disableNorm : Bool) (st : HState) (key value : Bytes) : HState :=
  let hd := st.head
  match key with
  | [] => st            -- `if len(s.Key) > 0` : an empty key is skipped entirely
  | k0 :: _ =>
    let c := k0 ||| 0x20
    let add : HState := { st with head := { hd with h := hd.h ++ [(key, value)] } }
    if c = 99 ∧ ciEq key strContentType then { st with head := { hd with contentType := value } }
    else if c = 99 ∧ ciEq key strContentEncoding then { st with head := { hd with contentEncoding := value } }
    else if c = 99 ∧ ciEq key strContentLength then
      if hd.cl != -1 then
        match parseUint value with
        | none => { err := true, head := { hd with cl := -2 } }
        | some v => { err := false, head := { hd with cl := v, clBytes := value } }
      else st
    else if c = 99 ∧ ciEq key strConnection then
      if ciEq value strClose then { st with head := { hd with connClose := true } }   -- any letter case
      else { st with head := { hd with connClose := false, h := hd.h ++ [(key, value)] } }
    else if c = 115 ∧ ciEq key strServer then { st with head := { hd with server := value } }
    else if c = 115 ∧ ciEq key strSetCookie then { st with head := { hd with cookies := hd.cookies ++ [value] } }
    else if c = 116 ∧ ciEq key strTransferEncoding then
      if value != strIdentity then
        { st with head := { hd with cl := -1, h := setArg hd.h strTransferEncoding strChunked } }
      else st
    else if c = 116 ∧ ciEq key strTrailer then
      let (names, bad) := setTrailers disableNorm value
      { err := bad, head := { hd with trailer := hd.trailer ++ names } }   -- fields combine (117944e)
    else add

def headersLoop (disableNorm : Bool) : Nat → Bytes → HState → Nat → Except HeadErr (HState × Nat)
  | 0, _, _, _ => .error .needMore
  | fuel + 1, B, st, hlen =>
    match scanNext disableNorm B with
    | .fin n => .ok (st, hlen + n)
    | .needMore => .error .needMore
    | .invalidName => .error .bad
    | .kv key value rest n => headersLoop disableNorm fuel rest (applyHeader disableNorm st key value) (hlen + n)

def connectionUpgrade (hd : RespHead) : Bool :=
  hasHeaderValue (if hd.connClose then strClose else peekArg hd.h strConnection) strKeepAlive

def parseHeaders (disableNorm : Bool) (hd : RespHead) (buf : Bytes) : Except HeadErr (RespHead × Nat) := do
  let (st, n) ← headersLoop disableNorm (buf.length + 1) buf { head := { hd with cl := -2 } } 0
  let hd := st.head
  let hd := if hd.cl < 0 then { hd with clBytes := [] } else hd
  let hd := if hd.cl = -2 ∧ !connectionUpgrade hd ∧ !mustSkipCL hd.status then
      { hd with h := setArg hd.h strTransferEncoding strIdentity, connClose := true }
    else hd
  let hd := if !hd.http11 && !hd.connClose then
      { hd with connClose := !hasHeaderValue (peekArg hd.h strConnection) strKeepAlive }
    else hd
  -- the last `err` (bad Content-Length / bad Trailer declaration) is returned together with n
  if st.err then .error .bad else .ok (hd, n)

def parseRespHead (disableNorm : Bool) (buf : Bytes) : Except HeadErr (RespHead × Nat) := do
  let (hd, m) ← parseFirstLine buf
  let (hd, n) ← parseHeaders disableNorm hd (buf.drop m)
  .ok (hd, m + n)

inductive Err where
  | eof | timeout | bad | tooLarge | unexpectedEOF
deriving Repr, DecidableEq

def ofRd : RdErr → Err
  | .eof => .eof | .timeout => .timeout | .hzTimeout => .timeout | .unexpectedEOF => .unexpectedEOF
  | .bad => .bad | .tooLarge => .tooLarge | .unmodelled => .bad

/-- `resp.ReadHeader`: the retry loop over the received prefix (see C02) -/
def readHeader (disableNorm : Bool) (e : End) (s : Bytes) : Except Err (RespHead × Bytes) :=
  match parseRespHead disableNorm s with
  | .ok (hd, n) => .ok (hd, s.drop n)
  | .error .bad => .error .bad
  | .error .needMore =>
    match e with
    | .eof => .error .eof
    | .stall => .error .timeout

structure Result where
  head : RespHead
  body : Bytes
  trailers : List (Bytes × Bytes)
  rest : Bytes
deriving Repr, DecidableEq

/-- `readBodyIdentity`: everything until the wire ends -/
def readIdentity (maxBody : Nat) (s : Bytes) : Except Err (Bytes × Bytes) :=
  if maxBody > 0 ∧ s.length > maxBody then .error .tooLarge else .ok (s, [])

/-- `ResponseHeader.SetContentLength(n)` for `n ≥ 0` -/
def setContentLength (hd : RespHead) (n : Nat) : RespHead :=
  if mustSkipCL hd.status then hd else
  { hd with cl := n, clBytes := appendUintDec n, h := hd.h.filter (fun kv => kv.1 != strTransferEncoding) }

/-- `resp.isInterim`: the registered interim status codes (`101` is final for the connection) -/
def isInterim (status : Nat) : Bool := status == 100 || status == 102 || status == 103

/-- the loop of `resp.ReadHeaders` (8ec4dd8): `for isInterim(StatusCode()) { ReadHeader again }`; every head takes at
least one byte, so `fuel = length + 1` never runs out (`Proofs/PrefixStableResp.lean: readHeadersLoop_fuel`) -/
def readHeadersLoop (disableNorm : Bool) (e : End) : Nat → Bytes → Except Err (RespHead × Bytes)
  | 0, _ => .error .bad
  | fuel + 1, s =>
    match readHeader disableNorm e s with
    | .error x => .error x
    | .ok (hd0, s0) => if isInterim hd0.status then readHeadersLoop disableNorm e fuel s0 else .ok (hd0, s0)

/-- `resp.ReadHeaders`: every interim response (`100 Continue`, `102 Processing`, `103 Early Hints`) in front of the
final one is skipped; before 8ec4dd8 only ONE `100 Continue` was -/
def readHeaders (disableNorm : Bool) (e : End) (s : Bytes) : Except Err (RespHead × Bytes) :=
  readHeadersLoop disableNorm e (s.length + 1) s

/-- `resp.ReadRespBody` -/
def readBodyPart (disableNorm : Bool) (maxBody : Nat) (e : End) (hd : RespHead) (s1 : Bytes) : Except Err Result :=
  let names := hd.trailer
  let noTr := names.map (fun k => (k, ([] : Bytes)))
  if mustSkipCL hd.status then .ok { head := hd, body := [], trailers := noTr, rest := s1 }
  else if hd.cl ≥ 0 then
    let n := hd.cl.toNat
    if maxBody > 0 ∧ n > maxBody then .error .tooLarge
    else match takeBody e n s1 with
      | .ok (b, rest) => .ok { head := setContentLength hd b.length, body := b, trailers := noTr, rest }
      | .error x => .error (ofRd x)
  else if hd.cl = -1 then
    match readBodyChunked e maxBody (s1.length + 1) [] s1 with
    | .error x => .error (ofRd x)
    | .ok (body, rest) =>
      match readTrailerReq { disableNorm := disableNorm, maxBody := maxBody } e names rest with
      | .error x => .error (ofRd x)
      | .ok (some tr, rest') => .ok { head := setContentLength hd body.length, body, trailers := tr, rest := rest' }
      | .ok (none, rest') => .ok { head := setContentLength { hd with trailer := [] } body.length, body, trailers := [], rest := rest' }
  else
    match readIdentity maxBody s1 with
    | .error x => .error x
    | .ok (b, rest) => .ok { head := setContentLength hd b.length, body := b, trailers := noTr, rest }

/-- `resp.ReadHeaderAndLimitBody` -/
def readResponse (disableNorm : Bool) (maxBody : Nat) (e : End) (s : Bytes) : Except Err Result :=
  match readHeaders disableNorm e s with
  | .error x => .error x
  | .ok (hd, s1) => readBodyPart disableNorm maxBody e hd s1

/-- `resp.ReadHeaderAndLimitBody` on a `Response` whose `SkipBody` flag is set (the client sets it for a
HEAD request): `ReadRespBody` returns at once when `resp.MustSkipBody()` (= `SkipBody ||
MustSkipContentLength`).  With the flag off this is `readResponse`. -/
def readResponseSkip (skipBody : Bool) (disableNorm : Bool) (maxBody : Nat) (e : End) (s : Bytes) : Except Err Result :=
  match readHeaders disableNorm e s with
  | .error x => .error x
  | .ok (hd, s1) =>
    if skipBody then .ok { head := hd, body := [], trailers := hd.trailer.map (fun k => (k, ([] : Bytes))), rest := s1 }
    else readBodyPart disableNorm maxBody e hd s1

end Hertz.H1.RespRead
