import Hertz.Model.Http1.RespMsg
/-!
X04 — the write side of the keep-alive loop of `Server.Serve` (`pkg/protocol/http1/server.go`) for a LIST of
exchanges on one connection: per exchange the message (`H1.Resp.message`), the `Connection` decision
(`connectionClose = s.DisableKeepalive || ctx.Request.Header.ConnectionClose()`, `!s.Core.IsRunning()`,
`|| ctx.Response.ConnectionClose()`, then `SetCanonical(Connection, close)` / `(Connection, keep-alive)` for
HTTP/1.0), the error path of `writeResponse` (`if err = writeResponse(ctx, zw); err != nil { return }` — no
`zw.Flush()`), the hijack exit, and the bytes that reach the connection: the concatenation of the messages up to
and including the first exchange after which `Serve` leaves its loop.

What reaches the wire of a response whose body writer fails (`ext.WriteBodyFixedSize` → `utils.CopyZeroAlloc` →
`copyBuffer`: `standard.Conn` is an `io.ReaderFrom`, so `Conn.ReadFrom` runs): `ReadFrom` first flushes what
is buffered (the header block, written by `WriteHeader` just before), then reads the stream into the output
buffer and flushes only when the buffer is full (`bufNode.Cap() == 0`); `WriteBodyFixedSize` then returns the
"copied %d bytes … instead of %d" error, `Serve` returns without flushing, and the bytes still in the buffer
are never sent.  Hence: header block + the largest whole number of buffers (`cap` bytes each, 4096 here) of
the bytes the stream delivered.  The same for a stream that ends with a read error instead of `io.EOF`, and
for a reader that returns its last bytes together with `io.EOF` (both followed through `ReadFrom`: a non-EOF
error is returned as it is, `(n, io.EOF)` leaves the loop like `(0, io.EOF)`; the flush of a full buffer
happens at the top of the next iteration, before the read that reports the end).
-/
namespace Hertz.H1.RespSeq
open Hertz Hertz.Gen.Str Hertz.HW Hertz.H1.Resp

/-- the `Connection` field of the request as `RequestHeader.parseHeaders` treats it: the option `close`
in any letter case (`utils.CaseInsensitiveCompare` since 9dcdbe5; before it `Close` was `other`), a value with the element `keep-alive` (`ext.HasHeaderValue`,
case-insensitive), any other value, or no field -/
inductive ReqConn where
  | absent | close | keepAlive | other
deriving Repr, DecidableEq

/-- `RequestHeader.ConnectionClose()` after `parseHeaders`: `Connection: close`, or an HTTP/1.0 request
without `Connection: keep-alive` -/
def reqClose (http11 : Bool) (c : ReqConn) : Bool :=
  c == .close || (!http11 && c != .keepAlive)

/-- one request/response exchange as `Serve` sees it when the handler has returned -/
structure Exch where
  http11 : Bool
  reqConn : ReqConn
  isHead : Bool
  /-- the response header the header block is built from, before `Serve`'s `Connection` edit -/
  r : RespHdr
  p : Prog
  /-- `ctx.Response.ConnectionClose()` when the handler has returned (`ctx.SetConnectionClose()`; always
  true on the error path `writeErrorResponse`) -/
  respClose : Bool
  /-- `s.DisableKeepalive`, or `!s.Core.IsRunning()` after the handler (engine shutting down) -/
  srvClose : Bool := false
  /-- the hijacked chunked writer has sent the header block inside the handler, before `Serve` decides -/
  early : Bool := false
  /-- the handler installed a hijack handler (`ctx.Hijack`): `Serve` hands the connection over after the
  response and returns `errHijacked` -/
  hijack : Bool := false


/-- `connectionClose` of `Serve` when it reaches `writeResponse` -/
def closes (e : Exch) : Bool := e.srvClose || reqClose e.http11 e.reqConn || e.respClose

/-- the response header after `Serve`'s `Connection` edit (`ResponseHeader.setSpecialHeader` for the key
`Connection`: the value `close` sets the flag, any other value clears it and is stored as a generic field);
no edit reaches the wire when the hijacked writer has already sent the header block -/
def serveHdr (e : Exch) : RespHdr :=
  if e.early then e.r
  else if closes e then { e.r with connClose := true }
  else if !e.http11 then { e.r with connClose := false, h := setArgKV e.r.h strConnection strKeepAlive }
  else e.r

/-- `writeResponse` returned an error (body stream shorter than its declared length) -/
def failed (e : Exch) : Bool := (frame e.p e.isHead).failed

/-- the complete message of the exchange -/
def msg (e : Exch) : Bytes := message (serveHdr e) e.p e.isHead

/-- `standard.Conn.ReadFrom` followed by no `Flush`: the whole buffers of what the stream delivered -/
def flushedBody (cap : Nat) (sent : Bytes) : Bytes := sent.take (sent.length / cap * cap)

/-- what reaches the connection of a message whose body writer failed -/
def partialMsg (cap : Nat) (e : Exch) : Bytes :=
  (withFraming (serveHdr e) (frame e.p e.isHead).framing).bytes ++ flushedBody cap (frame e.p e.isHead).wire

/-- `Serve` leaves its loop after this exchange -/
def stops (e : Exch) : Bool := failed e || closes e || e.hijack

/-- every byte `Serve` puts on the connection for the pipelined exchanges `xs` (`cap` = size of the
connection's output buffer) -/
def wire (cap : Nat) : List Exch → Bytes
  | [] => []
  | e :: es =>
    if failed e then partialMsg cap e
    else if closes e || e.hijack then msg e
    else msg e ++ wire cap es

/-- the exchanges answered completely: up to and including the first one that ends the loop, without the
one whose writer failed -/
def answered : List Exch → List Exch
  | [] => []
  | e :: es =>
    if failed e then []
    else if closes e || e.hijack then [e]
    else e :: answered es

/-- the body the handler produced, as the peer must see it (`Proofs/RespMessage.lean` `payload` is this) -/
def payloadOf (p : Prog) (isHead : Bool) : Bytes :=
  if isHead || Spec.Resp.noBodyStatus p.status then [] else
  match p.body with
  | .bytes b => b
  | .stream d reads => if d ≥ 0 then takeStream d.toNat reads else reads.flatten
  | .limited l reads => takeStream l reads
  | .writer s => (s.filterMap (fun o => match o with | .write b => some b | .flush => none)).flatten

end Hertz.H1.RespSeq
