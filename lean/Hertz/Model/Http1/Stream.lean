import Hertz.Model.Http1.Serve
/-!
Model of request-body streaming: `ext.ReadBodyWithStreaming` (prefetch), `ext.bodyStream.Read`
(fixed length and chunked, after the two fixes), `ext.bodyStream.skipRest` / `ReleaseBodyStream`,
`req.ContinueReadBodyStream`, and the keep-alive loop of `Server.Serve` with `StreamRequestBody`.

The handler is the harness's consumer: it calls `Read` with a buffer of
`min(readSize, stopAfter - total)` bytes until it has `stopAfter` bytes, sees EOF, or gets an error.
-/
namespace Hertz.H1.Stream
open Hertz Hertz.H1 Hertz.Gen.Str

structure Consume where
  readSize : Nat
  stopAfter : Nat
deriving Repr

structure Got where
  bytes : Bytes
  eof : Bool := false
  err : Bool := false
deriving Repr, DecidableEq

/-- state of a chunked `bodyStream` -/
structure ChunkSt where
  s : Bytes            -- unread wire
  chunkLeft : Nat := 0
  chunkEOF : Bool := false

/-- the consumer loop over a chunked stream (`bodyStream.Read`, `contentLength == -1`) -/
def consumeChunked (cfg : Cfg) (e : End) (names : List Bytes) (c : Consume) :
    Nat → ChunkSt → Bytes → Got × ChunkSt
  | 0, st, acc => ({ bytes := acc, err := true }, st)
  | fuel + 1, st, acc =>
    if acc.length ≥ c.stopAfter then ({ bytes := acc }, st) else
    let p := min c.readSize (c.stopAfter - acc.length)
    if st.chunkEOF then ({ bytes := acc, eof := true }, st) else
    -- a new chunk header when the previous chunk is finished
    -- result: the state to read from, and whether this `Read` call already returned io.EOF
    let hdr : Except RdErr (ChunkSt × Bool) :=
      if st.chunkLeft = 0 then
        match parseChunkSize e st.s with
        | .error x => .error x
        | .ok (0, rest) =>
          match readTrailerReq cfg e names rest with
          | .ok (some _, rest') => .ok ({ s := rest', chunkLeft := 0, chunkEOF := true }, true)
          | .ok (none, rest') => .ok ({ s := rest', chunkLeft := 0, chunkEOF := false }, true)   -- io.EOF from ReadTrailer
          | .error x => .error x
        | .ok (n, rest) => .ok ({ s := rest, chunkLeft := n }, false)
      else .ok (st, false)
    match hdr with
    | .error _ => ({ bytes := acc, err := true }, st)
    | .ok (st1, eofNow) =>
      if eofNow then ({ bytes := acc, eof := true }, st1) else
      let b := min p st1.chunkLeft
      if st1.s.length < b then ({ bytes := acc, err := true }, st1)
      else
        let acc' := acc ++ st1.s.take b
        let st2 : ChunkSt := { s := st1.s.drop b, chunkLeft := st1.chunkLeft - b }
        if st2.chunkLeft = 0 then
          -- `SkipCRLF`
          if st2.s.take 2 = strCRLF then consumeChunked cfg e names c fuel { st2 with s := st2.s.drop 2 } acc'
          else ({ bytes := acc', err := true }, st2)
        else consumeChunked cfg e names c fuel st2 acc'

/-- `skipRest` for a chunked stream: position after the whole message if it can be drained.
`none` = the drain failed (malformed framing or the wire ended): the connection is closed.
Whether a *well-formed* remainder is drained or the connection closed depends on how much of it is
already buffered (`Skip` does not wait), so both are allowed; see `afterChunked`. -/
def drainChunked (cfg : Cfg) (e : End) : Nat → ChunkSt → Option Bytes
  | 0, _ => none
  | fuel + 1, st =>
    if st.chunkEOF then some st.s else
    if st.chunkLeft > 0 then
      if st.s.length < st.chunkLeft + 2 then none
      else if (st.s.drop st.chunkLeft).take 2 ≠ strCRLF then none
      else drainChunked cfg e fuel { s := st.s.drop (st.chunkLeft + 2), chunkLeft := 0 }
    else
      match parseChunkSize e st.s with
      | .error _ => none
      | .ok (0, rest) =>
        -- `SkipTrailer`: lines up to and including the empty line
        let rec skipTr : Nat → Bytes → Option Bytes
          | 0, _ => none
          | f + 1, s =>
            match Hertz.H1.indexByte 10 s with
            | none => none
            | some i =>
              if i = 0 then none
              else if s.take (i + 1) = strCRLF then some (s.drop (i + 1))
              else if (s.take i).getLast? = some 13 then skipTr f (s.drop (i + 1)) else none
        skipTr (rest.length + 1) rest
      | .ok (n, rest) =>
        if rest.length < n + 2 then none
        else if (rest.drop n).take 2 ≠ strCRLF then none
        else drainChunked cfg e fuel { s := rest.drop (n + 2), chunkLeft := 0 }

inductive After where
  | resync (rest : Bytes)      -- the next request is parsed from `rest`
  | closed
  | either (rest : Bytes)      -- drained or closed, depending on buffering
deriving Repr

structure ReqOut where
  head : ReqHead
  got : Got
  streamed : Bool
deriving Repr

inductive SEv where
  | continue100
  | req (r : ReqOut)
  | resp (status : Nat) (close : Bool)
  | maybeClosed            -- from here on the connection may have been closed instead
deriving Repr

/-- one request in streaming mode: `ContinueReadBodyStream` + handler + `ReleaseBodyStream` -/
def streamBody (cfg : Cfg) (e : End) (hd : ReqHead) (s : Bytes) (c : Consume) :
    Except RdErr (ReqOut × After) :=
  if hd.cl = -2 then
    .ok ({ head := if isGetOrHead hd then hd else setContentLength hd 0, got := { bytes := [] }, streamed := false }, .resync s)
  else if hd.cl = -1 then
    let (got, st) := consumeChunked cfg e hd.trailer c (c.stopAfter + s.length + 2) { s := s } []
    -- a failed `Read` is remembered (`readErr`): `ReleaseBodyStream` reports it and the connection closes
    let after := if got.err then After.closed else
      match drainChunked cfg e (s.length + 2) st with
      | none => After.closed
      | some rest => if st.chunkEOF then After.resync rest else After.either rest
    .ok ({ head := hd, got, streamed := true }, after)
  else
    let cl := hd.cl.toNat
    let pre := min cl (min cfg.maxBody Gen.maxContentLengthInStream.toNat)
    if s.length < pre then .error (match e with | .eof => .unexpectedEOF | .stall => .timeout)
    else
      let avail := min cl s.length
      let want := min c.stopAfter cl
      let got : Got :=
        if c.stopAfter = 0 then { bytes := [] }
        else if want ≤ avail then { bytes := s.take want, eof := c.stopAfter ≥ cl }
        else { bytes := s.take avail, err := true }
      .ok ({ head := hd, got, streamed := true }, if s.length ≥ cl then .resync (s.drop cl) else .closed)

def streamLoop (cfg : Cfg) (e : End) (c : Consume) : Nat → Bool → Bytes → List SEv
  | 0, _, _ => []
  | fuel + 1, first, s =>
    if !first && s.length < 4 then [] else
    match parseReqHead cfg.disableNorm s with
    | .error .bad => [.resp 400 true]
    | .error .needMore =>
      if s.isEmpty then (match e with | .eof => [] | .stall => [.resp 408 true])
      else (match e with | .eof => [.resp 400 true] | .stall => [.resp 408 true])
    | .ok (hd, n) =>
      let s1 := s.drop n
      let cont := mayContinue hd
      let pre : List SEv := if cont then [.continue100] else []
      match streamBody cfg e hd s1 c with
      | .error x =>
        pre ++ (match errStatus x with
                | some st => [.resp st true]
                | none => if cont then [.resp 400 true] else [])
      | .ok (r, after) =>
        let close := cfg.disableKeepalive || r.head.connClose
        pre ++ [.req r, .resp 200 close] ++
          (if close then [] else
            match after with
            | .resync rest => streamLoop cfg e c fuel false rest
            | .closed => []
            | .either rest => .maybeClosed :: streamLoop cfg e c fuel false rest)

def serveStream (cfg : Cfg) (e : End) (c : Consume) (s : Bytes) : List SEv :=
  streamLoop cfg e c (s.length + 1) true s

end Hertz.H1.Stream
