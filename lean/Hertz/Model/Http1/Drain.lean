import Hertz.Basic
/-!
`bodyStream.skipChunkLeft` (pkg/protocol/http1/ext/stream.go, `/repo` 6bc653e): the payload of an unread chunk is
skipped piece by piece, as it arrives.  The connection reader is what is buffered plus the segments still to come
(`standard.Conn`: `Len()` = buffered bytes, `Peek(1)` on an empty buffer waits for the next non-empty read, `Skip(k)`
needs `k ≤ Len()` and never waits).
-/
namespace Hertz.H1.Drain
open Hertz

structure Rd where
  buf : Bytes
  segs : List Bytes
deriving Repr, DecidableEq

/-- everything the reader will ever deliver -/
def Rd.all (r : Rd) : Bytes := r.buf ++ r.segs.flatten

/-- `Peek(1)` on an empty buffer: the next non-empty read, `none` when the peer is gone -/
def fill : List Bytes → Option (Bytes × List Bytes)
  | [] => none
  | s :: t => if s.isEmpty then fill t else some (s, t)

/-- `skipChunkLeft` with `left` bytes to go (fuel: every round skips at least one byte) -/
def skipLeft : Nat → Rd → Nat → Option Rd
  | _, rd, 0 => some rd
  | 0, _, _ + 1 => none
  | fuel + 1, rd, left + 1 =>
    match (if rd.buf.isEmpty then fill rd.segs else some (rd.buf, rd.segs)) with
    | none => none
    | some (b, segs) =>
      let k := min b.length (left + 1)
      skipLeft fuel ⟨b.drop k, segs⟩ (left + 1 - k)

/-- the former code: one `reader.Skip(chunkSize)` for a whole unread chunk -/
def skipWhole (rd : Rd) (n : Nat) : Option Rd :=
  if n ≤ rd.buf.length then some ⟨rd.buf.drop n, rd.segs⟩ else none

end Hertz.H1.Drain
