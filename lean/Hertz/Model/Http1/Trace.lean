import Hertz.Model.Http1.Serve
import Hertz.Model.Tracer
/-!
C19 — from an inbound byte stream to the *history* the tracer model (`Model/Tracer.lean`) runs on.

`classify` walks the stream with the same readers as the keep-alive loop model `serveLoop`
(`parseReqHead`, `continueReadBody`, `mayContinue`, `errStatus`) and records, per loop iteration, which
path `Server.Serve` takes.  The handler is the C19 harness handler: the request target selects what it
does (`/panic…`, `/hijack…`, `/wfail…`, `/wfailnext…`, `/close…`, anything else: plain 200).
-/
namespace Hertz.H1
open Hertz Hertz.Tracer

inductive Directive where
  | ok | panic | hijack | wfailnext | wfail | close
deriving DecidableEq, Repr

def directive (uri : Bytes) : Directive :=
  if (str "/panic").isPrefixOf uri then .panic
  else if (str "/hijack").isPrefixOf uri then .hijack
  else if (str "/wfailnext").isPrefixOf uri then .wfailnext
  else if (str "/wfail").isPrefixOf uri then .wfail
  else if (str "/close").isPrefixOf uri then .close
  else .ok

structure TraceCfg where
  h1 : Cfg := {}
  /-- return-to-poller transport (`IdleTimeout == 0`): `Serve` returns after every request and is
  entered again while unread input remains -/
  poll : Bool := false
  /-- the recovery middleware is installed -/
  recovery : Bool := false

structure TIter where
  it : Tracer.Iter
  /-- raw request target, once the request head has been parsed -/
  uri : Option Bytes
  handled : Bool

/-- one `conn.Write` of the scripted connection: `none` = writes never fail, `some n` = `n` more succeed -/
def flushOK : Option Nat → Bool × Option Nat
  | none => (true, none)
  | some 0 => (false, some 0)
  | some (n + 1) => (true, some n)

def shownURI (hd : ReqHead) : Bytes := if hd.uri.isEmpty then [47] else hd.uri

/-- `fuel` bounds the number of requests (`s.length + 1` suffices) -/
def classifyLoop (c : TraceCfg) (e : End) : Nat → Bool → Option Nat → Bytes → List TIter
  | 0, _, _, _ => []
  | fuel + 1, first, wb, s =>
    -- idle wait between requests: `zr.Peek(4)`
    if !first && s.length < 4 then [⟨{ peekFails := true, outcome := .handled .next }, none, false⟩] else
    let stop (o : Outcome) (u : Option Bytes) (h : Bool) : List TIter := [⟨{ outcome := o }, u, h⟩]
    match parseReqHead c.h1.disableNorm s with
    | .error .bad => stop (.headerErr .other) none false
    | .error .needMore =>
      if s.isEmpty then
        match e with
        | .eof => stop (.headerErr .nothingRead) none false
        | .stall => stop (.headerErr .other) none false
      else stop (.headerErr .other) none false
    | .ok (hd, n) =>
      let s1 := s.drop n
      let cont := mayContinue hd
      let u := some (shownURI hd)
      -- `Expect: 100-continue`: the first body read returns at once; the interim response is one write
      let (w100, wb) := if cont then flushOK wb else (true, wb)
      if !w100 then stop .contWriteErr u false else
      match continueReadBody c.h1 e hd s1 with
      | .err x =>
        if cont then stop .contBodyErr u false
        else stop (.bodyErr (match errStatus x with | none => .eof | some _ => .other)) u false
      | .ok hd' _ _ rest =>
        let d := directive (shownURI hd')
        if d = .panic && !c.recovery then stop (.handled .panic) u true else
        let wb := match d with
          | .wfail => some 0
          | .wfailnext => some 1
          | _ => wb
        let (wok, wb) := flushOK wb
        if !wok then stop (.handled .flushErr) u true else
        if d = .hijack then stop (.handled .hijacked) u true else
        if d = .close || c.h1.disableKeepalive || hd'.connClose then stop (.handled .close) u true else
        ⟨{ outcome := .handled .next }, u, true⟩ ::
          (if c.poll then (if rest.isEmpty then [] else classifyLoop c e fuel true wb rest)
           else classifyLoop c e fuel false wb rest)

def classify (c : TraceCfg) (e : End) (s : Bytes) : List TIter := classifyLoop c e (s.length + 1) true none s

/-- the histories of the `Serve` calls of one connection -/
def histories (c : TraceCfg) (its : List TIter) : List (List Tracer.Iter) :=
  if c.poll then its.map (fun t => [t.it]) else [its.map (·.it)]

/-- tracer-relevant actions of the real server on this stream -/
def traceActs (c : TraceCfg) (enableTrace : Bool) (e : End) (s : Bytes) : List Act :=
  connection { enableTrace := enableTrace, idleZero := c.poll } (histories c (classify c e s))

end Hertz.H1
