import Hertz.Model.Http1.ReqHead
/-!
Model of the body readers: `bytesconv.ReadHexInt`, `utils.ParseChunkSize`, `ext.ReadBody`
(fixed / chunked), `ext.ReadTrailer` + `parseTrailer`, `req.ContinueReadBody`.

The reader is the remaining inbound byte stream `s` (the C13 refinement theorem justifies treating the
buffered connection as a FIFO) together with how the stream ends once `s` is exhausted.
-/
namespace Hertz.H1
open Hertz Hertz.Gen.Str

/-- what a read beyond the available bytes returns -/
inductive End where
  | eof      -- peer closed
  | stall    -- read times out
deriving Repr, DecidableEq

inductive RdErr where
  | eof | timeout   -- wire ends (raw io.EOF / net timeout)
  | hzTimeout       -- hertz's own ErrTimeout (trailer/header read timed out): not a net.Error
  | unexpectedEOF   -- io.ErrUnexpectedEOF
  | bad             -- malformed
  | tooLarge
  | unmodelled      -- the code hands over to a library the model does not cover (mime/multipart pre-parse)
deriving Repr, DecidableEq

def endErr : End → RdErr
  | .eof => .eof
  | .stall => .timeout

/-- `bytesconv.ReadHexInt`: `(n, rest)`; on error the bytes consumed are irrelevant (connection closes) -/
def readHexIntAux (e : End) : Nat → Nat → Bytes → Except RdErr (Nat × Bytes)
  | n, i, [] => if i > 0 then .ok (n, []) else .error (endErr e)
  | n, i, c :: t =>
    let k := hex2int c
    if k = 16 then (if i = 0 then .error .bad else .ok (n, c :: t))
    else if i ≥ Gen.maxHexIntChars.toNat then .error .bad
    else readHexIntAux e (n * 16 + k.toNat) (i + 1) t

def readHexInt (e : End) (s : Bytes) : Except RdErr (Nat × Bytes) := readHexIntAux e 0 0 s

/-- after the hex number: any number of spaces, then `\r`, then `\n` -/
def chunkSizeTail (e : End) : Bytes → Except RdErr Bytes
  | [] => .error .bad      -- "cannot read '\r' char …" is a public (400) error whatever the cause
  | c :: t =>
    if c = 32 then chunkSizeTail e t
    else if c = 13 then
      match t with
      | [] => .error .bad
      | d :: t' => if d = 10 then .ok t' else .error .bad
    else .error .bad

/-- `utils.ParseChunkSize` -/
def parseChunkSize (e : End) (s : Bytes) : Except RdErr (Nat × Bytes) :=
  match readHexInt e s with
  | .error .eof => .error .unexpectedEOF
  | .error x => .error x
  | .ok (n, rest) =>
    match chunkSizeTail e rest with
    | .error x => .error x
    | .ok rest' => .ok (n, rest')

/-- `Peek(n)` + `Skip(n)` -/
def takeN (e : End) (n : Nat) (s : Bytes) : Except RdErr (Bytes × Bytes) :=
  if s.length ≥ n then .ok (s.take n, s.drop n) else .error (endErr e)

/-- `appendBodyFixedSize`: raw EOF becomes unexpected EOF -/
def takeBody (e : End) (n : Nat) (s : Bytes) : Except RdErr (Bytes × Bytes) :=
  match takeN e n s with
  | .error .eof => .error .unexpectedEOF
  | r => r

/-- `readBodyChunked`; `fuel` bounds the number of chunks (`s.length + 1` suffices: every chunk
consumes at least three bytes) -/
def readBodyChunked (e : End) (maxBody : Nat) : Nat → Bytes → Bytes → Except RdErr (Bytes × Bytes)
  | 0, _, _ => .error .bad
  | fuel + 1, dst, s => do
    let (size, rest) ← parseChunkSize e s
    if size = 0 then .ok (dst, rest)
    else if maxBody > 0 ∧ dst.length + size > maxBody then .error .tooLarge
    else
      let (chunk, rest') ← takeBody e (size + 2) rest
      if chunk.drop size ≠ strCRLF then .error .bad
      else readBodyChunked e maxBody fuel (dst ++ chunk.take size) rest'

/-- `updateArgBytes`: fill the first still-unfilled declared trailer of that name -/
def updateTrailer : List (Bytes × Option Bytes) → Bytes → Bytes → List (Bytes × Option Bytes)
  | [], _, _ => []
  | (k, v) :: t, key, value =>
    if v.isNone ∧ k = key then (k, some value) :: t else (k, v) :: updateTrailer t key value

inductive TrErr where | needMore | bad
deriving Repr, DecidableEq

/-- scanning loop of `parseTrailer`: `err` is overwritten by every field (as in the Go code) -/
def parseTrailerLoop (disableNorm : Bool) : Nat → Bytes → List (Bytes × Option Bytes) → Bool → Nat →
    Except TrErr (List (Bytes × Option Bytes) × Nat)
  | 0, _, _, _, _ => .error .needMore
  | fuel + 1, B, tr, err, hlen =>
    match scanNext disableNorm B with
    | .fin n => if err then .error .bad else .ok (tr, hlen + n)
    | .needMore => .error .needMore
    | .invalidName => .error .bad
    | .kv key value rest n =>
      if key.isEmpty then parseTrailerLoop disableNorm fuel rest tr err (hlen + n)
      else if key.contains 32 || key.contains 9 then parseTrailerLoop disableNorm fuel rest tr true (hlen + n)
      else if isBadTrailer key then parseTrailerLoop disableNorm fuel rest tr true (hlen + n)
      else parseTrailerLoop disableNorm fuel rest (updateTrailer tr key value) false (hlen + n)

/-- `parseTrailer(t, buf)` for a non-empty `buf`.  A repeated zero-length chunk line `0\r\n` in front of the
trailer section is skipped and counted; anything else starting with `0` is a trailer field. -/
def parseTrailer (disableNorm : Bool) (tr : List (Bytes × Option Bytes)) (buf : Bytes) :
    Except TrErr (List (Bytes × Option Bytes) × Nat) :=
  match buf with
  | 48 :: rest =>
    if buf.length < 3 then .error .needMore   -- too short to tell a `0\r\n` line from a field name starting with `0`
    else if rest.take 2 = strCRLF then
      match parseTrailerLoop disableNorm (buf.length + 1) (rest.drop 2) tr false 0 with
      | .ok (t, n) => .ok (t, n + 3)
      | .error x => .error x
    else parseTrailerLoop disableNorm (buf.length + 1) buf tr false 0
  | _ => parseTrailerLoop disableNorm (buf.length + 1) buf tr false 0

end Hertz.H1
