import Hertz.Model.Http1.RespRead
/-!
# The header scanner with its in-place edits (C02)

`ext.HeaderScanner.Next` works on a slice of the connection's read buffer and WRITES into it:

* `utils.NormalizeHeaderKey(s.Key, …)` canonicalises the key bytes where they lie;
* `normalizeHeaderValue(s.Value)` (obs-folded value only) compacts the value inside its region: CR/LF removed,
  a tab at the start of a continuation line → space, blanks in front and at the end dropped, then the compacted
  value is **right aligned** in the region and the gap in front of it is filled with spaces.  The bytes the scanner
  had trimmed from the end of the region before (blanks, one `\r`) and everything after the value stay as they are.

The callers (`resp.tryRead`, `ext.tryReadTrailer`, `req.tryRead`) parse the peeked buffer; on "need more" the
SAME buffer — edited — plus the bytes read since is parsed again from its start.  `Scan.lean`/`RespRead.lean` model
the reading as a pure function of the bytes; this file adds the buffer: `scanNextE : buffer → (answer, buffer')`,
`scanBlockE` for a header block, and `retryScanE` for "scan buf₀; on need-more scan (edit buf₀ ++ more)".

The answer component of `scanNextE` is `scanNext` by construction (`scanNextE_fst`, Proofs/ScanEdit).
-/
namespace Hertz.H1.ScanEdit
open Hertz Hertz.H1

/-- what `normalizeHeaderValue(ov)` leaves in the bytes of `ov`: `gap` spaces, then the compacted value
(which is the slice it returns) -/
def normValueEdit (ov : Bytes) : Bytes :=
  let nv := foldedValue ov
  List.replicate (ov.length - nv.length) 32 ++ nv

/-- `Next` from the colon at `n` on: the key is canonicalised where it lies, blanks are skipped, the value's end is
found (obs-fold look-ahead), the value is trimmed and — if it spans several lines — compacted in place. -/
def scanValueE (dn : Bool) (B : Bytes) (n : Nat) : Scan × Bytes :=
  let key := normalizeKey dn (B.take n)
  let afterColon := B.drop (n + 1)
  let sp := (afterColon.takeWhile isOWS).length
  let B1 := afterColon.drop sp
  match indexByte 10 B1 with
  | none => (.needMore, key ++ B.drop n)   -- not reachable (the line feed lies behind the colon); the key is written by then
  | some n1 =>
    let extra := contExtra (B1.drop (n1 + 1))
    let nEnd := n1 + extra
    let raw := B1.take nEnd
    let region := trimValue raw
    let value := if extra > 0 then foldedValue region else region
    let region' := if extra > 0 then normValueEdit region else region
    (.kv key value (B1.drop (nEnd + 1)) (n + 1 + sp + nEnd + 1),
     key ++ 58 :: (afterColon.take sp ++ (region' ++ (raw.drop region.length ++ B1.drop nEnd))))

/-- `Next` on a buffer that does not start with an empty line.  A call that answers `needMore` or `invalidName`
returns before the first write. -/
def scanLineE (dn : Bool) (B : Bytes) : Scan × Bytes :=
  match indexByte 10 B, indexByte 58 B with
  | none, _ => (.needMore, B)
  | some _, none => (.needMore, B)
  | some x, some n => if x < n then (.invalidName, B) else scanValueE dn B n

/-- One call of `HeaderScanner.Next` on the buffer `B`: the answer and the buffer afterwards (same length). -/
def scanNextE (dn : Bool) (B : Bytes) : Scan × Bytes :=
  match B with
  | 13 :: 10 :: _ => (.fin 2, B)
  | 10 :: _ => (.fin 1, B)
  | _ => scanLineE dn B

/-- how a scan of a header block stopped -/
inductive Stop where
  | fin (hlen : Nat)     -- blank line reached; `HLen`
  | needMore
  | invalidName
deriving Repr, DecidableEq

/-- a scanned header block: the `(key, value)` pairs handed out by `Next`, how the scan stopped, the bytes the `kv`
calls consumed, and the buffer afterwards -/
structure Block where
  fields : List (Bytes × Bytes)
  stop : Stop
  consumed : Nat
  buf : Bytes
deriving Repr, DecidableEq

/-- `for s.Next() { … }` over the buffer `B` (fuel: `B.length + 1` suffices, every `kv` consumes a byte) -/
def scanBlockE (dn : Bool) : Nat → Bytes → Block
  | 0, B => ⟨[], .needMore, 0, B⟩
  | fuel + 1, B =>
    match scanNextE dn B with
    | (.fin n, _) => ⟨[], .fin n, 0, B⟩
    | (.needMore, B') => ⟨[], .needMore, 0, B'⟩
    | (.invalidName, _) => ⟨[], .invalidName, 0, B⟩
    | (.kv k v rest n, B') =>
      let r := scanBlockE dn fuel rest
      ⟨(k, v) :: r.fields, (match r.stop with | .fin h => .fin (n + h) | s => s), n + r.consumed, B'.take n ++ r.buf⟩

def scanBlock (dn : Bool) (B : Bytes) : Block := scanBlockE dn (B.length + 1) B

/-- the reading of a header block by the pure scanner of `Scan.lean` (no buffer): the fields `Next` hands out and how
the scan stops -/
def readBlock (dn : Bool) : Nat → Bytes → List (Bytes × Bytes) × Stop
  | 0, _ => ([], .needMore)
  | fuel + 1, B =>
    match scanNext dn B with
    | .fin n => ([], .fin n)
    | .needMore => ([], .needMore)
    | .invalidName => ([], .invalidName)
    | .kv k v rest n =>
      let r := readBlock dn fuel rest
      ((k, v) :: r.1, match r.2 with | .fin h => .fin (n + h) | s => s)

/-- the buffer after a scan -/
def editBlock (dn : Bool) (B : Bytes) : Bytes := (scanBlock dn B).buf

/-- what a caller can see of a scan besides the buffer -/
def Block.reading (r : Block) : List (Bytes × Bytes) × Stop := (r.fields, r.stop)

/-- **The retry scheme of the real readers, with the edits**: scan what is buffered; on need-more take the next
segment behind the EDITED buffer and scan again from the start. -/
def retryScanE (dn : Bool) : Bytes → List Bytes → Block
  | buf, [] => scanBlock dn buf
  | buf, seg :: segs =>
    let r := scanBlock dn buf
    match r.stop with
    | .needMore => retryScanE dn (r.buf ++ seg) segs
    | _ => r

/-- A `kv` answer whose value was compacted in place although its obs-fold look-ahead ended at the end of the
buffer (so the value may still grow): the situation in which the compaction is premature. -/
def dryFold (dn : Bool) (B : Bytes) : Bool :=
  match scanNext dn B with
  | .kv _ _ rest _ =>
    -- the value region was edited (multi-line) …
    (match indexByte 58 B with
     | some n =>
       let A := B.drop (n + 1)
       let B1 := A.drop (A.takeWhile isOWS).length
       (match indexByte 10 B1 with
        | some n1 => contExtra (B1.drop (n1 + 1)) > 0
        | none => false)
     | none => false)
    -- … and nothing behind it tells that it is over
    && (indexByte 10 rest).isNone
  | _ => false

/-- some `Next` call of the scan of `B` compacted a value prematurely -/
def anyDryFold (dn : Bool) : Nat → Bytes → Bool
  | 0, _ => false
  | fuel + 1, B =>
    match scanNext dn B with
    | .kv _ _ rest _ => dryFold dn B || anyDryFold dn fuel rest
    | _ => false

/-- no stage of the retry scheme that ended in need-more had compacted a value prematurely -/
def retryClean (dn : Bool) : Bytes → List Bytes → Bool
  | _, [] => true
  | buf, seg :: segs =>
    match (scanBlock dn buf).stop with
    | .needMore => !anyDryFold dn (buf.length + 1) buf && retryClean dn ((scanBlock dn buf).buf ++ seg) segs
    | _ => true

/-! ## the three callers, with the buffer -/

/-- `resp.parse` on the peeked buffer: the answer of `parseRespHead` and the buffer afterwards
(`parseFirstLine` writes nothing) -/
def respParseE (dn : Bool) (buf : Bytes) : Except HeadErr (RespRead.RespHead × Nat) × Bytes :=
  match RespRead.parseFirstLine buf with
  | .error e => (.error e, buf)
  | .ok (_, m) => (RespRead.parseRespHead dn buf, buf.take m ++ editBlock dn (buf.drop m))

/-- the writes of `req.parseHeaders`, which leaves the loop at the first field it rejects (blank in the key, bad
byte in the value) -/
def editReq (dn : Bool) : Nat → Bytes → Bytes
  | 0, B => B
  | fuel + 1, B =>
    match scanNextE dn B with
    | (.kv k v rest n, B') =>
      if !k.isEmpty && (k.contains 32 || k.contains 9 || !validHeaderFieldValue v) then B'
      else B'.take n ++ editReq dn fuel rest
    | (_, B') => B'

/-- `req.parse`: nothing is scanned (hence written) before the completeness pre-check has passed -/
def reqParseE (dn : Bool) (buf : Bytes) : Except HeadErr (ReqHead × Nat) × Bytes :=
  match parseFirstLine buf with
  | .error e => (.error e, buf)
  | .ok (_, m) =>
    match rawHeadersLen (buf.drop m) with
    | none => (.error .needMore, buf)
    | some _ => (parseReqHead dn buf, buf.take m ++ editReq dn (buf.length + 1) (buf.drop m))

/-- the writes of `ext.parseTrailer`'s two passes over the section: the `pre` pass scans all of it, the second
pass (only when the first reached the blank line) scans the edited bytes again -/
def editTrailer (dn : Bool) (B : Bytes) : Bytes :=
  let r := scanBlock dn B
  match r.stop with
  | .fin _ => editBlock dn r.buf
  | _ => r.buf

/-- `ext.parseTrailer` on the peeked buffer (non-empty) -/
def trailerParseE (dn : Bool) (tr : List (Bytes × Option Bytes)) (buf : Bytes) :
    Except TrErr (List (Bytes × Option Bytes) × Nat) × Bytes :=
  match buf with
  | 48 :: rest =>
    if buf.length < 3 then (.error .needMore, buf)
    else if rest.take 2 = Gen.Str.strCRLF then (parseTrailer dn tr buf, buf.take 3 ++ editTrailer dn (buf.drop 3))
    else (parseTrailer dn tr buf, editTrailer dn buf)
  | _ => (parseTrailer dn tr buf, editTrailer dn buf)

/-- **`resp.ReadHeader` with the edits**: parse what is buffered; on need-more take the next read behind the EDITED
buffer and parse again from the start (the buffer-less version is `RespRead.retryParse`) -/
def respRetryE (dn : Bool) : Bytes → List Bytes → Except HeadErr (RespRead.RespHead × Nat)
  | buf, [] => (respParseE dn buf).1
  | buf, seg :: segs =>
    match (respParseE dn buf).1 with
    | .error .needMore => respRetryE dn ((respParseE dn buf).2 ++ seg) segs
    | r => r

/-- the scan of the header block of `buf` compacted no value prematurely -/
def respStageClean (dn : Bool) (buf : Bytes) : Bool :=
  match RespRead.parseFirstLine buf with
  | .ok (_, m) => !anyDryFold dn ((buf.drop m).length + 1) (buf.drop m)
  | .error _ => true

def respRetryClean (dn : Bool) : Bytes → List Bytes → Bool
  | _, [] => true
  | buf, seg :: segs =>
    match (respParseE dn buf).1 with
    | .error .needMore => respStageClean dn buf && respRetryClean dn ((respParseE dn buf).2 ++ seg) segs
    | _ => true

/-- the part of the peeked buffer `ext.parseTrailer` scans: behind a repeated `0\r\n` line if there is one -/
def trailerSection (buf : Bytes) : Bytes :=
  match buf with
  | 48 :: rest => if buf.length < 3 then buf else if rest.take 2 = Gen.Str.strCRLF then buf.drop 3 else buf
  | _ => buf

/-! ## c627e0d: a folded value whose next line has not arrived is not compacted — `Next` asks for more

`scanNextE`/`scanBlock` above are `Next` WITHOUT that rule (the code before c627e0d; kept because the rule is stated on top
of them and their theorems are used).  `scanNextN`/`scanBlockN` are the code as it stands. -/

/-- what is buffered behind a multi-line value does not tell whether the value goes on: nothing (`n+1 >= len(s.B)`), or a
line that starts with a blank and has no line feed yet (`d < 0`) -/
def foldOpen (rest : Bytes) : Bool :=
  match rest with
  | [] => true
  | c :: _ => isOWS c && (indexByte 10 rest).isNone

/-- `isMultiLineValue` at the end of the look-ahead loop -/
def isMulti (B : Bytes) : Bool :=
  match indexByte 58 B with
  | some n =>
    let A := B.drop (n + 1)
    let B1 := A.drop (A.takeWhile isOWS).length
    (match indexByte 10 B1 with
     | some n1 => contExtra (B1.drop (n1 + 1)) > 0
     | none => false)
  | none => false

/-- the new early return of `Next` -/
def openFold (dn : Bool) (B : Bytes) : Bool :=
  match scanNext dn B with
  | .kv _ _ rest _ => isMulti B && foldOpen rest
  | _ => false

/-- by that return the key has been canonicalised where it lies -/
def keyEdit (dn : Bool) (B : Bytes) : Bytes :=
  match indexByte 58 B with
  | some n => normalizeKey dn (B.take n) ++ B.drop n
  | none => B

/-- … and `HLen` has been advanced over key, colon and blanks -/
def pendingLen (B : Bytes) : Nat :=
  match indexByte 58 B with
  | some n => n + 1 + ((B.drop (n + 1)).takeWhile isOWS).length
  | none => 0

/-- **One call of `HeaderScanner.Next` as it stands** -/
def scanNextN (dn : Bool) (B : Bytes) : Scan × Bytes :=
  if openFold dn B then (.needMore, keyEdit dn B) else scanNextE dn B

/-- a scanned block; `touched` = `HLen` when the scan stops without reaching the blank line -/
structure BlockN where
  fields : List (Bytes × Bytes)
  stop : Stop
  consumed : Nat
  touched : Nat
  buf : Bytes
deriving Repr, DecidableEq

def scanBlockNE (dn : Bool) : Nat → Bytes → BlockN
  | 0, B => ⟨[], .needMore, 0, 0, B⟩
  | fuel + 1, B =>
    match scanNextN dn B with
    | (.fin n, _) => ⟨[], .fin n, 0, 0, B⟩
    | (.needMore, B') => ⟨[], .needMore, 0, (if openFold dn B then pendingLen B else 0), B'⟩
    | (.invalidName, _) => ⟨[], .invalidName, 0, 0, B⟩
    | (.kv k v rest n, B') =>
      let r := scanBlockNE dn fuel rest
      ⟨(k, v) :: r.fields, (match r.stop with | .fin h => .fin (n + h) | s => s), n + r.consumed, n + r.touched,
        B'.take n ++ r.buf⟩

def scanBlockN (dn : Bool) (B : Bytes) : BlockN := scanBlockNE dn (B.length + 1) B
def editBlockN (dn : Bool) (B : Bytes) : Bytes := (scanBlockN dn B).buf
def BlockN.reading (r : BlockN) : List (Bytes × Bytes) × Stop := (r.fields, r.stop)

/-- the retry scheme of the real readers with the edits, as it stands -/
def retryScanN (dn : Bool) : Bytes → List Bytes → BlockN
  | buf, [] => scanBlockN dn buf
  | buf, seg :: segs =>
    match (scanBlockN dn buf).stop with
    | .needMore => retryScanN dn ((scanBlockN dn buf).buf ++ seg) segs
    | _ => scanBlockN dn buf

/-- `resp.parse` with the buffer, as it stands (the answer is the pure parser's: a block that ends inside a fold is
need-more either way) -/
def respParseN (dn : Bool) (buf : Bytes) : Except HeadErr (RespRead.RespHead × Nat) × Bytes :=
  match RespRead.parseFirstLine buf with
  | .error e => (.error e, buf)
  | .ok (_, m) => (RespRead.parseRespHead dn buf, buf.take m ++ editBlockN dn (buf.drop m))

/-- the two passes of `ext.parseTrailer`, as it stands -/
def editTrailerN (dn : Bool) (B : Bytes) : Bytes :=
  match (scanBlockN dn B).stop with
  | .fin _ => editBlockN dn (scanBlockN dn B).buf
  | _ => (scanBlockN dn B).buf

def trailerParseN (dn : Bool) (tr : List (Bytes × Option Bytes)) (buf : Bytes) :
    Except TrErr (List (Bytes × Option Bytes) × Nat) × Bytes :=
  match buf with
  | 48 :: rest =>
    if buf.length < 3 then (.error .needMore, buf)
    else if rest.take 2 = Gen.Str.strCRLF then (parseTrailer dn tr buf, buf.take 3 ++ editTrailerN dn (buf.drop 3))
    else (parseTrailer dn tr buf, editTrailerN dn buf)
  | _ => (parseTrailer dn tr buf, editTrailerN dn buf)

def respRetryN (dn : Bool) : Bytes → List Bytes → Except HeadErr (RespRead.RespHead × Nat)
  | buf, [] => (respParseN dn buf).1
  | buf, seg :: segs =>
    match (respParseN dn buf).1 with
    | .error .needMore => respRetryN dn ((respParseN dn buf).2 ++ seg) segs
    | r => r

/-- the retry scheme over any number of reads, in terms of the pure reading of each buffer: read what is buffered; on
need-more the next read goes behind the buffer AS THE SCANNER LEFT IT -/
def retryReadN (dn : Bool) : Bytes → List Bytes → List (Bytes × Bytes) × Stop
  | buf, [] => readBlock dn (buf.length + 1) buf
  | buf, seg :: segs =>
    match (readBlock dn (buf.length + 1) buf).2 with
    | .needMore => retryReadN dn (editBlockN dn buf ++ seg) segs
    | _ => readBlock dn (buf.length + 1) buf

end Hertz.H1.ScanEdit
