import Hertz.Model.Bytesconv
import Hertz.Gen.Consts
/-!
Model of the byte-level helpers of the HTTP/1 reader:
`utils.NextLine`, `utils.CaseInsensitiveCompare`, `utils.NormalizeHeaderKey`, `ext.ReadRawHeaders`,
`ext.HeaderScanner.Next` (+ `normalizeHeaderValue`), `bytesconv.ParseUintBuf`,
`protocol.ParseContentLength`, `ext.HasHeaderValue`, `protocol.IsBadTrailer`, `Trailer.SetTrailers`.
-/
namespace Hertz.H1
open Hertz

def indexByte (c : UInt8) : Bytes → Option Nat
  | [] => none
  | x :: t => if x = c then some 0 else (indexByte c t).map (· + 1)

def lastIndexByte (c : UInt8) (b : Bytes) : Option Nat :=
  (indexByte c b.reverse).map (fun i => b.length - 1 - i)

/-- `utils.CaseInsensitiveCompare` (after the fix: comparison through `ToLowerTable`) -/
def ciEq : Bytes → Bytes → Bool
  | [], [] => true
  | a :: s, b :: t => toLower a == toLower b && ciEq s t
  | _, _ => false

/-- `utils.NormalizeHeaderKey(b, false)`; `up` = the next byte is upper-cased -/
def normKeyAux : Bool → Bytes → Bytes
  | _, [] => []
  | true, c :: t => toUpper c :: normKeyAux false t
  | false, c :: t => if c = 45 then c :: normKeyAux true t else toLower c :: normKeyAux false t

def normalizeKey (disable : Bool) (k : Bytes) : Bytes := if disable then k else normKeyAux true k

/-- `utils.NextLine`: `(line, rest)` or `none` = need more -/
def nextLine (b : Bytes) : Option (Bytes × Bytes) :=
  match indexByte 10 b with
  | none => none
  | some nNext =>
    let line := b.take nNext
    let line := if line.getLast? = some 13 then line.dropLast else line
    some (line, b.drop (nNext + 1))

/-- `ext.ReadRawHeaders`: number of bytes up to and including the blank line, `none` = need more.
`lineLen` bytes of the current line seen so far, `onlyCR` = they are exactly one `\r`. -/
def rawHeadersAux : Nat → Bool → Bytes → Option Nat
  | _, _, [] => none
  | lineLen, onlyCR, c :: t =>
    if c = 10 then
      if lineLen = 0 ∨ (lineLen = 1 ∧ onlyCR) then some 1 else (rawHeadersAux 0 false t).map (· + 1)
    else (rawHeadersAux (lineLen + 1) (lineLen == 0 && c == 13) t).map (· + 1)

def rawHeadersLen (b : Bytes) : Option Nat := rawHeadersAux 0 false b

/-- compaction loop of `normalizeHeaderValue`: drop CR/LF, a tab at the start of a continuation line
becomes a space -/
def normValAux : Bool → Bytes → Bytes
  | _, [] => []
  | ls, c :: t =>
    if c = 13 then normValAux ls t
    else if c = 10 then normValAux true t
    else if ls ∧ c = 9 then 32 :: normValAux true t
    else c :: normValAux false t

/-- what `normalizeHeaderValue` (after the fix) leaves in the value's region of the buffer:
the compacted value, then blanks -/
def normValRegion (ov : Bytes) : Bytes :=
  let nv := normValAux false ov
  nv ++ List.replicate (ov.length - nv.length) 32

/-- obs-fold look-ahead of `HeaderScanner.Next`: number of extra bytes (beyond the first line end)
that belong to the value.  `s` is the text after the line's `\n`. -/
def contAux : Nat → Nat → Bool → Bytes → Nat
  | committed, _, _, [] => committed
  | committed, cur, inLine, c :: t =>
    if !inLine then
      if c = 32 ∨ c = 9 then contAux committed 1 true t else committed
    else if c = 58 then committed
    else if c = 10 then contAux (committed + cur + 1) 0 false t
    else contAux committed (cur + 1) true t

def contExtra (s : Bytes) : Nat := contAux 0 0 false s

/-- optional whitespace around a field value: SP / HTAB -/
def isOWS (c : UInt8) : Bool := c == 32 || c == 9

/-- trailing `\r` (one) and then trailing blanks (SP / HTAB) removed -/
def trimValue (r : Bytes) : Bytes :=
  let r1 := if r.getLast? = some 13 then r.dropLast else r
  (r1.reverse.dropWhile isOWS).reverse

/-- `normalizeHeaderValue` on a multi-line region: CR/LF removed, HTAB at a line start → SP, then blanks (SP / HTAB)
in front and at the end dropped -/
def foldedValue (region : Bytes) : Bytes :=
  (((normValAux false region).dropWhile isOWS).reverse.dropWhile isOWS).reverse

inductive Scan where
  | fin (consumed : Nat)
  | needMore
  | invalidName
  | kv (key value rest : Bytes) (consumed : Nat)
deriving Repr, DecidableEq

/-- one call of `HeaderScanner.Next` on buffer `B` -/
def scanNext (disableNorm : Bool) (B : Bytes) : Scan :=
  match B with
  | 13 :: 10 :: _ => .fin 2
  | 10 :: _ => .fin 1
  | _ =>
    match indexByte 10 B, indexByte 58 B with
    | none, _ => .needMore
    | some _, none => .needMore
    | some x, some n =>
      if x < n then .invalidName else
      let key := normalizeKey disableNorm (B.take n)
      let afterColon := B.drop (n + 1)
      let sp := (afterColon.takeWhile isOWS).length
      let B1 := afterColon.drop sp
      match indexByte 10 B1 with
      | none => .needMore
      | some n1 =>
        let extra := contExtra (B1.drop (n1 + 1))
        let nEnd := n1 + extra
        let region := trimValue (B1.take nEnd)
        -- multi-line value: CR/LF removed, tab at a line start → space, blanks in front and at the end dropped
        let value := if extra > 0 then foldedValue region else region
        .kv key value (B1.drop (nEnd + 1)) (n + 1 + sp + nEnd + 1)

/-- `bytesconv.ParseUintBuf` with Go's 64-bit `int`: `(value, consumed)` or an error -/
inductive UintErr where | empty | firstChar | tooLong
deriving Repr, DecidableEq

def parseUintAux : Nat → Nat → Bytes → Except UintErr (Nat × Nat)
  | v, i, [] => .ok (v, i)
  | v, i, c :: t =>
    let k := c - 48
    if k > 9 then (if i = 0 then .error .firstChar else .ok (v, i))
    else
      -- overflow test of the fixed code: `v > (maxInt - k) / 10`
      if v > (2^63 - 1 - k.toNat) / 10 then .error .tooLong else parseUintAux (10 * v + k.toNat) (i + 1) t

def parseUintBuf (b : Bytes) : Except UintErr (Nat × Nat) :=
  if b.isEmpty then .error .empty else parseUintAux 0 0 b

/-- `protocol.ParseContentLength` / `bytesconv.ParseUint` : value or error -/
def parseUint (b : Bytes) : Option Nat :=
  match parseUintBuf b with
  | .ok (v, n) => if n = b.length then some v else none
  | .error _ => none

def stripSpace (b : Bytes) : Bytes :=
  ((b.dropWhile (· == 32)).reverse.dropWhile (· == 32)).reverse

/-- split on a byte (like `bytes.Split`) -/
def splitOn (sep : UInt8) : Bytes → List Bytes
  | [] => [[]]
  | c :: t =>
    if c = sep then [] :: splitOn sep t
    else match splitOn sep t with
      | [] => [[c]]
      | s :: r => (c :: s) :: r

/-- `ext.HasHeaderValue(s, value)`: comma separated, space-trimmed elements; an empty `s` has none -/
def hasHeaderValue (s value : Bytes) : Bool :=
  if s.isEmpty then false else
  -- the scanner stops when the remaining text is empty, so a trailing comma adds no element
  let elems := splitOn 44 s
  let elems := if s.getLast? = some 44 then elems.dropLast else elems
  elems.any (fun e => ciEq (stripSpace e) value)

open Gen.Str in
/-- `protocol.IsBadTrailer` (after the fix: the empty name is bad) -/
def isBadTrailer (key : Bytes) : Bool :=
  match key with
  | [] => true
  | k0 :: _ =>
    let c := k0 ||| 0x20
    if c = 97 then ciEq key strAuthorization
    else if c = 99 then
      if key.length ≥ 12 ∧ ciEq (key.take 8) (strContentType.take 8) then
        ciEq (key.drop 8) (strContentEncoding.drop 8) || ciEq (key.drop 8) (strContentLength.drop 8) ||
        ciEq (key.drop 8) (strContentType.drop 8) || ciEq (key.drop 8) (strContentRange.drop 8)
      else ciEq key strConnection
    else if c = 101 then ciEq key strExpect
    else if c = 104 then ciEq key strHost
    else if c = 107 then ciEq key strKeepAlive
    else if c = 109 then ciEq key strMaxForwards
    else if c = 112 then
      if key.length ≥ 16 ∧ ciEq (key.take 6) (strProxyConnection.take 6) then
        ciEq (key.drop 6) (strProxyConnection.drop 6) || ciEq (key.drop 6) (strProxyAuthenticate.drop 6) ||
        ciEq (key.drop 6) (strProxyAuthorization.drop 6)
      else false
    else if c = 114 then ciEq key strRange
    else if c = 116 then ciEq key strTE || ciEq key strTrailer || ciEq key strTransferEncoding
    else if c = 119 then ciEq key strWWWAuthenticate
    else false

/-- optional whitespace around a list element is SP / HTAB (`Trailer.AddTrailers` since 117944e) -/
def stripOWS (b : Bytes) : Bytes :=
  ((b.dropWhile (fun c => c == 32 || c == 9)).reverse.dropWhile (fun c => c == 32 || c == 9)).reverse

/-- `Trailer.AddTrailers(value)` on an empty list (= `SetTrailers(value)`): the declared names (normalised, bad ones
dropped) and whether the LAST non-empty element was rejected (the Go loop overwrites `err` on every element).  Several
`Trailer` fields of one message combine: the callers append (117944e). -/
def setTrailers (disableNorm : Bool) (v : Bytes) : List Bytes × Bool :=
  if v.isEmpty then ([], false) else
  let elems := splitOn 44 v
  let elems := if v.getLast? = some 44 then elems.dropLast else elems
  let keys := (elems.map stripOWS).filter (fun e => !e.isEmpty) |>.map (normalizeKey disableNorm)
  (keys.filter (fun k => !isBadTrailer k), match keys.getLast? with | some k => isBadTrailer k | none => false)

end Hertz.H1
