import Hertz.Model.Http1.Exchange
import Hertz.Model.Http1.Stream
/-!
C11 — the client's STREAMING mode (`client.WithResponseBodyStream(true)`).

`HostClient.doNonNilReqResp` with `c.ResponseBodyStream`: `ReadHeaders` as in buffered mode, then
`resp.ReadRespBodyStream` = `ext.ReadBodyWithStreaming` (prefetch) + `ext.AcquireBodyStream` wrapped in a
`clientRespStream` whose `Close` runs `ext.ReleaseBodyStream` (`bodyStream.skipRest`) and then the callback that
closes or releases the connection.  The `bodyStream` is the one of the server side (C14): the fixed-length and
chunked paths ARE `Stream.streamBody` (same Go functions `bodyStream.Read` / `skipRest`), called with the framing
of the response head.  What is the client's own:

* the prefetch.  `maxEff` = `MaxResponseBodySize`, 8192 when unset.
  - `Content-Length: n`, `n ≤ maxEff`: `appendBodyFixedSize(min n 8192)` — blocks, fails with the wire;
  - `n > maxEff`: `readBodyIdentity(min maxEff 8192)` takes what has ARRIVED (never fails, never waits for more
    than one byte) until it has more than that bound; `errBodyTooLarge` is swallowed by `ReadRespBodyStream`, the
    stream is built all the same: **the size limit is not enforced in streaming mode**, it only bounds the prefetch.
    How much is prefetched depends on segmentation and on the capacity of the pooled body buffer: the prefetched
    length `p` is a parameter (`prefetchOk`), the bytes the caller reads do not depend on it — unless the peer sent
    bytes beyond the declared length, which land in the prefetch buffer: `p > n`, and `bodyStream.read` then
    indexes `p[n : n+m]` with `m < 0` (`overread`: the Go code panics with slice bounds out of range as soon as a
    `Read` leaves the prefetch buffer);
  - chunked: nothing is prefetched;
  - no framing (until close): `readBodyIdentity` with a negative bound = no bound: the WHOLE body is read before
    `Do` returns, whatever `MaxResponseBodySize` says; a time-out ends it like EOF does.
* no stream at all (`NoResponseBody`) when the body must be skipped (HEAD, `resp.SkipBody`, 1xx/204/304): `Do`
  closes or releases the connection itself, as in buffered mode.
* the connection: held while the stream is open; `CloseBodyStream` → `skipRest` error or `Connection: close` on
  either side → closed, else released with what follows the message.

The caller is the consumer of C14 (`Stream.Consume`) plus what it does with the stream afterwards.
-/
namespace Hertz.H1.RespStream
open Hertz Hertz.H1 Hertz.H1.RespRead Hertz.H1.Stream

/-- what the caller does with the stream once it stopped reading -/
inductive Fin where
  | close      -- `resp.CloseBodyStream()`
  | never      -- the Response object is kept, the stream stays open
  | reuse      -- the same Response object goes into the next `Do`, whose `resp.Reset()` closes the stream first
deriving Repr, DecidableEq

def maxEff (maxBody : Nat) : Nat := if maxBody > 0 then maxBody else Gen.maxContentLengthInStream.toNat

/-- the framing of the response head as the `bodyStream` sees it -/
def asReq (hd : RespHead) : ReqHead := { cl := hd.cl, trailer := hd.trailer, method := [80] }

/-- the configuration under which the server-side `streamBody` is the client's fixed-length stream: the blocking
prefetch of `min n 8192` bytes exists only when the declared length is within the limit -/
def bodyCfg (dn : Bool) (maxBody : Nat) (cl : Int) : Cfg :=
  { disableNorm := dn, maxBody := if cl ≤ (maxEff maxBody : Int) then maxEff maxBody else 0 }

/-- the prefetched length the implementation reports is one the code can produce -/
def prefetchOk (maxBody : Nat) (hd : RespHead) (s1 : Bytes) (p : Nat) : Bool :=
  if hd.cl = -1 then p == 0
  else if hd.cl = -2 then p == s1.length
  else
    let n := hd.cl.toNat
    if n ≤ maxEff maxBody then p == min n Gen.maxContentLengthInStream.toNat
    else p ≤ s1.length && (min (maxEff maxBody) Gen.maxContentLengthInStream.toNat < p || p == s1.length)

structure SOut where
  head : RespHead
  /-- `resp.BodyStream() != NoResponseBody` -/
  stream : Bool
  got : Got
  /-- `bodyStream.read` left the prefetch buffer with `offset > contentLength`: slice bounds out of range -/
  fault : Bool := false
  /-- `resp.Header.Trailer()` after the reads -/
  trailers : List (Bytes × Bytes)
  /-- where the connection stands once the stream is closed (`ReleaseBodyStream`), `Connection: close` aside -/
  after : After
deriving Repr

/-- the trailer section as `bodyStream.read` stores it when the caller reached the end of a chunked body: the
same `ReadTrailer` at the same place (behind the last-chunk line) as the buffered reader -/
def trailersAtEOF (dn : Bool) (e : End) (names : List Bytes) (s1 : Bytes) : List (Bytes × Bytes) :=
  match readBodyChunked e 0 (s1.length + 1) [] s1 with
  | .ok (_, rest) =>
    (match readTrailerReq { disableNorm := dn } e names rest with
     | .ok (some tr, _) => tr
     | _ => [])
  | .error _ => names.map (fun k => (k, []))

/-- a body framed by the end of the connection: everything was prefetched -/
def identityGot (e : End) (s1 : Bytes) (c : Consume) : Got :=
  if c.stopAfter ≤ s1.length then { bytes := s1.take c.stopAfter }
  else match e with
    | .eof => { bytes := s1, eof := true }
    | .stall => { bytes := s1, err := true }

/-- `resp.ReadRespBodyStream` + the caller's reads + `ReleaseBodyStream`, after `ReadHeaders` returned `hd` and
left `s1`; `skip` = `resp.SkipBody` (HEAD or set by the application); `p` = prefetched length -/
def streamPart (dn : Bool) (maxBody : Nat) (e : End) (skip : Bool) (hd : RespHead) (s1 : Bytes) (p : Nat) (c : Consume) :
    Except Err SOut :=
  let noTr := hd.trailer.map (fun k => (k, ([] : Bytes)))
  if skip || mustSkipCL hd.status then
    -- `NoResponseBody.Read` is EOF at once
    .ok { head := hd, stream := false, got := { bytes := [], eof := decide (c.stopAfter > 0) }, trailers := noTr, after := .resync s1 }
  else if hd.cl = -2 then
    -- a failed `Read` is remembered (`readErr`): `skipRest` reports it and the connection is closed
    .ok { head := hd, stream := true, got := identityGot e s1 c, trailers := noTr,
          after := if (identityGot e s1 c).err then .closed else .resync [] }
  else if 0 ≤ hd.cl ∧ hd.cl.toNat < p then
    -- bytes beyond the declared length were prefetched (a peer that sends more than it declared): `offset` can pass
    -- `contentLength`; what the caller reads is not modelled (bytes beyond the body, or a panic); `skipRest` finds
    -- `contentLength <= pSize` and the connection goes back with what follows the PREFETCHED bytes, unless a `Read` failed
    .ok { head := hd, stream := true, got := { bytes := [], err := true }, fault := true, trailers := noTr, after := .either (s1.drop p) }
  else
    match streamBody (bodyCfg dn maxBody hd.cl) e (asReq hd) s1 c with
    | .error x => .error (ofRd x)
    | .ok (r, a) =>
      .ok { head := hd, stream := true, got := r.got,
            trailers := if hd.cl = -1 ∧ r.got.eof then trailersAtEOF dn e hd.trailer s1 else noTr,
            after := a }

/-- `ReadHeaders` + `ReadRespBodyStream` + caller -/
def streamResponse (dn : Bool) (maxBody : Nat) (e : End) (skip : Bool) (s : Bytes) (p : Nat) (c : Consume) : Except Err SOut :=
  match readHeaders dn e s with
  | .error x => .error x
  | .ok (hd, s1) => streamPart dn maxBody e skip hd s1 p c

/-! ### the connection -/

inductive SOutcome where
  | ok (r : SOut)
  | err (e : Err)
  | badPool
deriving Repr

/-- the connection after one pass of `doNonNilReqResp` in streaming mode and the caller's handling of the stream.
`drained` resolves `After.either` (a well-formed rest of a chunked message is skipped only as far as it is buffered:
`Skip` does not wait): what the implementation did.  Result: the connection that went back to the pool (if any),
and whether a connection stays HELD by an open stream (`Fin.never`; for `Fin.reuse` the caller of `exchangeS`
gets the connection back through `St.idle` at once: the next `Do` resets the Response before it acquires). -/
def attemptS (cfg : Exchange.Cfg) (rq : Exchange.Req) (sv : Exchange.Srv) (c : Exchange.Conn) (inPool : Bool)
    (p : Nat) (cs : Consume) (fin : Fin) (drained : Bool) : Option Exchange.Conn × SOutcome :=
  let c1 := Exchange.serve c sv
  match c1.pending with
  | [] =>
    if c1.peerClosed then (none, if inPool then .badPool else .err .eof)
    else (none, .err .timeout)
  | b :: s =>
    match streamResponse cfg.disableNorm cfg.maxBody (Exchange.endOf c1) (rq.skipBody || rq.appSkip) (b :: s) p cs with
    | .error x => (none, .err x)
    | .ok r =>
      let shouldClose := rq.connClose || r.head.connClose || Exchange.bodyUnread rq r.head
      if fin = .never ∧ r.stream then (none, .ok r)          -- held: neither pooled nor closed
      else
        match r.after with
        | .closed => (none, .ok r)
        | .resync rest => if shouldClose then (none, .ok r) else (some { c1 with pending := rest }, .ok r)
        | .either rest => if shouldClose || !drained then (none, .ok r) else (some { c1 with pending := rest }, .ok r)

/-- `HostClient.Do` in streaming mode for one request (retry after `ErrBadPoolConn` as in buffered mode) -/
def exchangeS (cfg : Exchange.Cfg) (st : Exchange.St) (rq : Exchange.Req) (sv : Exchange.Srv)
    (p : Nat) (cs : Consume) (fin : Fin) (drained : Bool) : Exchange.St × SOutcome :=
  match st.idle with
  | none =>
    let (c, o) := attemptS cfg rq sv {} false p cs fin drained
    ({ idle := c, dials := st.dials + 1 }, o)
  | some c0 =>
    match attemptS cfg rq sv c0 true p cs fin drained with
    | (_, .badPool) =>
      if rq.retryable then
        let (c, o) := attemptS cfg rq sv {} false p cs fin drained
        ({ idle := c, dials := st.dials + 1 }, o)
      else ({ idle := none, dials := st.dials }, .badPool)
    | (c, o) => ({ idle := c, dials := st.dials }, o)

end Hertz.H1.RespStream
