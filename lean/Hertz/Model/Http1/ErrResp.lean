import Hertz.Model.Http1.RespMsg
import Hertz.Model.Http1.Serve
/-!
The bytes of the error response of the keep-alive loop (`http1/server.go:writeErrorResponse` with
`defaultErrorHandler`): `ctx.AbortWithMsg(msg, status)` resets the response, sets the status, the default content type
and the message as body; `writeErrorResponse` then sets the server name and `Connection: close` and writes the response
with the ordinary writer (`message` of `Model/Http1/RespMsg.lean`).
-/
namespace Hertz.H1
open Hertz Hertz.Gen.Str Hertz.HW Hertz.H1.Resp

/-- `consts.StatusMessage(status)` for the three statuses `defaultErrorHandler` uses -/
def errReason (status : Nat) : Bytes :=
  if status = 408 then [82,101,113,117,101,115,116,32,84,105,109,101,111,117,116]                                   -- Request Timeout
  else if status = 413 then [82,101,113,117,101,115,116,32,69,110,116,105,116,121,32,84,111,111,32,76,97,114,103,101] -- Request Entity Too Large
  else [66,97,100,32,82,101,113,117,101,115,116]                                                                    -- Bad Request

/-- the message `defaultErrorHandler` passes to `AbortWithMsg` -/
def errMsg (status : Nat) : Bytes :=
  if status = 408 then [82,101,113,117,101,115,116,32,116,105,109,101,111,117,116]                                  -- Request timeout
  else if status = 413 then [82,101,113,117,101,115,116,32,69,110,116,105,116,121,32,84,111,111,32,76,97,114,103,101]
  else [69,114,114,111,114,32,119,104,101,110,32,112,97,114,115,105,110,103,32,114,101,113,117,101,115,116]         -- Error when parsing request

/-- the response header after `AbortWithMsg` + `SetServerBytes` + `SetConnectionClose` -/
def errHdr (status : Nat) (server : Bytes) (date : Option Bytes) : RespHdr :=
  { statusLine := statusLineOf status (errReason status), server := server, date := date,
    contentType := defaultContentType, contentLength := 0, contentEncoding := [], clBytes := [], h := [],
    trailer := [], cookies := [], connClose := true }

def errProg (status : Nat) : Prog := { status := status, body := .bytes (errMsg status), trailers := [] }

/-- what `writeErrorResponse` puts on the wire -/
def errorResponse (status : Nat) (server : Bytes) (date : Option Bytes) : Bytes :=
  message (errHdr status server date) (errProg status) false

end Hertz.H1
