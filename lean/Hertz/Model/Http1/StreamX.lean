import Hertz.Model.Http1.Stream
/-!
Extension of the streaming serve-loop model (`Stream.lean`) by two things the plain model has no
notion of:

* **the idle style of the transport** (`poll`).  With `Server.IdleTimeout == 0` on a transport that
  is not the standard one (netpoll), `Server.Serve` returns to the network layer after every
  keep-alive request (`if s.IdleTimeout == 0 { return }`) and is entered again for the next request
  on the same connection while unread input remains.  Every entry is a first iteration
  (`connRequestNum == 1`): no idle `Peek(4)`, a head cut short is answered, not dropped.  What has
  to hold before `Serve` hands the connection back is the same as before the next loop iteration:
  the streamed body has been released (`ext.ReleaseBodyStream`), i.e. the connection stands behind
  the body or is closed.

* **read time-outs in the middle of the stream** (`segs`).  The inbound stream is given as the list
  of segments between time-out events: while reading the segment `v` of `v :: more` a read that
  needs a byte beyond `v` fails once with a time-out when `more ≠ []` (afterwards the bytes of
  `more` would be readable), and ends as `e` says when `more = []`.  Every reader of the plain
  model already has this behaviour for a wire that stalls for good (`End.stall`), so one loop
  iteration is the plain iteration on the view `(v, .stall)`.  What the code does *after* such an
  error is the point: the header reader answers 408 and `Serve` returns; the prefetch fails and
  `Serve` returns; `bodyStream.Read` remembers the error (`readErr`), `skipRest` reports it and
  `Serve` returns; `skipRest`'s own reads fail and `Serve` returns; the idle `Peek(4)` fails and
  `Serve` returns.  So no path goes on reading: the later segments are looked at only when, in poll
  style, a time-out falls exactly on a message boundary (nothing is being read then: the poller
  calls `Serve` again when the bytes of the next segment arrive and the time-out never fires).
-/
namespace Hertz.H1.Stream
open Hertz Hertz.H1 Hertz.Gen.Str

/-- how reads of the current segment end: a later segment means a time-out -/
def viewEnd (e : End) : List Bytes → End
  | [] => e
  | _ :: _ => .stall

/-- `utils.ParseChunkSize` on a wire with time-out segments.  `bytesconv.ReadHexInt` takes a failed
`Peek(1)` after at least one digit for the end of the number and drops the error
(`if i > 0 { return n, nil }`): a time-out that strikes right there is used up without anybody
noticing, and the rest of the size line is read from the next segment.  It is the one place where a
read error does not end the connection.  Harmless as the code stands: if the number was cut the next
byte is a hex digit, which `ParseChunkSize` refuses behind the number (only blanks and CR may follow). -/
def parseChunkSizeX (e : End) (v : Bytes) (more : List Bytes) : Except RdErr (Nat × Bytes × List Bytes) :=
  match readHexInt (viewEnd e more) v with
  | .error .eof => .error .unexpectedEOF
  | .error x => .error x
  | .ok (n, []) =>
    (match more with
     | [] => (match chunkSizeTail e [] with
              | .error x => .error x
              | .ok r => .ok (n, r, []))
     | w :: ms => (match chunkSizeTail (viewEnd e ms) w with
                   | .error x => .error x
                   | .ok r => .ok (n, r, ms)))
  | .ok (n, c :: t) =>
    match chunkSizeTail (viewEnd e more) (c :: t) with
    | .error x => .error x
    | .ok r => .ok (n, r, more)

/-- `consumeChunked` with time-out segments: `st.s` is what is left of the current segment -/
def consumeChunkedX (cfg : Cfg) (e : End) (names : List Bytes) (c : Consume) :
    Nat → ChunkSt → List Bytes → Bytes → Got × ChunkSt × List Bytes
  | 0, st, more, acc => ({ bytes := acc, err := true }, st, more)
  | fuel + 1, st, more, acc =>
    if acc.length ≥ c.stopAfter then ({ bytes := acc }, st, more) else
    let p := min c.readSize (c.stopAfter - acc.length)
    if st.chunkEOF then ({ bytes := acc, eof := true }, st, more) else
    let hdr : Except RdErr (ChunkSt × List Bytes × Bool) :=
      if st.chunkLeft = 0 then
        match parseChunkSizeX e st.s more with
        | .error x => .error x
        | .ok (0, rest, more') =>
          match readTrailerReq cfg (viewEnd e more') names rest with
          | .ok (some _, rest') => .ok ({ s := rest', chunkLeft := 0, chunkEOF := true }, more', true)
          | .ok (none, rest') => .ok ({ s := rest', chunkLeft := 0, chunkEOF := false }, more', true)
          | .error x => .error x
        | .ok (n, rest, more') => .ok ({ s := rest, chunkLeft := n }, more', false)
      else .ok (st, more, false)
    match hdr with
    | .error _ => ({ bytes := acc, err := true }, st, more)
    | .ok (st1, more1, eofNow) =>
      if eofNow then ({ bytes := acc, eof := true }, st1, more1) else
      let b := min p st1.chunkLeft
      if st1.s.length < b then ({ bytes := acc, err := true }, st1, more1)
      else
        let acc' := acc ++ st1.s.take b
        let st2 : ChunkSt := { s := st1.s.drop b, chunkLeft := st1.chunkLeft - b }
        if st2.chunkLeft = 0 then
          if st2.s.take 2 = strCRLF then consumeChunkedX cfg e names c fuel { st2 with s := st2.s.drop 2 } more1 acc'
          else ({ bytes := acc', err := true }, st2, more1)
        else consumeChunkedX cfg e names c fuel st2 more1 acc'

/-- `SkipTrailer`: lines up to and including the empty line -/
def skipTrX : Nat → Bytes → Option Bytes
  | 0, _ => none
  | f + 1, s =>
    match Hertz.H1.indexByte 10 s with
    | none => none
    | some i =>
      if i = 0 then none
      else if s.take (i + 1) = strCRLF then some (s.drop (i + 1))
      else if (s.take i).getLast? = some 13 then skipTrX f (s.drop (i + 1)) else none

/-- `drainChunked` (`skipRest`) with time-out segments -/
def drainChunkedX (e : End) : Nat → ChunkSt → List Bytes → Option (Bytes × List Bytes)
  | 0, _, _ => none
  | fuel + 1, st, more =>
    if st.chunkEOF then some (st.s, more) else
    if st.chunkLeft > 0 then
      if st.s.length < st.chunkLeft + 2 then none
      else if (st.s.drop st.chunkLeft).take 2 ≠ strCRLF then none
      else drainChunkedX e fuel { s := st.s.drop (st.chunkLeft + 2), chunkLeft := 0 } more
    else
      match parseChunkSizeX e st.s more with
      | .error _ => none
      | .ok (0, rest, more') =>
        (match skipTrX (rest.length + 1) rest with
         | none => none
         | some r => some (r, more'))
      | .ok (n, rest, more') =>
        if rest.length < n + 2 then none
        else if (rest.drop n).take 2 ≠ strCRLF then none
        else drainChunkedX e fuel { s := rest.drop (n + 2), chunkLeft := 0 } more'

/-- one request in streaming mode on a wire with time-out segments: the request, where the
connection stands, and the segments not yet begun -/
def streamBodyX (cfg : Cfg) (e : End) (hd : ReqHead) (v : Bytes) (more : List Bytes) (c : Consume) :
    Except RdErr (ReqOut × After × List Bytes) :=
  if hd.cl = -1 then
    let total := v.length + (more.map List.length).sum
    let (got, st, more1) := consumeChunkedX cfg e hd.trailer c (c.stopAfter + total + 2) { s := v } more []
    if got.err then .ok ({ head := hd, got, streamed := true }, .closed, more1) else
      match drainChunkedX e (total + 2) st more1 with
      | none => .ok ({ head := hd, got, streamed := true }, .closed, more1)
      | some (rest, more2) =>
        .ok ({ head := hd, got, streamed := true }, (if st.chunkEOF then After.resync rest else After.either rest), more2)
  else
    match streamBody cfg (viewEnd e more) hd v c with
    | .error x => .error x
    | .ok (r, a) => .ok (r, a, more)

/-- where `Serve` goes on after a kept-alive request that left `rest` of the current segment:
`none` = it is not entered again (return-to-poller style with nothing left to read) -/
def nextState (poll : Bool) (rest : Bytes) (more : List Bytes) : Option (Bool × List Bytes) :=
  if poll then
    match rest, more with
    | [], more =>
      -- the time-outs never fire: nobody is reading until the bytes of the next segment arrive
      (match more.dropWhile List.isEmpty with
       | [] => none
       | m :: ms => some (true, m :: ms))
    | r :: rs, more => some (true, (r :: rs) :: more)
  else some (false, rest :: more)

/-- the keep-alive loop with idle style and time-out segments.  `fuel` bounds the number of
requests (`total length + number of segments + 1` suffices). -/
def streamLoopX (cfg : Cfg) (poll : Bool) (e : End) (c : Consume) : Nat → Bool → List Bytes → List SEv
  | 0, _, _ => []
  | _ + 1, _, [] => []
  | fuel + 1, first, v :: more =>
    let ve := viewEnd e more
    if !first && v.length < 4 then [] else
    match parseReqHead cfg.disableNorm v with
    | .error .bad => [.resp 400 true]
    | .error .needMore =>
      if v.isEmpty then (match ve with | .eof => [] | .stall => [.resp 408 true])
      else (match ve with | .eof => [.resp 400 true] | .stall => [.resp 408 true])
    | .ok (hd, n) =>
      let v1 := v.drop n
      let cont := mayContinue hd
      let pre : List SEv := if cont then [.continue100] else []
      match streamBodyX cfg e hd v1 more c with
      | .error x =>
        pre ++ (match errStatus x with
                | some st => [.resp st true]
                | none => if cont then [.resp 400 true] else [])
      | .ok (r, after, more') =>
        let close := cfg.disableKeepalive || r.head.connClose
        pre ++ [.req r, .resp 200 close] ++
          (if close then [] else
            match after with
            | .resync rest =>
              (match nextState poll rest more' with
               | none => []
               | some (f, segs) => streamLoopX cfg poll e c fuel f segs)
            | .closed => []
            | .either rest =>
              .maybeClosed ::
              (match nextState poll rest more' with
               | none => []
               | some (f, segs) => streamLoopX cfg poll e c fuel f segs))

/-- cut `s` at the (ascending, absolute) offsets `tmos`; offsets outside `0 < t < length` are
ignored; an offset given `k` times stands for `k` time-outs in a row (the peer pauses for more than
`k` read time-outs): `k - 1` empty segments (the scripted connection of the harness does the same) -/
def splitAt (s : Bytes) : Nat → List Nat → List Bytes
  | _, [] => [s]
  | pos, t :: ts =>
    if t = 0 ∨ t < pos ∨ t - pos ≥ s.length then splitAt s pos ts
    else s.take (t - pos) :: splitAt (s.drop (t - pos)) t ts

def serveStreamX (cfg : Cfg) (poll : Bool) (e : End) (c : Consume) (tmos : List Nat) (s : Bytes) : List SEv :=
  let segs := splitAt s 0 tmos
  streamLoopX cfg poll e c (s.length + segs.length) true segs

end Hertz.H1.Stream
