import Hertz.Model.Http1.Stream
/-!
Handlers that consume a streamed request body through hertz's OWN request API, and what `Server.Serve`
does with the stream after the handler returned.

Go code modelled (pkg/protocol/request.go, pkg/protocol/http1/server.go, pkg/protocol/http1/ext/stream.go):

* `Request.MultipartForm` (and `FormFile`, `FormValue`, `PostForm` on a multipart request): `mime/multipart` reads
  the body stream through a 4096-byte `bufio.Reader` until it has seen the closing delimiter line.  How many body
  bytes that takes depends on the chunking and on bufio's read-ahead, so it is a PARAMETER here (`formParse upTo`:
  the library's reads go on until `upTo` bytes were obtained or the stream reports its end); the request keeps
  referencing the stream.
* `Request.Body()/BodyE()`, `BodyWriteTo`, `PostArgs()` on a url-encoded request: `CopyZeroAlloc` reads until the
  stream reports its end or fails, then `CloseBodyStream()`.  `*bodyStream` is not an `io.Closer`, so all that
  happens is `req.bodyStream = nil`: the request no longer references the stream (`Fin.detached`); a read error is
  returned to the caller (dropped by `Body()`), nothing else remembers it.
* `Request.CloseBodyStream()`, `ResetBody()` (also inside `SetBody*`): detach without reading.
* `Request.SetBodyStream(r, n)`: `ResetBody()` and then the request references `r` (`Fin.replaced`) - e.g. a
  middleware that wraps the stream to count or limit it; reads through the wrapper reach the stream.
* After the handler (`server.go`, since d6f45a0): `if reqBodyStream != nil { err = ext.ReleaseBodyStream(reqBodyStream) … }`
  with `reqBodyStream` taken from the request BEFORE the handler ran.  So `skipRest` runs (and a remembered read error
  closes the connection) whatever the request references afterwards.  `Fin` is kept as information about the program
  (the driver reports it); it no longer changes the loop.
-/
namespace Hertz.H1.Stream
open Hertz Hertz.H1 Hertz.Gen.Str

/-- what `ctx.Request` references when the handler returns -/
inductive Fin where
  | attached   -- the `*bodyStream` built by `ContinueReadBodyStream`
  | detached   -- nothing (`bodyStream = nil`)
  | replaced   -- another reader (not a `*bodyStream`)
deriving DecidableEq, Repr

/-- the consumption alphabet -/
inductive Api where
  | none
  | read (readSize stopAfter : Nat)            -- the handler calls `Read` itself
  | formParse (upTo : Nat)                     -- `MultipartForm()` & co.: ANY amount `upTo` (see above)
  | bodyAll                                    -- `Body()`, `PostArgs()` of a url-encoded form
  | writeTo                                    -- `BodyWriteTo`
  | closeStream                                -- `CloseBodyStream()`, `ResetBody()`
  | replaceStream (readSize stopAfter : Nat)   -- `SetBodyStream(wrapper(stream), n)`, then reads through the wrapper
  | readThenBody (readSize stopAfter : Nat)    -- own reads that stop before the end, then `Body()` for the remainder
deriving Repr

/-- a consumption program as the stream and the loop see it: the `Read` calls that reach the stream, and what the
request references afterwards -/
structure Prog where
  c : Consume
  fin : Fin
deriving Repr

/-- `wire` = number of bytes behind the request head; "to the end" is a stop point no body in them can reach -/
def Api.prog (wire : Nat) : Api → Prog
  | .none => ⟨⟨1, 0⟩, .attached⟩
  | .read r k => ⟨⟨r, k⟩, .attached⟩
  | .formParse k => ⟨⟨4096, k⟩, .attached⟩
  | .bodyAll => ⟨⟨4096, wire + 1⟩, .detached⟩
  | .writeTo => ⟨⟨4096, wire + 1⟩, .detached⟩
  | .closeStream => ⟨⟨1, 0⟩, .detached⟩
  | .replaceStream r k => ⟨⟨r, k⟩, .replaced⟩
  | .readThenBody r _ => ⟨⟨r, wire + 1⟩, .detached⟩

/-- the prefetch of `ReadBodyWithStreaming` for a fixed-length body that is within the limit -/
def prefetchLen (cfg : Cfg) (cl : Nat) : Nat := min cl (min cfg.maxBody Gen.maxContentLengthInStream.toNat)

/-- one request in streaming mode with a program.  Since `/repo` d6f45a0 `Serve` releases the stream IT built (a local
taken before the handler runs), whatever the request references when the handler returns: the post-handler step is
`streamBody`'s for every `Fin` — the unread rest is skipped, a remembered read error closes the connection.
(Before the repair the release ran only while the request still referenced the stream: after `CloseBodyStream()` /
`ResetBody()` / `SetBodyStream(other)` or a failing `Body()` nothing was drained and body bytes were parsed as the next
request; `Props/C14.lean: detached_stream_is_drained_or_closed` is the theorem the repair made true.) -/
def streamBodyP (cfg : Cfg) (e : End) (hd : ReqHead) (s : Bytes) (p : Prog) : Except RdErr (ReqOut × After) :=
  streamBody cfg e hd s p.c

inductive PEv where
  | continue100
  | req (r : ReqOut) (fin : Fin)
  | resp (status : Nat) (close : Bool)
  | maybeClosed
deriving Repr

def PEv.toSEv : PEv → SEv
  | .continue100 => .continue100
  | .req r _ => .req r
  | .resp st cl => .resp st cl
  | .maybeClosed => .maybeClosed

/-- the keep-alive loop of `Server.Serve` with `StreamRequestBody`; the handler's program may depend on the request
(`prog head bytesBehindTheHead`) -/
def streamLoopP (cfg : Cfg) (e : End) (prog : ReqHead → Bytes → Prog) : Nat → Bool → Bytes → List PEv
  | 0, _, _ => []
  | fuel + 1, first, s =>
    if !first && s.length < 4 then [] else
    match parseReqHead cfg.disableNorm s with
    | .error .bad => [.resp 400 true]
    | .error .needMore =>
      if s.isEmpty then (match e with | .eof => [] | .stall => [.resp 408 true])
      else (match e with | .eof => [.resp 400 true] | .stall => [.resp 408 true])
    | .ok (hd, n) =>
      let s1 := s.drop n
      let cont := mayContinue hd
      let pre : List PEv := if cont then [.continue100] else []
      let p := prog hd s1
      match streamBodyP cfg e hd s1 p with
      | .error x =>
        pre ++ (match errStatus x with
                | some st => [.resp st true]
                | none => if cont then [.resp 400 true] else [])
      | .ok (r, after) =>
        let close := cfg.disableKeepalive || r.head.connClose
        pre ++ [.req r (if r.streamed then p.fin else .attached), .resp 200 close] ++
          (if close then [] else
            match after with
            | .resync rest => streamLoopP cfg e prog fuel false rest
            | .closed => []
            | .either rest => .maybeClosed :: streamLoopP cfg e prog fuel false rest)

def serveStreamP (cfg : Cfg) (e : End) (prog : ReqHead → Bytes → Prog) (s : Bytes) : List PEv :=
  streamLoopP cfg e prog (s.length + 1) true s

/-- the connection is where the property wants it after a request whose message is followed by `rest` -/
def After.InSync (a : After) (rest : Bytes) : Prop :=
  a = .closed ∨ a = .resync rest ∨ a = .either rest

instance (a : After) (rest : Bytes) : Decidable (After.InSync a rest) := by
  unfold After.InSync
  cases a <;> simp <;> infer_instance

end Hertz.H1.Stream
