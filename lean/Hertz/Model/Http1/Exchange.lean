import Hertz.Model.Http1.RespRead
/-!
C11 — a sequence of exchanges of one caller through `HostClient.Do` (`pkg/protocol/http1/client.go`:
`Do` → `doNonNilReqResp` → `acquireConn` … `closeConn`/`releaseConn`) against a keep-alive peer that answers
every complete request with given bytes and may then close.

What is modelled is the data path the pool logic of C10 leaves open: WHICH bytes the response reader is run
on.  A connection carries its unread bytes with it (the reader buffer of the `network.Conn` survives in the
pool), so whatever an exchange leaves unread is the front of the next response read from that connection.

* one caller ⇒ at most one idle connection (`idle`);
* `attempt`: the request is written (a peer that closed earlier swallows it), `Peek(1)`, `ReadHeaders`,
  `ReadRespBody` with the size limit; every error closes the connection; success closes it when the request or
  the response carries `Connection: close`, or when the body of a response that has one was skipped at the
  application's wish (`resp.SkipBody` set for a request that is not HEAD; /repo 19d2b4c), otherwise releases it
  with the bytes left unread;
* `Do`: an attempt on a pooled connection that fails at `Peek(1)` with EOF is `ErrBadPoolConn`; it is retried
  on a new connection iff the request method is idempotent and its body is no stream (`DefaultRetryIf`, with
  `bodyIsStream` noted before the first attempt; /repo 3183d35).
-/
namespace Hertz.H1.Exchange
open Hertz Hertz.H1 Hertz.H1.RespRead

structure Cfg where
  disableNorm : Bool := false
  maxBody : Nat := 0
deriving Repr, DecidableEq

/-- a connection as the client sees it: bytes delivered or deliverable but not yet consumed, and whether the
peer has closed behind them -/
structure Conn where
  pending : Bytes := []
  peerClosed : Bool := false
deriving Repr, DecidableEq

structure St where
  idle : Option Conn := none
  dials : Nat := 0
deriving Repr, DecidableEq

structure Req where
  /-- HEAD (the client sets `resp.SkipBody`) -/
  skipBody : Bool := false
  /-- GET/HEAD/PUT/DELETE/OPTIONS/TRACE with a body that is no stream (`Do` notes `bodyIsStream` before the first
  attempt, whose `req.Write` drops the stream from the request) -/
  retryable : Bool := true
  /-- the request carries `Connection: close` -/
  connClose : Bool := false
  /-- `resp.SkipBody` as `Do` finds it: set by the application (`skipAfterDo`: the client never leaves its own mark behind) -/
  appSkip : Bool := false
deriving Repr, DecidableEq

/-- what the peer does when it has the complete request -/
structure Srv where
  resp : Bytes
  closeAfter : Bool := false
deriving Repr, DecidableEq

inductive Outcome where
  | ok (r : Result)
  | err (e : Err)
  | badPool
deriving Repr, DecidableEq

def Outcome.isOk : Outcome → Bool
  | .ok _ => true
  | _ => false

/-- the connection after the peer has handled the request: a peer that had closed before does not see it -/
def serve (c : Conn) (sv : Srv) : Conn :=
  if c.peerClosed then c else { pending := c.pending ++ sv.resp, peerClosed := sv.closeAfter }

def endOf (c : Conn) : End := if c.peerClosed then .eof else .stall

/-- the body of a response that has one was not read because the application set `resp.SkipBody` for a request
that is not HEAD: it is still on the wire -/
def bodyUnread (rq : Req) (hd : RespHead) : Bool :=
  rq.appSkip && !rq.skipBody && !mustSkipCL hd.status && hd.cl != 0

/-- one pass of `doNonNilReqResp` on connection `c`: the connection to put back (if any), the outcome, and
whether `Do` may retry (`ErrBadPoolConn`) -/
def attempt (cfg : Cfg) (rq : Req) (sv : Srv) (c : Conn) (inPool : Bool) : Option Conn × Outcome :=
  let c1 := serve c sv
  match c1.pending with
  | [] =>
    -- `zr.Peek(1)` fails
    if c1.peerClosed then (none, if inPool then .badPool else .err .eof)
    else (none, .err .timeout)
  | b :: s =>
    match readResponseSkip (rq.skipBody || rq.appSkip) cfg.disableNorm cfg.maxBody (endOf c1) (b :: s) with
    | .error x => (none, .err x)                       -- closeConn
    | .ok r =>
      if rq.connClose || r.head.connClose || bodyUnread rq r.head then (none, .ok r)    -- closeConn
      else (some { c1 with pending := r.rest }, .ok r)            -- releaseConn

/-- `HostClient.Do` for one request -/
def exchange (cfg : Cfg) (st : St) (rq : Req) (sv : Srv) : St × Outcome :=
  match st.idle with
  | none =>
    let (c, o) := attempt cfg rq sv {} false
    ({ idle := c, dials := st.dials + 1 }, o)
  | some c0 =>
    match attempt cfg rq sv c0 true with
    | (_, .badPool) =>
      if rq.retryable then
        let (c, o) := attempt cfg rq sv {} false
        ({ idle := c, dials := st.dials + 1 }, o)
      else ({ idle := none, dials := st.dials }, .badPool)
    | (c, o) => ({ idle := c, dials := st.dials }, o)

/-- `Do` went round a second time (`ErrBadPoolConn` on the pooled connection, request repeatable) -/
def retried (cfg : Cfg) (st : St) (rq : Req) (sv : Srv) : Bool :=
  match st.idle with
  | some c0 => (attempt cfg rq sv c0 true).2 == .badPool && rq.retryable
  | none => false

/-- `resp.SkipBody` after ONE pass of `doNonNilReqResp` that found the flag as `found`: the pass saves it
(`customSkipBody`), sets the flag while it works on a HEAD request (`mark`), and a deferred assignment gives the
saved value back on every way out, the error paths included (/repo 07a471c; before, only the path that returns a
response did, so the mark of a failed pass was taken for the application's by the next one). -/
def skipAfterPass (found : Bool) (rq : Req) (_o : Outcome) : Bool :=
  let customSkipBody := found
  let _mark := customSkipBody || rq.skipBody      -- the value while the pass runs
  customSkipBody                                  -- the deferred `resp.SkipBody = customSkipBody`

/-- `resp.SkipBody` after `Do`: the passes one after the other, each finding what the one before left -/
def skipAfterDo (cfg : Cfg) (st : St) (rq : Req) (sv : Srv) : Bool :=
  match st.idle with
  | none => skipAfterPass rq.appSkip rq (attempt cfg rq sv {} false).2
  | some c0 =>
    let first := skipAfterPass rq.appSkip rq (attempt cfg rq sv c0 true).2
    if retried cfg st rq sv then skipAfterPass first rq (attempt cfg rq sv {} false).2 else first

/-- ONE Response object for a whole sequence of calls; `set` = the application sets `resp.SkipBody` before that
call (it never clears it).  The flag each call finds (`Req.appSkip` of that call). -/
def foundFlags (cfg : Cfg) : St → Bool → List (Bool × Req × Srv) → List Bool
  | _, _, [] => []
  | st, flag, (set, rq, sv) :: t =>
    let found := set || flag
    let rq' := { rq with appSkip := found }
    found :: foundFlags cfg (exchange cfg st rq' sv).1 (skipAfterDo cfg st rq' sv) t

/-- what the application set so far -/
def setSoFar : Bool → List Bool → List Bool
  | _, [] => []
  | flag, set :: t => (set || flag) :: setSoFar (set || flag) t

/-- the whole sequence: outcomes with the number of connections dialled so far -/
def run (cfg : Cfg) : St → List (Req × Srv) → List (Nat × Outcome)
  | _, [] => []
  | st, (rq, sv) :: t =>
    let (st', o) := exchange cfg st rq sv
    (st'.dials, o) :: run cfg st' t

/-- no unread bytes wait on the pooled connection -/
def Clean (st : St) : Prop := ∀ c, st.idle = some c → c.pending = []

/-- what the client returns for the response bytes of THIS exchange alone, on a new connection -/
def alone (cfg : Cfg) (rq : Req) (sv : Srv) : Outcome := (attempt cfg rq sv {} false).2

end Hertz.H1.Exchange
