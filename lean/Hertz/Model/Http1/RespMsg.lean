import Hertz.Model.Http1.Resp
import Hertz.Model.Fs
import Hertz.Spec.Resp
/-!
The whole response as `Server.Serve` + `resp.Write` (or the hijacked writer) put it on the wire: the
header block of the C05 model (`HW.RespHdr.bytes`) in the state `ResponseHeader.SetContentLength`
leaves behind, followed by the body bytes of `H1.Resp.frame`.

Moved here unchanged from `Proofs/RespMessage.lean` (so that the driver, which must not import
`Proofs/`, can compare `message` with the bytes the real server writes): `decimal`, `strHTTP11Sp`,
`statusLineOf`, `setArgKV`, `withFraming`, `toSpec`, `effFraming`, `message`.

New: `setLengthHeader`, the model of `ResponseHeader.setSpecialHeader` for the key `Content-Length`
(`Header.Set("Content-Length", v)`), after the repair of /repo commit db53447.
-/
namespace Hertz.H1.Resp
open Hertz Hertz.Gen.Str Hertz.HW

/-- the digits `bytesconv.AppendUint(nil, n)` writes (`FS.decDigits` with the 20-byte scratch buffer) -/
def decimal (n : Nat) : Bytes := (FS.decDigits 20 n).getD []

/-- `HTTP/1.1 ` -/
def strHTTP11Sp : Bytes := [72, 84, 84, 80, 47, 49, 46, 49, 32]

/-- `consts.StatusLine(code)` without the final CRLF: `fmt.Sprintf("HTTP/1.1 %d %s", code, reason)` -/
def statusLineOf (code : Nat) (reason : Bytes) : Bytes := strHTTP11Sp ++ decimal code ++ 32 :: reason

/-- `setArgBytes(h, key, value, ArgsHasValue)`: overwrite the first entry with that key, else append -/
def setArgKV : List (Bytes × Bytes) → Bytes → Bytes → List (Bytes × Bytes)
  | [], k, v => [(k, v)]
  | (k', v') :: t, k, v => if k' = k then (k, v) :: t else (k', v') :: setArgKV t k v

/-- `ResponseHeader.SetContentLength` as `resp.Write`, `writeBodyStream` and the hijacked writer call it,
for the framing `frame` decides: `n ≥ 0` writes the decimal number and deletes `Transfer-Encoding`,
`-1` clears it and sets `Transfer-Encoding: chunked`; no call (or the no-op for 1xx/204/304) leaves
the header as it is. -/
def withFraming (r : RespHdr) : Framing → RespHdr
  | .none => r
  | .cl n => { r with contentLength := n, clBytes := decimal n,
                      h := r.h.filter (fun kv => kv.1 != strTransferEncoding) }
  | .chunked => { r with contentLength := -1, clBytes := [],
                         h := setArgKV r.h strTransferEncoding strChunked }

def toSpec : Framing → Spec.Resp.Framing
  | .none => .none
  | .cl n => .cl n
  | .chunked => .chunked

/-- the framing the reader sees: the writer's if it set one, else what the header declared -/
def effFraming (d : Spec.Resp.Framing) : Framing → Spec.Resp.Framing
  | .none => d
  | .cl n => .cl n
  | .chunked => .chunked

/-- everything `resp.Write` (or the hijacked writer) puts on the wire for one response -/
def message (r : RespHdr) (p : Prog) (isHead : Bool) : Bytes :=
  (withFraming r (frame p isHead).framing).bytes ++ (frame p isHead).wire

/-- `ResponseHeader.setSpecialHeader` for the key `Content-Length` (reached from `Header.Set`, `Add`,
`SetCanonical`, …) after the repair: a value `protocol.ParseContentLength` accepts is stored as it is
(`contentLength`, `contentLengthBytes`) and the generic `Transfer-Encoding` field is deleted
(`delAllArgsBytes`), exactly as `SetContentLength(n ≥ 0)` does; any other value is ignored.
Unlike `SetContentLength` there is no `MustSkipContentLength` test. -/
def setLengthHeader (r : RespHdr) (v : Bytes) : RespHdr :=
  match FS.parseUint v with
  | .ok n => { r with contentLength := n, clBytes := v,
                      h := r.h.filter (fun kv => kv.1 != strTransferEncoding) }
  | .error _ => r

end Hertz.H1.Resp
