import Hertz.Model.Http1.Scan
/-!
Model of `pkg/protocol/http1/req/header.go`: `parseFirstLine`, `parseHeaders`, `parse`.
-/
namespace Hertz.H1
open Hertz Hertz.Gen.Str

structure ReqHead where
  method : Bytes := []
  uri : Bytes := []
  http11 : Bool := true
  host : Bytes := []
  userAgent : Bytes := []
  contentType : Bytes := []
  /-- `-2` no framing header, `-1` chunked, otherwise Content-Length -/
  cl : Int := -2
  clBytes : Bytes := []
  connClose : Bool := false
  /-- the generic header list `h.h`, wire order -/
  h : List (Bytes × Bytes) := []
  /-- declared trailer names -/
  trailer : List Bytes := []
deriving Repr, DecidableEq

inductive HeadErr where
  | needMore
  | bad        -- any parse error that is answered with 400
deriving Repr, DecidableEq

/-- `parseFirstLine`: skips leading empty lines. Returns the updated head and the bytes consumed. -/
def parseFirstLineAux : Nat → Bytes → Nat → Except HeadErr (Bytes × Nat)
  | 0, _, _ => .error .needMore
  | fuel + 1, b, consumed =>
    match nextLine b with
    | none => .error .needMore
    | some (line, rest) =>
      let consumed := consumed + (b.length - rest.length)
      if line.isEmpty then parseFirstLineAux fuel rest consumed else .ok (line, consumed)

def parseFirstLine (buf : Bytes) : Except HeadErr (ReqHead × Nat) := do
  let (line, consumed) ← parseFirstLineAux (buf.length + 1) buf 0
  match indexByte 32 line with
  | none => .error .bad
  | some 0 => .error .bad
  | some n =>
    let method := line.take n
    let b := line.drop (n + 1)
    match lastIndexByte 32 b with
    | none => .ok ({ method := method, uri := b, http11 := false }, consumed)
    | some 0 => .error .bad
    | some m =>
      .ok ({ method := method, uri := b.take m, http11 := (b.drop (m + 1)) == strHTTP11 }, consumed)

def validHeaderFieldValue (v : Bytes) : Bool := v.all (fun c => tget Gen.validHeaderFieldValueTable c != 0)

/-- `setArgBytes(h, key, value)`: overwrite the first entry with that key, else append -/
def setArg : List (Bytes × Bytes) → Bytes → Bytes → List (Bytes × Bytes)
  | [], k, v => [(k, v)]
  | (k', v') :: t, k, v => if k' = k then (k, v) :: t else (k', v') :: setArg t k v

def peekArg (h : List (Bytes × Bytes)) (k : Bytes) : Bytes :=
  match h.find? (fun kv => kv.1 == k) with
  | some kv => kv.2
  | none => []

structure HdrState where
  head : ReqHead
  err : Bool := false   -- first non-fatal error recorded (`err` variable of parseHeaders)

/-- effect of one scanned `(key, value)` pair; `none` = immediate `return 0, err` -/
def applyHeader (disableNorm : Bool) (st : HdrState) (key value : Bytes) : Option HdrState :=
  let hd := st.head
  let add : HdrState := { st with head := { hd with h := hd.h ++ [(key, value)] } }
  match key with
  | [] => some add
  | k0 :: _ =>
    if key.contains 32 || key.contains 9 then none
    else if !validHeaderFieldValue value then none
    else
      let c := k0 ||| 0x20
      if c = 104 ∧ ciEq key strHost then some { st with head := { hd with host := value } }
      else if c = 117 ∧ ciEq key strUserAgent then some { st with head := { hd with userAgent := value } }
      else if c = 99 ∧ ciEq key strContentType then some { st with head := { hd with contentType := value } }
      else if c = 99 ∧ ciEq key strContentLength then
        if hd.cl != -1 then
          match parseUint value with
          | none => some { st with err := true, head := { hd with cl := -2 } }
          | some v => some { st with head := { hd with cl := v, clBytes := value } }
        else some st
      else if c = 99 ∧ ciEq key strConnection then
        if ciEq value strClose then some { st with head := { hd with connClose := true } }   -- any letter case (9dcdbe5)
        else some { st with head := { hd with connClose := false, h := hd.h ++ [(key, value)] } }
      else if c = 116 ∧ ciEq key strTransferEncoding then
        if value != strIdentity then
          some { st with head := { hd with cl := -1, h := setArg hd.h strTransferEncoding strChunked } }
        else some st
      else if c = 116 ∧ ciEq key strTrailer then
        let (names, bad) := setTrailers disableNorm value
        some { st with err := st.err || bad, head := { hd with trailer := hd.trailer ++ names } }   -- fields combine (117944e)
      else some add

/-- the scanning loop of `parseHeaders`; returns the final state and `HLen` -/
def parseHeadersLoop (disableNorm : Bool) : Nat → Bytes → HdrState → Nat → Except HeadErr (HdrState × Nat)
  | 0, _, _, _ => .error .needMore
  | fuel + 1, B, st, hlen =>
    match scanNext disableNorm B with
    | .fin n => if st.err then .error .bad else .ok (st, hlen + n)
    | .needMore => if st.err then .error .bad else .error .needMore
    | .invalidName => .error .bad
    | .kv key value rest n =>
      match applyHeader disableNorm st key value with
      | none => .error .bad
      | some st' => parseHeadersLoop disableNorm fuel rest st' (hlen + n)

def parseHeaders (disableNorm : Bool) (hd : ReqHead) (buf : Bytes) : Except HeadErr (ReqHead × Nat) := do
  let (st, hlen) ← parseHeadersLoop disableNorm (buf.length + 1) buf { head := { hd with cl := -2 } } 0
  let hd := st.head
  let hd := if hd.cl < 0 then { hd with clBytes := [] } else hd
  let hd := if !hd.http11 && !hd.connClose then
      { hd with connClose := !hasHeaderValue (peekArg hd.h strConnection) strKeepAlive }
    else hd
  .ok (hd, hlen)

/-- `req.parse(h, buf)`: first line, completeness pre-check of the header block, header fields. -/
def parseReqHead (disableNorm : Bool) (buf : Bytes) : Except HeadErr (ReqHead × Nat) := do
  let (hd, m) ← parseFirstLine buf
  match rawHeadersLen (buf.drop m) with
  | none => .error .needMore
  | some _ =>
    let (hd, n) ← parseHeaders disableNorm hd (buf.drop m)
    .ok (hd, m + n)

end Hertz.H1
