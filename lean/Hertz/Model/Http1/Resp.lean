import Hertz.Model.HeaderWrite
/-!
Model of the response writer: `resp.Write`, `resp.writeBodyStream`,
`ResponseHeader.SetContentLength/MustSkipContentLength`, `Response.MustSkipBody`,
`ext.WriteBodyFixedSize`, `ext.WriteBodyChunked`, `ext.WriteChunk`, `bytesconv.WriteHexInt`,
`resp.chunkedBodyWriter` (Write / Flush / Finalize, after the empty-write fix), and the
HEAD / Connection decisions of `Server.Serve`.

The result is the *framing* of the message and the exact bytes that follow the header block.
-/
namespace Hertz.H1.Resp
open Hertz Hertz.Gen.Str

/-- `bytesconv.WriteHexInt`: lower-case hex, no leading zeros (`0` for zero) -/
def hexDigits : Nat → Nat → Bytes
  | 0, _ => []
  | fuel + 1, n => if n < 16 then [lowerhex n.toUInt8] else hexDigits fuel (n / 16) ++ [lowerhex (n % 16).toUInt8]

def writeHexInt (n : Nat) : Bytes := hexDigits 16 n

/-- `ext.WriteChunk(w, b, _)` -/
def writeChunk (b : Bytes) : Bytes :=
  writeHexInt b.length ++ strCRLF ++ b ++ (if b.isEmpty then [] else strCRLF)

def encodeChunks (cs : List Bytes) : Bytes := cs.flatMap writeChunk

inductive WOp where
  | write (b : Bytes)
  | flush
deriving Repr, DecidableEq

inductive BodyMode where
  | bytes (b : Bytes)                                   -- SetBody / AppendBody / Write
  | stream (declared : Int) (reads : List Bytes)        -- SetBodyStream(r, declared); `reads` = results of r.Read
  | limited (limit : Nat) (reads : List Bytes)          -- SetBodyStream(io.LimitReader(r, limit), -1)
  | writer (script : List WOp)                          -- hijacked chunked body writer
deriving Repr, DecidableEq

structure Prog where
  status : Nat
  body : BodyMode
  trailers : List (Bytes × Bytes) := []
deriving Repr, DecidableEq

/-- `ResponseHeader.MustSkipContentLength` -/
def mustSkipCL (status : Nat) : Bool :=
  if status < 100 || status == 200 then false else status == 304 || status == 204 || status < 200

inductive Framing where
  | none                 -- neither Content-Length nor chunked
  | cl (n : Nat)
  | chunked
deriving Repr, DecidableEq

structure Frame where
  framing : Framing
  /-- the bytes after the header block -/
  wire : Bytes
  /-- the writer reported an error (stream shorter than declared): the connection is closed -/
  failed : Bool := false
deriving Repr, DecidableEq

def trailerBlock (t : List (Bytes × Bytes)) : Bytes := HW.block t

/-- `io.LimitReader` + `CopyZeroAlloc`: the first `n` bytes of the stream -/
def takeStream (n : Nat) (reads : List Bytes) : Bytes := (reads.flatten).take n

/-- chunks produced by `WriteBodyChunked` when the reader returns `reads` (each at most 4096 bytes) -/
def chunkedWire (reads : List Bytes) (tr : List (Bytes × Bytes)) : Bytes :=
  encodeChunks (reads.filter (fun r => !r.isEmpty)) ++ writeChunk [] ++ trailerBlock tr

/-- what the hijacked writer puts after the header block -/
def writerWire (script : List WOp) (tr : List (Bytes × Bytes)) : Bytes :=
  encodeChunks (script.filterMap (fun o => match o with | .write b => if b.isEmpty then none else some b | .flush => none))
    ++ writeChunk [] ++ trailerBlock tr

/-- `resp.Write` for a response produced by `p` when the request was (not) a HEAD request -/
def frame (p : Prog) (isHead : Bool) : Frame :=
  let skipCL := mustSkipCL p.status
  let sendBody := !(isHead || skipCL)
  match p.body with
  | .bytes b =>
    { framing := if (sendBody || b.length > 0) && !skipCL then .cl b.length else .none,
      wire := if sendBody then b else [] }
  | .stream declared reads =>
    if skipCL then { framing := .none, wire := [] }        -- SetContentLength is a no-op: length stays 0, nothing is sent
    else if declared ≥ 0 then
      let n := declared.toNat
      let sent := takeStream n reads
      { framing := .cl n, wire := if sendBody then sent else [], failed := sendBody && sent.length != n }
    else { framing := .chunked, wire := if sendBody then chunkedWire reads p.trailers else [] }
  | .limited limit reads =>
    if skipCL then { framing := .none, wire := [] }
    else
      let sent := takeStream limit reads
      { framing := .cl limit, wire := if sendBody then sent else [], failed := sendBody && sent.length != limit }
  | .writer script =>
    -- documented exclusion: the hijacked writer on a response that may not have a body
    { framing := if skipCL then .none else .chunked, wire := writerWire script p.trailers }

/-- `Connection` header of the response as decided in `Server.Serve` -/
inductive ConnHdr where | close | keepAlive | absent
deriving Repr, DecidableEq

def connHeader (reqClose respClose http11 : Bool) : ConnHdr :=
  if reqClose || respClose then .close else if !http11 then .keepAlive else .absent

end Hertz.H1.Resp
