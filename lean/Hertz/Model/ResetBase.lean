import Hertz.Basic
/-!
Prelude of the generated reset model (`Hertz/Gen/Resets.lean`, property C09).

* `Tok` stands for a Go value the model does not look into (interface, func, map, chan, foreign struct or
  pointer): `0` is the zero value / nil, anything else is "some non-zero value" (for slices and maps: the length; for named
  integer types: the integer).
* `untranslated src` is what the translator emits for a statement outside its grammar.  It is opaque: no
  theorem about a function containing it can be proved, so a reset body the translator no longer understands
  breaks the proofs loudly instead of being skipped.
* `Wr` is the alphabet of the generated write table.
* `enc*`/`dec*` are the token codecs of the state dumps exchanged with the harness.
-/
namespace Hertz.ResetBase
open Hertz

abbrev Tok := Int

opaque untranslated (src : String) {α : Type} [Inhabited α] (x : α) : α

/-- one entry of the write table of a translated method -/
inductive Wr where
  /-- `recv.f = …` -/
  | set (f : String)
  /-- `recv.Acc().g = …` : field `g` of the `ty` value behind pointer field `f` -/
  | part (f ty g : String)
  /-- `recv.f.m()` / `recv.Acc().m()` : method `m` of nested type `ty` on field `f` -/
  | sub (f ty m : String)
  /-- `recv.m()` -/
  | self (m : String)
  /-- a statement outside the grammar -/
  | unknown (src : String)
  deriving DecidableEq, Repr

def encBool (b : Bool) : String := if b then "1" else "0"
def encInt (i : Int) : String := toString i
def encList {α : Type} (f : α → List String) (l : List α) : List String := toString l.length :: l.flatMap f
def encOpt {α : Type} (f : α → List String) : Option α → List String
  | none => ["0"]
  | some x => "1" :: f x

abbrev Dec (α : Type) := List String → Option (α × List String)

def decBool : Dec Bool
  | "0" :: t => some (false, t)
  | "1" :: t => some (true, t)
  | _ => none
def decInt : Dec Int
  | s :: t => s.toInt?.map (·, t)
  | [] => none
def decTok : Dec Tok
  | s :: t => s.toInt?.map (·, t)
  | [] => none
def decBytes : Dec Bytes
  | s :: t => (fromHex s).map (·, t)
  | [] => none
def decTokList : Dec (List Tok)
  | s :: t => s.toNat?.map (fun n => (List.replicate n 1, t))
  | [] => none
def decN {α : Type} (d : Dec α) : Nat → List String → Option (List α × List String)
  | 0, ts => some ([], ts)
  | n + 1, ts => do
    let (x, ts) ← d ts
    let (r, ts) ← decN d n ts
    pure (x :: r, ts)
def decList {α : Type} (d : Dec α) : Dec (List α)
  | s :: t => do let n ← s.toNat?; decN d n t
  | [] => none
def decOpt {α : Type} (d : Dec α) : Dec (Option α)
  | "0" :: t => some (none, t)
  | "1" :: t => do let (x, t) ← d t; pure (some x, t)
  | _ => none

end Hertz.ResetBase
