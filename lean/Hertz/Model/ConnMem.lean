import Hertz.Model.Conn
/-!
Explicit memory under the buffered connection `pkg/network/standard` (`connection.go`, `buffer.go`).

`Model/Conn.lean` keeps the bytes of a node *inside* the node (`data = buf[0:malloc]`), so two
nodes can never share memory and nobody can write behind the model's back.  Here the bytes live in a
heap of memory blocks and the nodes of the reader and writer link buffers only hold
`(blk, base, cap, malloc, off)`; slices handed to the caller are references `(blk, lo, hi)`.

* `Mem` — the heap (`blk ↦ cells`), the free list of `mcache` (blocks given back with `mcache.Free`)
  and the counter of fresh blocks.  `Mem.alloc size ch` is `malloc(size, size)` of `buffer.go`: for
  `size ≤ mallocMax` *any* previously freed block of the same capacity class may come back (the
  `ch`-th candidate of the free list; a `ch` beyond the candidates means `sync.Pool` was empty and a
  fresh block is made).  Every theorem quantifies over `ch`.  A recycled block keeps its old cells.
* reader: `mfill`, `mpeek`, `mskip`, `mrelease`, `mnext`, `mstep` mirror `fill` … `step` of
  `Model/Conn.lean` function by function, reading and writing the heap.
* writer: `mwReserve` (`Malloc`), `mwWriteBinary` (copy below `block4k`, a by-reference node holding
  the caller's `(blk, lo, hi)` from `block4k` on), `mwFlush` (every `Write` is handed the cells the node
  refers to *at that moment*).
* environment: the caller owns blocks (`caller`), may write into them and into slices it was handed at
  any time (`CStep.callerWrite`, `.fillRef`), and the allocator / other users of `mcache` may overwrite
  every block of the free list (`CStep.scribble`).
* `MNode.view` / `MReader.view` / `MWriter.view` erase the heap: they give the node / reader / writer of
  `Model/Conn.lean` (logical identities `id` are kept, so the erased run is *equal* to the list run).
-/
namespace Hertz.ConnMem
open Hertz Hertz.Conn

/-! ## heap -/

abbrev Heap := List (Nat × Bytes)

/-- the cells of block `b` (an unknown block has no cells) -/
def Heap.get : Heap → Nat → Bytes
  | [], _ => []
  | (k, v) :: t, b => if k = b then v else Heap.get t b

/-- replace the cells of block `b` -/
def Heap.set (h : Heap) (b : Nat) (v : Bytes) : Heap := (b, v) :: h.filter (fun e => e.1 != b)

/-- `copy(cells[pos:], bs)`: like Go's `copy` (and like a `Read` into `cells[pos:]`) it never writes past the end of
the block - what does not fit is not stored -/
def splice (cells : Bytes) (pos : Nat) (bs : Bytes) : Bytes :=
  cells.take pos ++ bs.take (cells.length - pos) ++ cells.drop (pos + bs.length)

/-- `cells[lo:hi]` -/
def slice (cells : Bytes) (lo hi : Nat) : Bytes := (cells.drop lo).take (hi - lo)

/-- a slice handed to / by the caller: cells `[lo, hi)` of block `blk` -/
structure Ref where
  blk : Nat
  lo : Nat
  hi : Nat
  deriving Repr, DecidableEq

def Ref.len (r : Ref) : Nat := r.hi - r.lo

/-- what the reference reads in heap `h` -/
def Heap.read (h : Heap) (r : Ref) : Bytes := slice (h.get r.blk) r.lo r.hi

/-- `copy(blk[pos:], bs)`; writing outside the block is a Go panic -/
def Heap.write (h : Heap) (blk pos : Nat) (bs : Bytes) : Heap :=
  h.set blk (splice (h.get blk) pos bs)

structure Mem where
  heap : Heap := []
  /-- `(blk, cap)` of the blocks handed back to `mcache` and not handed out again, most recent first -/
  free : List (Nat × Nat) := []
  nextBlk : Nat := 0
  deriving Repr

/-- the `ch`-th block of capacity `cap` on the free list, and the list without it -/
def pickFree : List (Nat × Nat) → Nat → Nat → Option (Nat × List (Nat × Nat))
  | [], _, _ => none
  | (b, c) :: t, cap, ch =>
    if c = cap then
      match ch with
      | 0 => some (b, t)
      | ch + 1 => (pickFree t cap ch).map (fun r => (r.1, (b, c) :: r.2))
    else (pickFree t cap ch).map (fun r => (r.1, (b, c) :: r.2))

/-- `make([]byte, size, cap)`: a block nobody has seen before, zeroed -/
def Mem.fresh (m : Mem) (cap : Nat) : Nat × Mem :=
  (m.nextBlk, { m with heap := m.heap.set m.nextBlk (List.replicate cap 0), nextBlk := m.nextBlk + 1 })

/-- `malloc(size, size)` of `buffer.go` -/
def Mem.alloc (m : Mem) (size ch : Nat) : Nat × Mem :=
  if size > mallocMax then m.fresh size
  else
    match pickFree m.free (capOf size) ch with
    | some (b, rest) => (b, { m with free := rest })
    | none => m.fresh (capOf size)

/-- `free(buf)` of `buffer.go` for a block of capacity `cap` (powers of two below `mallocMax` only reach it) -/
def Mem.release (m : Mem) (blk cap : Nat) : Mem :=
  if cap > mallocMax then m else { m with free := (blk, cap) :: m.free }

/-- the allocator (or another user of `mcache`) overwrites free memory: every cell of every block on the
free list becomes `pat` -/
def Mem.scribble (m : Mem) (pat : UInt8) : Mem :=
  { m with heap := m.free.foldl (fun h e => h.set e.1 (List.replicate (h.get e.1).length pat)) m.heap }

/-! ## nodes -/

structure MNode where
  /-- logical identity (the `id` of `Model/Conn.lean`) -/
  id : Nat
  blk : Nat
  /-- `buf` starts at cell `base` of the block (`≠ 0` only for a by-reference node of `WriteBinary`) -/
  base : Nat := 0
  cap : Nat
  malloc : Nat := 0
  off : Nat := 0
  readOnly : Bool := false
  deriving Repr, DecidableEq

def MNode.len (b : MNode) : Nat := b.malloc - b.off
def MNode.reset (b : MNode) : MNode := { b with malloc := 0, off := 0, readOnly := false }
def MNode.recyclable (b : MNode) : Bool := decide (b.cap ≤ block8k) && !b.readOnly
/-- `buf[off:malloc]` as a reference -/
def MNode.unreadRef (b : MNode) : Ref := ⟨b.blk, b.base + b.off, b.base + b.malloc⟩
/-- erase the heap: the node of `Model/Conn.lean` -/
def MNode.view (h : Heap) (b : MNode) : Node :=
  { id := b.id, cap := b.cap, data := slice (h.get b.blk) b.base (b.base + b.malloc), off := b.off, readOnly := b.readOnly }
/-- `linkBufferNode.Release` -/
def MNode.release (m : Mem) (b : MNode) : Mem := if b.readOnly then m else m.release b.blk b.cap

/-! ## reader -/

structure MReader where
  done : List MNode := []
  mid : List MNode := []
  w : MNode
  len : Nat := 0
  maxSize : Nat
  err : Option Err := none
  /-- `c.caches`: `(id, blk, cap)` of the `mcache` copies made by cross-node `Peek` -/
  caches : List (Nat × Nat × Nat) := []
  /-- ghost: the blocks of the `make([]byte, i)` copies handed out by `Peek` (garbage collected, never reused) -/
  priv : List Nat := []
  nextId : Nat
  deriving Repr

def MReader.cur (s : MReader) : List MNode := s.mid ++ [s.w]
def MReader.nodes (s : MReader) : List MNode := s.done ++ s.mid ++ [s.w]
def MReader.readNode (s : MReader) : MNode :=
  match s.mid with
  | [] => s.w
  | nd :: _ => nd

def MReader.view (h : Heap) (s : MReader) : Reader :=
  { done := s.done.map (MNode.view h), mid := s.mid.map (MNode.view h), w := s.w.view h, len := s.len,
    maxSize := s.maxSize, err := s.err, caches := s.caches.map (·.1), nextId := s.nextId }

/-- `Conn.fill(i)` -/
def mfill (m : Mem) (s : MReader) (wire : Wire) (i ch : Nat) : Except Fault (Option Err × Mem × MReader × Wire) :=
  if s.len ≥ i then pure (none, m, s, wire)
  else
    match s.err with
    | some e =>
      if s.len > 0 then pure (none, m, { s with err := some e }, wire)
      else pure (some e, m, { s with err := none }, wire)
    | none =>
      let node := s.w
      let left := node.cap - node.malloc
      let ms1 : Mem × MReader :=
        if left < i - s.len || node.readOnly then
          let malloc := if i < s.maxSize then s.maxSize else i
          let a := m.alloc malloc ch
          (a.2, { s with mid := s.mid ++ [{ node with readOnly := false }],
                         w := { id := s.nextId, blk := a.1, cap := capOf malloc }, nextId := s.nextId + 1 })
        else (m, s)
      let m1 := ms1.1
      let s1 := ms1.2
      let need := i - s1.len
      let room := s1.w.cap - s1.w.malloc
      let r := fillLoop wire need room
      -- the `Read` calls of the loop stored `r.1` at `buf[malloc:]`
      let m2 : Mem := { m1 with heap := m1.heap.write s1.w.blk (s1.w.base + s1.w.malloc) r.1 }
      let s2 : MReader := { s1 with w := { s1.w with malloc := s1.w.malloc + r.1.length }, len := s1.len + r.1.length }
      match r.2.1 with
      | .ok => pure (none, m2, s2, r.2.2)
      | .stash e => pure (none, m2, { s2 with err := some e }, r.2.2)
      | .fail e => pure (some e, m2, s2, r.2.2)
      | .hang => throw (.hang "fill: Read with empty buffer while i > 0")

/-- `Conn.Peek(i)`: the bytes of the returned slice, where it lives (`none`: nil slice), error, new state -/
def mpeek (m : Mem) (s : MReader) (wire : Wire) (i ch1 ch2 : Nat) :
    Except Fault ((Bytes × Option Ref) × Option Err × Mem × MReader × Wire) := do
  let (e, m1, s1, w1) ← mfill m s wire i ch1
  match e with
  | some e => pure (([], none), some e, m1, s1, w1)
  | none =>
    let short := s1.len < i
    let i' := if short then s1.len else i
    let err := if short then s1.err else none
    let s2 : MReader := if short then { s1 with err := none } else s1
    let node := s2.readNode
    if node.len ≥ i' then
      let ref : Ref := ⟨node.blk, node.base + node.off, node.base + node.off + i'⟩
      pure ((m1.heap.read ref, some ref), err, m1, s2, w1)
    else
      let p ← peekWalk (s2.cur.map (MNode.view m1.heap)) i'
      if block1k < i' && i' ≤ mallocMax then
        let a := m1.alloc i' ch2
        let m3 : Mem := { a.2 with heap := a.2.heap.write a.1 0 p }
        pure ((p, some ⟨a.1, 0, i'⟩), err, m3,
              { s2 with caches := s2.caches ++ [(s2.nextId, a.1, capOf i')], nextId := s2.nextId + 1 }, w1)
      else
        let a := m1.fresh i'
        let m3 : Mem := { a.2 with heap := a.2.heap.write a.1 0 p }
        pure ((p, some ⟨a.1, 0, i'⟩), err, m3, { s2 with priv := a.1 :: s2.priv }, w1)

/-- the loop of `Conn.Skip` -/
def mskipWalk : List MNode → List MNode → MNode → Nat → Except Fault (List MNode × List MNode × MNode)
  | done, mid, w, 0 => pure (done, mid, w)
  | done, [], w, ack + 1 =>
    if w.len ≥ ack + 1 then pure (done, [], { w with off := w.off + (ack + 1) })
    else throw (.nilDeref "Skip: read.next is nil")
  | done, nd :: mid, w, ack + 1 =>
    if nd.len ≥ ack + 1 then pure (done, { nd with off := nd.off + (ack + 1) } :: mid, w)
    else mskipWalk (done ++ [nd]) mid w (ack + 1 - nd.len)

def mskip (s : MReader) (n : Nat) : Except Fault (Option Err × MReader) :=
  if s.len < n then pure (some errSkip, s)
  else do
    let (done, mid, w) ← mskipWalk s.done s.mid s.w n
    pure (none, { s with done := done, mid := mid, w := w, len := s.len - n })

/-- `Conn.releaseCaches` -/
def releaseCaches (m : Mem) (caches : List (Nat × Nat × Nat)) : Mem :=
  caches.foldl (fun m c => m.release c.2.1 c.2.2) m

/-- `node.Release()` for every node of a list, in order -/
def releaseNodes (m : Mem) (l : List MNode) : Mem := l.foldl MNode.release m

def mreleaseGeneral (m : Mem) (s : MReader) : Mem × MReader :=
  let size :=
    match s.done with
    | _ :: rest => ((rest ++ [s.readNode]).map (fun nd => nd.malloc)).sum
    | [] => 0
  (releaseCaches (releaseNodes m s.done) s.caches,
   { s with done := [], w := { s.w with readOnly := true }, maxSize := clampMax s.maxSize size, caches := [] })

def mreleaseTwo (m : Mem) (s : MReader) (h : MNode) (ch : Nat) : Mem × MReader :=
  let maxSize := clampMax s.maxSize (h.malloc + s.w.malloc)
  let m1 := h.release m
  if s.w.cap > mallocMax then
    -- handleTail: newBufferNode(c.maxSize) first, then the old tail is released
    let a := m1.alloc maxSize ch
    (releaseCaches (s.w.release a.2) s.caches,
     { s with done := [], mid := [], w := { id := s.nextId, blk := a.1, cap := capOf maxSize }, nextId := s.nextId + 1,
              maxSize := maxSize, caches := [] })
  else
    (releaseCaches m1 s.caches, { s with done := [], mid := [], w := s.w.reset, maxSize := maxSize, caches := [] })

/-- `Conn.Release()` -/
def mrelease (m : Mem) (s : MReader) (ch : Nat) : Mem × MReader :=
  if s.len = 0 then
    match s.done, s.mid with
    | [], [] => (m, { s with w := s.w.reset })
    | [h], [] => mreleaseTwo m s h ch
    | [], [h] => mreleaseTwo m s h ch
    | _, _ => mreleaseGeneral m s
  else mreleaseGeneral m s

/-- `Conn.next(length, b)` -/
def mnext (m : Mem) (s : MReader) (l ch : Nat) : Except Fault (Bytes × Option Err × Mem × MReader) := do
  let p ← peekWalk (s.cur.map (MNode.view m.heap)) l
  let (e, s1) ← mskip s l
  match e with
  | some e => pure (p, some e, m, s1)
  | none =>
    let r := mrelease m s1 ch
    pure (p, none, r.1, r.2)

/-- what an operation hands to the caller besides `Out`: the reference of a `Peek` result -/
structure MOut where
  out : Out
  ref : Option Ref := none
  deriving Repr

/-- one reader operation; `ch1`, `ch2` are the allocator's choices for (at most two) `mcache.Malloc` calls -/
def mstep (m : Mem) (s : MReader) (wire : Wire) (ch1 ch2 : Nat) : Op → Except Fault (MOut × Mem × MReader × Wire)
  | .peek n => do
    let (p, e, m1, s1, w1) ← mpeek m s wire n ch1 ch2
    pure ({ out := { bytes := p.1, err := e, len := s1.len }, ref := p.2 }, m1, s1, w1)
  | .skip n => do
    let (e, s1) ← mskip s n
    pure ({ out := { err := e, len := s1.len } }, m, s1, wire)
  | .readByte => do
    let (p, e, m1, s1, w1) ← mpeek m s wire 1 ch1 ch2
    match e with
    | some e => pure ({ out := { err := some e, len := s1.len } }, m1, s1, w1)
    | none =>
      let (e2, s2) ← mskip s1 1
      match e2 with
      | some e2 => pure ({ out := { err := some e2, len := s2.len } }, m1, s2, w1)
      | none =>
        match p.1 with
        | [] => throw (.sliceBounds "ReadByte: b[0]")
        | b :: _ => pure ({ out := { bytes := [b], len := s2.len } }, m1, s2, w1)
  | .readBinary n => do
    let (p, e, m1, s1, w1) ← mpeek m s wire n ch1 ch2
    match e with
    | some e => pure ({ out := { err := some e, len := s1.len } }, m1, s1, w1)
    | none =>
      let (e2, s2) ← mskip s1 n
      pure ({ out := { bytes := p.1 ++ List.replicate (n - p.1.length) 0, err := e2, len := s2.len } }, m1, s2, w1)
  | .read k =>
    if s.len > 0 then do
      let l := min s.len k
      let (p, e, m1, s1) ← mnext m s l ch1
      pure ({ out := { bytes := p, err := e, len := s1.len } }, m1, s1, wire)
    else if k ≤ block4k then do
      let (e, m1, s1, w1) ← mfill m s wire 1 ch1
      match e with
      | some e => pure ({ out := { err := some e, len := s1.len } }, m1, s1, w1)
      | none =>
        let l := min s1.len k
        let (p, e, m2, s2) ← mnext m1 s1 l ch2
        pure ({ out := { bytes := p, err := e, len := s2.len } }, m2, s2, w1)
    else
      let r := connRead wire k
      pure ({ out := { bytes := r.1.1, err := r.1.2, len := s.len } }, m, s, r.2)
  | .release =>
    let r := mrelease m s ch1
    pure ({ out := { len := r.2.len } }, r.1, r.2, wire)
  | .len => pure ({ out := { len := s.len } }, m, s, wire)

/-! ## writer -/

structure MWriter where
  pre : List MNode := []
  w : MNode
  len : Nat := 0
  nextId : Nat
  deriving Repr

def MWriter.view (h : Heap) (s : MWriter) : Writer :=
  { pre := s.pre.map (MNode.view h), w := s.w.view h, len := s.len, nextId := s.nextId }

/-- the references the writer still has to send, in order -/
def MWriter.pendingRefs (s : MWriter) : List Ref := (s.pre ++ [s.w]).map MNode.unreadRef

/-- `Malloc(n)`: the reserved slice (`none` for `n = 0`) -/
def mwReserve (m : Mem) (s : MWriter) (n ch : Nat) : Except Fault (Option Ref × Mem × MWriter) :=
  if n = 0 then pure (none, m, s)
  else if s.len > n then
    if s.w.malloc + n > s.w.cap then throw (.sliceBounds "Malloc: node.buf[:node.malloc]")
    else pure (some ⟨s.w.blk, s.w.base + s.w.malloc, s.w.base + s.w.malloc + n⟩, m,
               { s with w := { s.w with malloc := s.w.malloc + n }, len := s.len - n })
  else
    let mallocSize := if n < defaultMallocSize then defaultMallocSize else n
    let a := m.alloc mallocSize ch
    let node : MNode := { id := s.nextId, blk := a.1, cap := capOf mallocSize, malloc := n }
    pure (some ⟨a.1, 0, n⟩, a.2, { s with pre := s.pre ++ [s.w], w := node, len := node.cap - n, nextId := s.nextId + 1 })

/-- `WriteBinary(b)` where `b` is the caller's slice `r` -/
def mwWriteBinary (m : Mem) (s : MWriter) (r : Ref) (ch : Nat) : Except Fault (Nat × Mem × MWriter) :=
  if r.len < block4k then do
    let (dst, m1, s1) ← mwReserve m s r.len ch
    match dst with
    | none => pure (r.len, m1, s1)
    | some d => pure (r.len, { m1 with heap := m1.heap.write d.blk d.lo (m1.heap.read r) }, s1)
  else
    -- newBufferNode(0) takes a 1-byte block from mcache and drops it for `b`
    let a := m.alloc 0 ch
    let node : MNode := { id := s.nextId, blk := r.blk, base := r.lo, cap := r.len, malloc := r.len, readOnly := true }
    pure (r.len, a.2, { s with pre := s.pre ++ [s.w], w := node, len := 0, nextId := s.nextId + 1 })

/-- the `for { … }` loop of `Flush`: each `Write` gets the cells the node refers to now -/
def mflushLoop (m : Mem) : List MNode → MNode → Nat → WScript → Bool × Bytes × Mem × List MNode × MNode × Nat × WScript
  | [], w, len, sc =>
    let (f, sc') := wscriptNext sc
    if f then (true, [], m, [], w, len, sc')
    else
      let sent := m.heap.read w.unreadRef
      let w1 := { w with off := w.off + (w.malloc - w.off) }
      if w1.recyclable then (false, sent, m, [], w1.reset, w1.cap, sc')
      else (false, sent, m, [], w1, len, sc')
  | h :: pre, w, len, sc =>
    let (f, sc') := wscriptNext sc
    if f then (true, [], m, h :: pre, w, len, sc')
    else
      let sent := m.heap.read h.unreadRef
      let r := mflushLoop (h.release m) pre w len sc'
      (r.1, sent ++ r.2.1, r.2.2)

/-- `Flush()` -/
def mwFlush (m : Mem) (s : MWriter) (sc : WScript) : Bool × Bytes × Mem × MWriter × WScript :=
  match s.pre with
  | [] =>
    if s.w.len = 0 then (false, [], m, s, sc)
    else
      let r := mflushLoop m [] s.w s.len sc
      (r.1, r.2.1, r.2.2.1, { s with pre := r.2.2.2.1, w := r.2.2.2.2.1, len := r.2.2.2.2.2.1 }, r.2.2.2.2.2.2)
  | h :: pre =>
    let m1 := if h.len = 0 then h.release m else m
    let pre' := if h.len = 0 then pre else h :: pre
    let r := mflushLoop m1 pre' s.w s.len sc
    (r.1, r.2.1, r.2.2.1, { s with pre := r.2.2.2.1, w := r.2.2.2.2.1, len := r.2.2.2.2.2.1 }, r.2.2.2.2.2.2)

/-! ## the connection with its caller and its allocator -/

structure MConn where
  mem : Mem
  r : MReader
  wr : MWriter
  /-- blocks owned by the caller (buffers it passes to `WriteBinary`) -/
  caller : List Nat := []
  deriving Repr

/-- `newConn(c, size)`: block 0 is the input node, block 1 the one-byte output node -/
def MConn.new (size : Nat) : MConn :=
  let maxSize := if size > defaultMallocSize then size else defaultMallocSize
  -- `malloc(maxSize, maxSize)` and `malloc(0, 0)` with nothing on the free list yet
  let a := ({} : Mem).fresh (capOf maxSize)
  let b := a.2.fresh (capOf 0)
  { mem := b.2,
    r := { w := { id := 0, blk := a.1, cap := capOf maxSize }, maxSize := maxSize, nextId := 1 },
    wr := { w := { id := 0, blk := b.1, cap := capOf 0 }, nextId := 1 } }

/-- one step of the whole system -/
inductive CStep
  /-- a reader operation with the allocator's two choices -/
  | rd (op : Op) (ch1 ch2 : Nat)
  /-- `Malloc(n)` -/
  | reserve (n ch : Nat)
  /-- `WriteBinary` of the caller's slice `r` -/
  | writeBinary (r : Ref) (ch : Nat)
  | flush
  /-- the caller allocates a buffer with content `bs` -/
  | newBuf (bs : Bytes)
  /-- the caller writes `bs` at cell `pos` of one of its own blocks -/
  | callerWrite (blk pos : Nat) (bs : Bytes)
  /-- the caller writes `bs` into a slice it got from `Malloc` (at its start) -/
  | fillRef (r : Ref) (bs : Bytes)
  /-- the allocator overwrites every free block -/
  | scribble (pat : UInt8)
  deriving Repr

/-- what a step reports -/
structure COut where
  out : Out := { len := 0 }
  ref : Option Ref := none
  n : Nat := 0
  failed : Bool := false
  sent : Bytes := []
  deriving Repr

def cstep (c : MConn) (wire : Wire) (sc : WScript) : CStep → Except Fault (COut × MConn × Wire × WScript)
  | .rd op ch1 ch2 => do
    let (o, m1, r1, w1) ← mstep c.mem c.r wire ch1 ch2 op
    pure ({ out := o.out, ref := o.ref }, { c with mem := m1, r := r1 }, w1, sc)
  | .reserve n ch => do
    let (ref, m1, wr1) ← mwReserve c.mem c.wr n ch
    pure ({ ref := ref, n := n }, { c with mem := m1, wr := wr1 }, wire, sc)
  | .writeBinary r ch => do
    let (n, m1, wr1) ← mwWriteBinary c.mem c.wr r ch
    pure ({ n := n }, { c with mem := m1, wr := wr1 }, wire, sc)
  | .flush =>
    let r := mwFlush c.mem c.wr sc
    pure ({ failed := r.1, sent := r.2.1 }, { c with mem := r.2.2.1, wr := r.2.2.2.1 }, wire, r.2.2.2.2)
  | .newBuf bs =>
    let a := c.mem.fresh bs.length
    pure ({ ref := some ⟨a.1, 0, bs.length⟩ },
          { c with mem := { a.2 with heap := a.2.heap.write a.1 0 bs }, caller := a.1 :: c.caller }, wire, sc)
  | .callerWrite blk pos bs =>
    if blk ∈ c.caller ∧ pos + bs.length ≤ (c.mem.heap.get blk).length then
      pure ({}, { c with mem := { c.mem with heap := c.mem.heap.write blk pos bs } }, wire, sc)
    else throw (.sliceBounds "caller: write outside its own buffer")
  | .fillRef r bs =>
    if bs.length ≤ r.len ∧ r.hi ≤ (c.mem.heap.get r.blk).length then
      pure ({}, { c with mem := { c.mem with heap := c.mem.heap.write r.blk r.lo bs } }, wire, sc)
    else throw (.sliceBounds "caller: write outside the reserved slice")
  | .scribble pat => pure ({}, { c with mem := c.mem.scribble pat }, wire, sc)

def crun (c : MConn) (wire : Wire) (sc : WScript) : List CStep → Except Fault (List COut × MConn × Wire × WScript)
  | [] => pure ([], c, wire, sc)
  | st :: rest => do
    let (o, c1, w1, sc1) ← cstep c wire sc st
    let (os, c2, w2, sc2) ← crun c1 w1 sc1 rest
    pure (o :: os, c2, w2, sc2)

end Hertz.ConnMem
