import Hertz.Basic
/-!
Model of the router of `pkg/route`: `tree.go` (`checkPathValid`, `router.addRoute`, `router.insert`,
`router.find`, `findChild`, `findChildWithLabel`, `newNode`, `countParams`), `engine.go`
(`Engine.addRoute`, the dispatch part of `Engine.ServeHTTP`) and `param/param.go` (`Params.Get`).

Conventions
* strings are `Bytes`; a handler chain is identified by a number (`Option Nat`, `none` = Go `nil`);
* a Go pointer that is mutated in place is modelled by returning the new node and putting it
  back at the same position of its parent (children keep their order);
* `node.parent` and `node.isLeaf` are not modelled: `parent` only serves the iterative formulation
  of the search, `isLeaf` is never read by `addRoute`/`find`;
* `router.find` is an explicit-stack depth-first search (`cn`, `parent`, `backtrackToNextNodeKind`);
  the model is the same search written recursively (`visit`): returning `miss` from a callee is
  "backtrack to the parent and go on with the next node kind".  That this is the same function is
  validated by the correspondence check (all route sets over a small alphabet, all orders);
* everything that can panic in Go is an explicit outcome: `Fault.panic site` for run-time errors
  (slice bounds / index out of range), `Fault.invalid`, `Fault.conflict`, `Fault.assert` for the
  panics the code raises on purpose at registration;
* trailing-slash recommendation (`res.tsr`), `RedirectFixedPath`, `UseRawPath`/`unescape` are not
  modelled: they only decide between 404 and a redirect when no route handler runs.
-/
namespace Hertz.Route

inductive Kind where
  | skind | pkind | akind
  deriving DecidableEq, Repr, Inhabited

/-- places where the Go code indexes or slices without a preceding length check -/
inductive Site where
  | emptySearch   -- `search[0]` in `insert`
  | paramsCap     -- `(*paramsPointer)[:(paramIndex + 1)]` beyond `cap`
  | anyIndex      -- `(*paramsPointer)[index]` in the catch-all block
  | keyIndex      -- `(*paramsPointer)[i].Key = name` after the loop
  | pathIndex     -- `path[0]` on an empty path
  deriving DecidableEq, Repr

inductive Fault where
  | panic (site : Site)
  | invalid       -- `checkPathValid` panics
  | conflict      -- "handlers are already registered for path"
  | assert        -- `utils.Assert` / explicit panics of `Engine.addRoute`
  deriving DecidableEq, Repr

def paramLabel : UInt8 := 58  -- ':'
def anyLabel : UInt8 := 42    -- '*'
def slash : UInt8 := 47       -- '/'

/-- `type node struct` of tree.go (without `parent`, `isLeaf`). -/
inductive Node where
  | mk (kind : Kind) (label : UInt8) (pfx : Bytes) (children : List Node)
       (ppath : Bytes) (pnames : List Bytes) (handlers : Option Nat)
       (paramChild : Option Node) (anyChild : Option Node)
  deriving Repr, Inhabited

namespace Node
def kind : Node → Kind | .mk k _ _ _ _ _ _ _ _ => k
def label : Node → UInt8 | .mk _ l _ _ _ _ _ _ _ => l
def pfx : Node → Bytes | .mk _ _ p _ _ _ _ _ _ => p
def children : Node → List Node | .mk _ _ _ c _ _ _ _ _ => c
def ppath : Node → Bytes | .mk _ _ _ _ p _ _ _ _ => p
def pnames : Node → List Bytes | .mk _ _ _ _ _ p _ _ _ => p
def handlers : Node → Option Nat | .mk _ _ _ _ _ _ h _ _ => h
def paramChild : Node → Option Node | .mk _ _ _ _ _ _ _ p _ => p
def anyChild : Node → Option Node | .mk _ _ _ _ _ _ _ _ a => a
/-- `&node{}` -/
def empty : Node := .mk .skind 0 [] [] [] [] none none none
end Node

/-! ## checkPathValid -/

/-- the inner loop of the `':'` case: no second wildcard before the next `/` -/
def segNoWildcard : Bytes → Bool
  | [] => true
  | c :: r => if c = slash then true else if c = paramLabel || c = anyLabel then false else segNoWildcard r

/-- loop body of `checkPathValid` at a position whose predecessor is `prev` (`none` at index 0) -/
def checkFrom : Option UInt8 → Bytes → Bool
  | _, [] => true
  | prev, c :: rest =>
    (if c = paramLabel then
        (match rest with | [] => false | d :: _ => d != slash) && segNoWildcard rest
      else if c = anyLabel then
        !rest.isEmpty && (match prev with | none => true | some p => p == slash) && !rest.contains slash
      else true) && checkFrom (some c) rest

/-- `checkPathValid(path)`: `true` iff it does not panic. -/
def checkPathValid (path : Bytes) : Bool :=
  match path with
  | [] => false
  | c :: _ => c == slash && checkFrom none path

/-! ## insert -/

def lcpLen : Bytes → Bytes → Nat
  | a :: s, b :: p => if a = b then lcpLen s p + 1 else 0
  | _, _ => 0

mutual
/-- `router.insert`, one iteration of its loop with `currentNode = n`; "go deeper" is the recursive call. -/
def insert : Node → Bytes → Option Nat → Kind → Bytes → List Bytes → Except Fault Node
  | .mk kind label pfx cs ppath pnames hs pc ac, search, h, t, pp, pn =>
    let l := lcpLen search pfx
    if l = 0 then
      -- "At root node"
      match search with
      | [] => .error (.panic .emptySearch)
      | c0 :: _ =>
        match h with
        | some _ => .ok (.mk t c0 search cs pp pn h pc ac)
        | none => .ok (.mk kind c0 search cs ppath pnames hs pc ac)
    else if l < pfx.length then
      -- "Split node" (`pfx[l]`, `pfx[0]` exist because 0 < l < len(pfx))
      let n := Node.mk kind ((pfx.drop l).headD 0) (pfx.drop l) cs ppath pnames hs pc ac
      if l = search.length then
        -- "At parent node"
        .ok (.mk t (pfx.headD 0) (pfx.take l) [n] pp pn h none none)
      else
        -- "Create child node" (`search[l]` exists because l < len(search))
        let n2 := Node.mk t ((search.drop l).headD 0) (search.drop l) [] pp pn h none none
        .ok (.mk .skind (pfx.headD 0) (pfx.take l) [n, n2] [] [] none none none)
    else if l < search.length then
      match search.drop l with
      | [] => .error (.panic .emptySearch)
      | c0 :: s' =>
        match insertL cs c0 (c0 :: s') h t pp pn with
        | .error e => .error e
        | .ok (some cs') => .ok (.mk kind label pfx cs' ppath pnames hs pc ac)
        | .ok none =>
          -- tail of `findChildWithLabel`
          if c0 = paramLabel && pc.isSome then
            match insertO pc (c0 :: s') h t pp pn with
            | .error e => .error e
            | .ok pc' => .ok (.mk kind label pfx cs ppath pnames hs pc' ac)
          else if c0 ≠ paramLabel && c0 = anyLabel && ac.isSome then
            match insertO ac (c0 :: s') h t pp pn with
            | .error e => .error e
            | .ok ac' => .ok (.mk kind label pfx cs ppath pnames hs pc ac')
          else
            -- "Create child node"
            let n := Node.mk t c0 (c0 :: s') [] pp pn h none none
            match t with
            | .skind => .ok (.mk kind label pfx (cs ++ [n]) ppath pnames hs pc ac)
            | .pkind => .ok (.mk kind label pfx cs ppath pnames hs (some n) ac)
            | .akind => .ok (.mk kind label pfx cs ppath pnames hs pc (some n))
    else
      -- "Node already exists"
      if hs.isSome && h.isSome then .error .conflict
      else match h with
        | some _ => .ok (.mk kind label pfx cs pp pn h pc ac)
        | none => .ok (.mk kind label pfx cs ppath pnames hs pc ac)
/-- the loop of `findChildWithLabel` over `children`, continued by `insert` into the child found;
`none` = no static child carries the label -/
def insertL : List Node → UInt8 → Bytes → Option Nat → Kind → Bytes → List Bytes →
    Except Fault (Option (List Node))
  | [], _, _, _, _, _, _ => .ok none
  | c :: r, l, search, h, t, pp, pn =>
    if c.label = l then
      match insert c search h t pp pn with
      | .error e => .error e
      | .ok c' => .ok (some (c' :: r))
    else
      match insertL r l search h t pp pn with
      | .error e => .error e
      | .ok none => .ok none
      | .ok (some r') => .ok (some (c :: r'))
def insertO : Option Node → Bytes → Option Nat → Kind → Bytes → List Bytes → Except Fault (Option Node)
  | none, _, _, _, _, _ => .ok none
  | some c, search, h, t, pp, pn =>
    match insert c search h t pp pn with
    | .error e => .error e
    | .ok c' => .ok (some c')
end

/-! ## router.addRoute -/

/-- The loop of `router.addRoute` after `checkPathValid`.  `rest` is `path[i:]`, `pre` is the
already rewritten `path[:i]` (parameter names removed), `nm = some s` means that control is in the
inner `for` that skips a parameter name, `s` being the part of the name read so far. -/
def addRouteLoop : (rest : Bytes) → Node → (pre : Bytes) → (pnames : List Bytes) → (nm : Option Bytes) →
    (h : Nat) → (ppath : Bytes) → Except Fault Node
  | [], root, pre, pnames, some name, h, ppath =>
    -- "path node is last fragment of route path"
    insert root pre (some h) .pkind ppath (pnames ++ [name])
  | c :: rest, root, pre, pnames, some name, h, ppath =>
    if c = slash then
      match insert root pre none .pkind [] (pnames ++ [name]) with
      | .error e => .error e
      | .ok r => addRouteLoop rest r (pre ++ [c]) (pnames ++ [name]) none h ppath
    else addRouteLoop rest root pre pnames (some (name ++ [c])) h ppath
  | [], root, pre, pnames, none, h, ppath => insert root pre (some h) .skind ppath pnames
  | c :: rest, root, pre, pnames, none, h, ppath =>
    if c = paramLabel then
      match insert root pre none .skind [] [] with
      | .error e => .error e
      | .ok r => addRouteLoop rest r (pre ++ [c]) pnames (some []) h ppath
    else if c = anyLabel then
      match insert root pre none .skind [] [] with
      | .error e => .error e
      | .ok r => insert r (pre ++ [c]) (some h) .akind ppath (pnames ++ [rest])
    else addRouteLoop rest root (pre ++ [c]) pnames none h ppath

/-- `(*router).addRoute(path, h)` on the tree rooted at `root` -/
def routerAddRoute (root : Node) (path : Bytes) (h : Nat) : Except Fault Node :=
  if checkPathValid path then addRouteLoop path root [] [] none h path else .error .invalid

/-! ## find -/

structure Found where
  handlers : Nat
  fullPath : Bytes
  params : List (Bytes × Bytes)
  deriving DecidableEq, Repr

/-- outcome of the search below one node -/
inductive Res where
  | miss                 -- nothing below this node: Go backtracks to the parent
  | hit (f : Found)      -- `res.handlers` set, loop left
  | stop                 -- loop left by `break` with `res.handlers == nil` (no backtracking)
  | panic (site : Site)
  deriving DecidableEq, Repr

@[inline] def Res.orElse : Res → (Unit → Res) → Res
  | .miss, k => k ()
  | r, _ => r

/-- the `Key` loop after the search: `(*paramsPointer)[i].Key = name` for the names of the node
found; the values were stored during the search.  Slots beyond `pnames` keep the zero key of a
fresh `Params`. -/
def zipKeys : List Bytes → List Bytes → List (Bytes × Bytes)
  | _, [] => []
  | [], v :: vs => ([], v) :: zipKeys [] vs
  | n :: ns, v :: vs => (n, v) :: zipKeys ns vs

def finish (h : Nat) (ppath : Bytes) (pnames : List Bytes) (vals : List Bytes) : Res :=
  if pnames.length > vals.length then .panic .keyIndex
  else .hit { handlers := h, fullPath := ppath, params := zipKeys pnames vals }

/-- `search[:i]` with `i = strings.Index(search, "/")` or `len(search)` -/
def segValue (s : Bytes) : Bytes := s.takeWhile (· != slash)
/-- `search[i:]` -/
def segRest (s : Bytes) : Bytes := s.dropWhile (· != slash)

mutual
/-- The body of the `for` loop of `router.find` entered with `cn = n`, remaining path `search`,
`ps` = the values stored in `(*paramsPointer)[:paramIndex]`, `cap` = `cap(*paramsPointer)`. -/
def visit : Node → Bytes → List Bytes → Nat → Res
  | .mk kind _ pfx cs ppath pnames hs pc ac, search, ps, cap =>
    match (if kind = .skind then (if pfx.isPrefixOf search then some (search.drop pfx.length) else none)
           else some search) with
    | none => .miss            -- "No matching prefix, let's backtrack"
    | some s =>
      match (match s, hs with | [], some h => some h | _, _ => none) with
      | some h => finish h ppath pnames ps
      | none =>
        (match s with
          | [] => Res.miss
          | c :: _ => visitChild cs c s ps cap).orElse fun _ =>
        (match s with
          | [] => Res.miss
          | _ :: _ => visitParam pc s ps cap).orElse fun _ =>
        visitAny ac s ps cap
/-- `cn.findChild(search[0])` followed by `continue` -/
def visitChild : List Node → UInt8 → Bytes → List Bytes → Nat → Res
  | [], _, _, _, _ => .miss
  | c :: r, l, s, ps, cap => if c.label = l then visit c s ps cap else visitChild r l s ps cap
/-- the `Param:` block -/
def visitParam : Option Node → Bytes → List Bytes → Nat → Res
  | none, _, _, _ => .miss
  | some c, s, ps, cap =>
    if ps.length + 1 > cap then .panic .paramsCap
    else visit c (segRest s) (ps ++ [segValue s]) cap
/-- the `Any:` block -/
def visitAny : Option Node → Bytes → List Bytes → Nat → Res
  | none, _, _, _ => .miss
  | some (.mk _ _ _ _ ppath pnames hs _ _), s, ps, cap =>
    if ps.length + 1 > cap then .panic .paramsCap
    else if pnames.length = 0 || pnames.length - 1 ≥ ps.length + 1 then .panic .anyIndex
    else
      let vals := (ps ++ [[]]).set (pnames.length - 1) s
      match hs with
      | none => .stop
      | some h => finish h ppath pnames vals
end

/-- `(*router).find(path, &params, false)` with `len(params) = 0`, `cap(params) = cap` -/
def find (root : Node) (path : Bytes) (cap : Nat) : Res := visit root path [] cap

/-! ## Engine -/

structure Router where
  method : Bytes
  root : Node
  deriving Repr

structure Engine where
  trees : List Router := []
  maxParams : Nat := 0
  deriving Repr

/-- `countParams` (a `uint16`) -/
def countParams (path : Bytes) : Nat := (path.count paramLabel + path.count anyLabel) % 65536

def treesGet : List Router → Bytes → Option Router
  | [], _ => none
  | t :: r, m => if t.method = m then some t else treesGet r m

/-- put the new root back into the tree of `method` (the Go code mutates through the pointer) -/
def treesSet : List Router → Bytes → Node → List Router
  | [], _, _ => []
  | t :: r, m, n => if t.method = m then { t with root := n } :: r else t :: treesSet r m n

/-- `Engine.addRoute(method, path, handlers)` with a one-element chain `h` -/
def Engine.addRoute (e : Engine) (method path : Bytes) (h : Nat) : Except Fault Engine :=
  match path with
  | [] => .error .assert
  | c :: _ =>
    if c != slash then .error .assert
    else if method.isEmpty then .error .assert
    else
      let (trees, root) := match treesGet e.trees method with
        | some t => (e.trees, t.root)
        | none => (e.trees ++ [{ method := method, root := Node.empty }], Node.empty)
      match routerAddRoute root path h with
      | .error f => .error f
      | .ok root' =>
        .ok { trees := treesSet trees method root', maxParams := max e.maxParams (countParams path) }

/-- what `Engine.ServeHTTP` does for a request whose method is `method` and whose normalised path
is `rPath` (non-empty, first byte `/`; the caller answers 400 otherwise) -/
inductive Served where
  | handler (f : Found)   -- `ctx.SetHandlers(value.handlers); ctx.SetFullPath(...); ctx.Next`
  | noRoute               -- redirect or 404: no route handler runs
  | panic (site : Site)
  deriving DecidableEq, Repr

def Engine.serve (e : Engine) (method rPath : Bytes) : Served :=
  match treesGet e.trees method with
  | none => .noRoute
  | some t =>
    match find t.root rPath e.maxParams with
    | .hit f => .handler f
    | .miss => .noRoute
    | .stop => .noRoute
    | .panic s => .panic s

/-- `Params.Get` -/
def paramsGet : List (Bytes × Bytes) → Bytes → Option Bytes
  | [], _ => none
  | (k, v) :: r, name => if k = name then some v else paramsGet r name

/-- register a list of (method, path, handler) in order -/
def Engine.addRoutes : Engine → List (Bytes × Bytes × Nat) → Except Fault Engine
  | e, [] => .ok e
  | e, (m, p, h) :: r =>
    match e.addRoute m p h with
    | .error f => .error f
    | .ok e' => Engine.addRoutes e' r

end Hertz.Route
