import Hertz.Model.Path
import Hertz.Model.Args
import Hertz.Gen.Consts
/-!
Model of `pkg/protocol/uri.go`: `getScheme`, `splitHostURI` (after the fix), `URI.parse`, `RequestURI`,
`AppendBytes/FullURI`; and of `pkg/protocol/cookie.go`: `cookieScanner.next`, `decodeCookieArg`,
`Cookie.ParseBytes` (after the fix), `Cookie.AppendBytes` (without `expires`: time formatting is Go's).
-/
namespace Hertz.Uri
open Hertz Hertz.Gen.Str

def indexOf (c : UInt8) : Bytes → Option Nat
  | [] => none
  | x :: t => if x = c then some 0 else (indexOf c t).map (· + 1)

/-- `bytes.Contains(b, pat)` -/
def containsSub (pat : Bytes) : Bytes → Bool
  | [] => pat.isEmpty
  | c :: t => pat.isPrefixOf (c :: t) || containsSub pat t

structure URI where
  scheme : Bytes := []
  host : Bytes := []
  pathOriginal : Bytes := []
  path : Bytes := []
  query : Bytes := []
  hash : Bytes := []
  username : Bytes := []
  password : Bytes := []
deriving Repr, DecidableEq

def isAlpha (c : UInt8) : Bool := (97 ≤ c && c ≤ 122) || (65 ≤ c && c ≤ 90)

/-- `getScheme`: `(scheme, rest)`; `none` = no scheme -/
def getSchemeAux : Nat → Bytes → Bytes → Option (Bytes × Bytes)
  | _, _, [] => none
  | i, acc, c :: t =>
    if isAlpha c then getSchemeAux (i + 1) (acc ++ [c]) t
    else if (48 ≤ c && c ≤ 57) || c == 43 || c == 45 || c == 46 then
      (if i = 0 then none else getSchemeAux (i + 1) (acc ++ [c]) t)
    else if c = 58 then (if i = 0 then none else some (acc, t))
    else none

def getScheme (raw : Bytes) : Option (Bytes × Bytes) := getSchemeAux 0 [] raw

/-- `splitHostURI(host, uri)` → `(scheme, host, uri)` -/
def splitHostURI (host uri : Bytes) : Bytes × Bytes × Bytes :=
  match getScheme uri with
  | none => (strHTTP, host, uri)
  | some (scheme, path) =>
    if !strSlashSlash.isPrefixOf path then (strHTTP, host, uri)
    else
      let u := path.drop 2
      match indexOf 47 u with
      | some n => (scheme, u.take n, u.drop n)
      | none =>
        match indexOf 63 u with
        | some n => (scheme, u.take n, u.drop n)
        | none => (scheme, u, strSlash)

def hasCTL (s : Bytes) : Bool := s.any (fun b => b < 32 || b == 127)

/-- `URI.parse(host, uri, false)` on a reset URI -/
def parse (host uri : Bytes) : URI :=
  if hasCTL uri then {} else
  let (scheme, host, uri) :=
    if host.isEmpty || containsSub strColonSlashSlash uri then
      let (s, h, u) := splitHostURI host uri
      (s.map toLower, h, u)
    else ([], host, uri)
  let (user, pass, host) :=
    match indexOf 64 host with
    | some n =>
      let auth := host.take n
      (match indexOf 58 auth with
       | some m => (auth.take m, auth.drop (m + 1), host.drop (n + 1))
       | none => (auth, [], host.drop (n + 1)))
    | none => ([], [], host)
  let host := host.map toLower
  let q := indexOf 63 uri
  let f := indexOf 35 uri
  let q := match q, f with
    | some qi, some fi => if qi > fi then none else some qi
    | q, _ => q
  let base : URI := { scheme, host, username := user, password := pass }
  match q, f with
  | none, none => { base with pathOriginal := uri, path := normalizePath uri }
  | some qi, none =>
    { base with pathOriginal := uri.take qi, path := normalizePath (uri.take qi), query := uri.drop (qi + 1) }
  | some qi, some fi =>
    { base with pathOriginal := uri.take qi, path := normalizePath (uri.take qi),
                query := (uri.take fi).drop (qi + 1), hash := uri.drop (fi + 1) }
  | none, some fi =>
    { base with pathOriginal := uri.take fi, path := normalizePath (uri.take fi), hash := uri.drop (fi + 1) }

def URI.schemeOrHTTP (u : URI) : Bytes := if u.scheme.isEmpty then strHTTP else u.scheme
def URI.pathOrSlash (u : URI) : Bytes := if u.path.isEmpty then strSlash else u.path

/-- `URI.RequestURI()` in the two situations in which the flag `parsedQueryArgs` and the argument list agree: a non-empty
list `qa` of arguments reached through `QueryArgs()` (flag set: the arguments are written), or `qa = []` for a URI whose
`QueryArgs()` was never called (flag clear: `queryString` is written).  The general rule, with the flag, is `requestURIp`
(`requestURIp_true_cons`, `requestURIp_false` in `Proofs/UriOps.lean` relate the two). -/
def URI.requestURI (u : URI) (qa : List ArgKV) : Bytes :=
  quotePath u.pathOrSlash ++
    (if !qa.isEmpty then 63 :: appendArgs qa else if !u.query.isEmpty then 63 :: u.query else [])

/-- `URI.FullURI()` (same two situations as `requestURI`) -/
def URI.fullURI (u : URI) (qa : List ArgKV) : Bytes :=
  u.schemeOrHTTP ++ strColonSlashSlash ++ u.host ++ u.requestURI qa ++ (if u.hash.isEmpty then [] else 35 :: u.hash)

/-- `URI.RequestURI()` (/repo 97b0e80), `parsed` = `u.parsedQueryArgs`, `qa` = the visible entries of `u.queryArgs`:
```go
if u.parsedQueryArgs {
    if u.queryArgs.Len() > 0 { dst = append(dst, '?'); dst = u.queryArgs.AppendBytes(dst) }
} else if len(u.queryString) > 0 { dst = append(dst, '?'); dst = append(dst, u.queryString...) }
```
With the flag set the arguments ARE the query (none when all were deleted; `queryString` is not looked at); with the flag
clear `queryString` is (arguments left from an earlier query string are not looked at). -/
def URI.requestURIp (u : URI) (parsed : Bool) (qa : List ArgKV) : Bytes :=
  quotePath u.pathOrSlash ++
    (if parsed then (if !qa.isEmpty then 63 :: appendArgs qa else [])
     else if !u.query.isEmpty then 63 :: u.query else [])

/-- `URI.FullURI()` with the flag -/
def URI.fullURIp (u : URI) (parsed : Bool) (qa : List ArgKV) : Bytes :=
  u.schemeOrHTTP ++ strColonSlashSlash ++ u.host ++ u.requestURIp parsed qa ++ (if u.hash.isEmpty then [] else 35 :: u.hash)

/-! ### cookies -/

def trimSp (b : Bytes) : Bytes := ((b.dropWhile (· == 32)).reverse.dropWhile (· == 32)).reverse

/-- `decodeCookieArg(nil, src, skipQuotes)` -/
def decodeCookieArg (src : Bytes) (skipQuotes : Bool) : Bytes :=
  let s := trimSp src
  if skipQuotes && s.length > 1 && s.head? == some 34 && s.getLast? == some 34 then (s.drop 1).dropLast else s

/-- the `;`-separated pieces the scanner visits (it stops when nothing is left) -/
def cookieSegs : Bytes → List Bytes
  | [] => []
  | c :: t =>
    if c = 59 then [] :: cookieSegs t
    else match cookieSegs t with
      | [] => [[c]]
      | s :: r => (c :: s) :: r

/-- one `cookieScanner.next`: `(key, value)` -/
def cookieKV (seg : Bytes) : Bytes × Bytes :=
  match indexOf 61 seg with
  | some i => (decodeCookieArg (seg.take i) false, decodeCookieArg (seg.drop (i + 1)) true)
  | none => ([], decodeCookieArg seg true)

inductive SameSite where | disabled | default | lax | strict | none
deriving Repr, DecidableEq

structure Cookie where
  key : Bytes := []
  value : Bytes := []
  maxAge : Nat := 0
  domain : Bytes := []
  path : Bytes := []
  httpOnly : Bool := false
  secure : Bool := false
  sameSite : SameSite := .disabled
  partitioned : Bool := false
deriving Repr, DecidableEq

def ciEq' : Bytes → Bytes → Bool
  | [], [] => true
  | a :: s, b :: t => toLower a == toLower b && ciEq' s t
  | _, _ => false

def parseUintDec (b : Bytes) : Option Nat :=
  if b.isEmpty || !b.all (fun c => 48 ≤ c && c ≤ 57) then none
  else
    let v := b.foldl (fun n c => n * 10 + (c - 48).toNat) 0
    if v < 2 ^ 63 then some v else none

/-- attribute step of `Cookie.ParseBytes`; `none` = parse error (bad max-age) -/
def applyAttr (c : Cookie) (kv : Bytes × Bytes) : Option Cookie :=
  let (k, v) := kv
  match k with
  | k0 :: _ =>
    let d := k0 ||| 0x20
    if d = 109 ∧ ciEq' strCookieMaxAge k then (parseUintDec v).map (fun n => { c with maxAge := n })
    else if d = 100 ∧ ciEq' strCookieDomain k then some { c with domain := v }
    else if d = 112 ∧ ciEq' strCookiePath k then some { c with path := v }
    else if d = 115 ∧ ciEq' strCookieSameSite k ∧ !v.isEmpty then
      let e := (v.headD 0) ||| 0x20
      if e = 108 ∧ ciEq' strCookieSameSiteLax v then some { c with sameSite := .lax }
      else if e = 115 ∧ ciEq' strCookieSameSiteStrict v then some { c with sameSite := .strict }
      else if e = 110 ∧ ciEq' strCookieSameSiteNone v then some { c with sameSite := .none }
      else some c
    else some c
  | [] =>
    match v with
    | v0 :: _ =>
      let d := v0 ||| 0x20
      if d = 104 ∧ ciEq' strCookieHTTPOnly v then some { c with httpOnly := true }
      else if d = 115 ∧ ciEq' strCookieSecure v then some { c with secure := true }
      else if d = 115 ∧ ciEq' strCookieSameSite v then some { c with sameSite := .default }
      else if d = 112 ∧ ciEq' strCookiePartitioned v then some { c with partitioned := true }
      else some c
    | [] => some c

/-- `Cookie.ParseBytes` (inputs without an `expires` attribute); `none` = error -/
def parseCookie (src : Bytes) : Option Cookie :=
  match cookieSegs src with
  | [] => none                      -- errNoCookies
  | first :: rest =>
    let (k, v) := cookieKV first
    rest.foldlM (fun c seg => applyAttr c (cookieKV seg)) { key := k, value := v }

def appendUintDec (n : Nat) : Bytes := (toString n).toUTF8.toList

/-- `Cookie.AppendBytes(nil)` for a cookie without expiry -/
def appendCookie (c : Cookie) : Bytes :=
  (if c.key.isEmpty then [] else c.key ++ [61]) ++ c.value ++
  (if c.maxAge > 0 then [59, 32] ++ strCookieMaxAge ++ [61] ++ appendUintDec c.maxAge else []) ++
  (if c.domain.isEmpty then [] else [59, 32] ++ strCookieDomain ++ [61] ++ c.domain) ++
  (if c.path.isEmpty then [] else [59, 32] ++ strCookiePath ++ [61] ++ c.path) ++
  (if c.httpOnly then [59, 32] ++ strCookieHTTPOnly else []) ++
  (if c.secure then [59, 32] ++ strCookieSecure else []) ++
  (match c.sameSite with
   | .disabled => []
   | .default => [59, 32] ++ strCookieSameSite
   | .lax => [59, 32] ++ strCookieSameSite ++ [61] ++ strCookieSameSiteLax
   | .strict => [59, 32] ++ strCookieSameSite ++ [61] ++ strCookieSameSiteStrict
   | .none => [59, 32] ++ strCookieSameSite ++ [61] ++ strCookieSameSiteNone) ++
  (if c.partitioned then [59, 32] ++ strCookiePartitioned else [])

end Hertz.Uri
