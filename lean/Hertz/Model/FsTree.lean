import Hertz.Model.Fs
/-!
Model of the part of the static file handler that decides WHICH bytes are served (property C08):
the open path of `pkg/app/fs.go` over an abstract directory tree, and the two file caches.

Mirrors, function by function:
* `fileExtension`, `fsHandler.newFSFile` (only its failure mode: sniffing the content type of a
  "compressed" file that is not a gzip stream), `fsHandler.compressFileNolock`,
  `fsHandler.compressAndOpenFSFile`, `fsHandler.openFSFile`,
* the cache lookup / open / cache insert part of `fsHandler.handleRequest`.

The tree maps a path (bytes, relative to the root) to a regular file: what it holds, its
modification time and the verdict `isFileCompressible` would give on it.  What a file holds is
abstract about compression: `Payload.raw b` are the bytes `b`, which are NOT a gzip stream;
`Payload.gz p` is some gzip stream that decodes to `p`.

Assumptions of this model (kept by the harness): the tree is changed by rename/unlink only, never
by writing into an existing file, so an open descriptor keeps delivering what it was opened on;
no directories; the root is writable (`errNoCreatePermission` does not occur); requests are
sequential; files are smaller than `FsMaxCompressibleFileSize`; an extension outside Go's built-in
MIME table is unknown to `mime.TypeByExtension`.
-/
namespace Hertz.FS

/-- `consts.FSCompressedFileSuffix` = ".hertz.gz" -/
def gzSuffix : Bytes := [46, 104, 101, 114, 116, 122, 46, 103, 122]

inductive Payload where
  /-- these bytes, which are not a gzip stream -/
  | raw (b : Bytes)
  /-- a gzip stream of the inner payload -/
  | gz (inner : Payload)
deriving DecidableEq, Repr

structure Node where
  payload : Payload
  mtime : Nat
  /-- verdict of `isFileCompressible(f, FsMinCompressRatio)` on this file -/
  compressible : Bool
deriving DecidableEq, Repr

abbrev Tree := List (Bytes × Node)

def Tree.find : Tree → Bytes → Option Node
  | [], _ => none
  | (q, n) :: r, p => if q = p then some n else Tree.find r p

def Tree.erase : Tree → Bytes → Tree
  | [], _ => []
  | (q, n) :: r, p => if q = p then Tree.erase r p else (q, n) :: Tree.erase r p

def Tree.put (t : Tree) (p : Bytes) (n : Node) : Tree := (p, n) :: t.erase p

inductive OpenErr where
  /-- `os.IsNotExist(err)` -/
  | notExist
  /-- any other error (the handler answers 404 as well) -/
  | other
deriving DecidableEq, Repr

/-- `fsFile`: the open descriptor (what it delivers), the `compressed` flag, `lastModified` -/
structure FsFile where
  payload : Payload
  compressed : Bool
  lastModified : Nat
deriving DecidableEq, Repr

/-- `strings.LastIndexByte` -/
def lastIndexByte (c : UInt8) : Bytes → Option Nat
  | [] => none
  | x :: t =>
    match lastIndexByte c t with
    | some i => some (i + 1)
    | none => if x = c then some 0 else none

/-- `fileInfo.Name()`: the part after the last slash -/
def baseName (path : Bytes) : Bytes :=
  match lastIndexByte 47 path with
  | some i => path.drop (i + 1)
  | none => path

/-- `fileExtension(path, compressed, compressedFileSuffix)` -/
def fileExtension (path : Bytes) (compressed : Bool) : Bytes :=
  let path := if compressed && gzSuffix.isSuffixOf path then path.take (path.length - gzSuffix.length) else path
  match lastIndexByte 46 path with
  | none => []
  | some n => path.drop n

/-- extensions of Go's built-in MIME table (`mime.TypeByExtension` non-empty) -/
def mimeKnown (ext : Bytes) : Bool :=
  ext ∈ [[46, 104, 116, 109, 108], [46, 104, 116, 109], [46, 99, 115, 115], [46, 106, 115], [46, 106, 115, 111, 110],
         [46, 103, 105, 102], [46, 112, 110, 103], [46, 106, 112, 103], [46, 120, 109, 108], [46, 112, 100, 102], [46, 115, 118, 103]]

def Payload.isGz : Payload → Bool
  | .gz _ => true
  | .raw _ => false

/-- `fsHandler.newFSFile(f, fileInfo, compressed)`: when the extension says nothing,
`readFileHeader` sniffs the first 512 bytes, through a gzip reader when `compressed`; that fails on
a file that is not a gzip stream. -/
def newFSFile (path : Bytes) (n : Node) (compressed : Bool) : Except OpenErr FsFile :=
  if !mimeKnown (fileExtension (baseName path) compressed) && compressed && !n.payload.isGz then .error .other
  else .ok { payload := n.payload, compressed := compressed, lastModified := n.mtime }

/-- `fsHandler.compressFileNolock(f, fileInfo, filePath, compressedFilePath)` -/
def compressFileNolock (t : Tree) (orig : Node) (compressedFilePath : Bytes) : Tree × Except OpenErr FsFile :=
  match t.find compressedFilePath with
  | some z =>
    -- created by a concurrent goroutine: taken as it is
    (t, newFSFile compressedFilePath z true)
  | none =>
    -- gzip into `<path>.tmp`, `os.Chtimes(tmp, now, fileInfo.ModTime())`, rename
    let z : Node := { payload := .gz orig.payload, mtime := orig.mtime, compressible := false }
    (t.put compressedFilePath z, newFSFile compressedFilePath z true)

/-- `fsHandler.compressAndOpenFSFile(filePath)` -/
def compressAndOpenFSFile (t : Tree) (filePath : Bytes) : Tree × Except OpenErr FsFile :=
  match t.find filePath with
  | none => (t, .error .notExist)
  | some o =>
    if gzSuffix.isSuffixOf filePath || !o.compressible then (t, newFSFile filePath o false)
    else compressFileNolock t o (filePath ++ gzSuffix)

/-- `fsHandler.openFSFile(filePath, mustCompress)` -/
def openFSFile (t : Tree) (filePathOriginal : Bytes) (mustCompress : Bool) : Tree × Except OpenErr FsFile :=
  let filePath := if mustCompress then filePathOriginal ++ gzSuffix else filePathOriginal
  match t.find filePath with
  | none => if mustCompress then compressAndOpenFSFile t filePathOriginal else (t, .error .notExist)
  | some z =>
    if mustCompress then
      match t.find filePathOriginal with
      | none => (t, .error .other)
      | some o =>
        if o.mtime ≠ z.mtime then
          -- the compressed file became stale: remove and re-create it
          compressAndOpenFSFile (t.erase filePath) filePathOriginal
        else (t, newFSFile filePath z true)
    else (t, newFSFile filePath z false)

/-! ### caches and `handleRequest` up to the choice of the `fsFile` -/

abbrev Cache := List (Bytes × FsFile)

def Cache.find : Cache → Bytes → Option FsFile
  | [], _ => none
  | (q, f) :: r, p => if q = p then some f else Cache.find r p

structure State where
  tree : Tree := []
  /-- `h.cache` -/
  cache : Cache := []
  /-- `h.compressedCache` -/
  ccache : Cache := []
deriving Repr

/-- `mustCompress` of `handleRequest` -/
def mustCompress (compress : Bool) (byteRange : Bytes) (acceptGzip : Bool) : Bool :=
  byteRange.length = 0 && compress && acceptGzip

/-- `handleRequest` from the cache lookup to the `fsFile` that is served (`.error`: 404). -/
def fetch (compress : Bool) (st : State) (path : Bytes) (byteRange : Bytes) (acceptGzip : Bool) :
    State × Except OpenErr FsFile :=
  let mc := mustCompress compress byteRange acceptGzip
  let fileCache := if mc then st.ccache else st.cache
  match fileCache.find path with
  | some ff => (st, .ok ff)
  | none =>
    match openFSFile st.tree path mc with
    | (t', .error e) => ({ st with tree := t' }, .error e)
    | (t', .ok ff) =>
      (if mc then { st with tree := t', ccache := (path, ff) :: st.ccache }
       else { st with tree := t', cache := (path, ff) :: st.cache }, .ok ff)

/-! ### scenarios -/

inductive Step where
  /-- (re)place the file `name` (rename over it) -/
  | write (name : Bytes) (content : Bytes) (mtime : Nat) (compressible : Bool)
  /-- (re)place `name ++ ".hertz.gz"` -/
  | plant (name : Bytes) (p : Payload) (mtime : Nat)
  | del (name : Bytes)
  | delSib (name : Bytes)
  /-- both caches empty: a new handler over the same root, or every entry older than `CacheDuration` -/
  | flush
  | get (name : Bytes) (head : Bool) (acceptGzip : Bool) (byteRange : Bytes)
deriving DecidableEq, Repr

/-- one step; a `get` also yields the file chosen -/
def step (compress : Bool) (st : State) : Step → State × Option (Except OpenErr FsFile)
  | .write name c mt z => ({ st with tree := st.tree.put name { payload := .raw c, mtime := mt, compressible := z } }, none)
  | .plant name p mt => ({ st with tree := st.tree.put (name ++ gzSuffix) { payload := p, mtime := mt, compressible := false } }, none)
  | .del name => ({ st with tree := st.tree.erase name }, none)
  | .delSib name => ({ st with tree := st.tree.erase (name ++ gzSuffix) }, none)
  | .flush => ({ st with cache := [], ccache := [] }, none)
  | .get name _ ae r =>
    let (st', f) := fetch compress st name r ae
    (st', some f)

/-- state after a list of steps -/
def stateAfter (compress : Bool) (st : State) (steps : List Step) : State :=
  steps.foldl (fun st s => (step compress st s).1) st

/-- What the client gets from an `fsFile` once decoded: the bytes of an uncompressed raw file, or
what a gzip stream sent with `Content-Encoding: gzip` decodes to. -/
def FsFile.meaning (ff : FsFile) : Option Bytes :=
  match ff.compressed, ff.payload with
  | false, .raw b => some b
  | true, .gz (.raw b) => some b
  | _, _ => none

end Hertz.FS
