import Hertz.Model.Tagexpr
/-!
# internal/tagexpr — one compiled expression, many evaluations (C20)

`tagexpr.VM` compiles the tag expressions of a struct type when the first value of that type is
run (`VM.Run` → `registerStructLocked` → `parseExpr`) and keeps the result in `structJar`, keyed by
the type; every later `Validate` of a value of that type - from whichever goroutine - evaluates the
*same* compiled tree (`structVM.exprs`).  This file models

* the cache: `validateVia` / `session` (`VM.Run` in front of `Validator.Validate`);
* what one compiled tree answers for many values: `validateShared`;
* `funcExprNode.Run` in the steps the Go code takes (`args = make([]interface{}, n)` *inside* `Run`,
  one `args[k] = v.Run(…)` per step, then the function body), executed by several evaluations at
  once under an arbitrary schedule: `Func.run`.  The buffer belongs to the evaluation.  Next to it
  stands the variant in which the buffer belongs to the node (`Func.runShared`), which is *not*
  what the code does; `Proofs/TagexprShared.lean` shows that the first is schedule independent and
  the second is not.
-/
namespace Hertz.Tagexpr

/-- what `Validator.Validate` makes of an already compiled `vd` expression (an entry of the VM's
cache): nil result or truthy ⇒ accepted -/
def runCompiled (c : Except PErr Node) (env : Env) : Verdict × Option Val :=
  match c with
  | .error .syntax => (.compileError, none)
  | .error (.unsupported w) => (.unsupported w, none)
  | .error .fuel => (.unsupported "fuel", none)
  | .error (.fault (.panic s)) => (.panic s, none)
  | .ok t =>
    match groupRun t none none env with
    | .error (.fault (.panic s)) => (.panic s, none)
    | .error (.unsupported w) => (.unsupported w, none)
    | .ok .nil => (.accept, some .nil)
    | .ok v => (if fakeBool v then .accept else .reject, some v)

/-- several values of one struct type: the expression is compiled once -/
def validateShared (expr : List Char) (envs : List Env) : List (Verdict × Option Val) :=
  let c := parseExpr expr
  envs.map (runCompiled c)

/-! ## the per-type cache of the VM -/

/-- `structJar`: struct type (an id) ↦ compiled expression of its tagged field -/
abbrev Cache := List (Nat × Except PErr Node)

def Cache.find (c : Cache) (ty : Nat) : Option (Except PErr Node) :=
  match c with
  | [] => none
  | (t, x) :: r => if t == ty then some x else Cache.find r ty

/-- one `Validate` call: look the type up, compile on a miss (and remember), evaluate -/
def validateVia (exprOf : Nat → List Char) (c : Cache) (ty : Nat) (env : Env) : Cache × (Verdict × Option Val) :=
  match c.find ty with
  | some comp => (c, runCompiled comp env)
  | none =>
    let comp := parseExpr (exprOf ty)
    ((ty, comp) :: c, runCompiled comp env)

/-- a sequence of `Validate` calls on one validator -/
def session (exprOf : Nat → List Char) : Cache → List (Nat × Env) → List (Verdict × Option Val)
  | _, [] => []
  | c, (ty, env) :: rest =>
    let (c', r) := validateVia exprOf c ty env
    r :: session exprOf c' rest

/-! ## `funcExprNode.Run`, step by step, several evaluations at once -/

namespace Func
variable {ε α β : Type}

/-- one evaluation of a function-call node in progress -/
structure Thread (α β : Type) where
  /-- the evaluated arguments so far (`args[0..pc)`), private to this evaluation -/
  buf : List α := []
  /-- set when the function body has run -/
  res : Option β := none

/-- one step of the evaluation for the value `e`: evaluate the next argument into the own buffer,
or, when all are there, call the function body -/
def step (args : List (ε → α)) (fn : List α → β) (e : ε) (t : Thread α β) : Thread α β :=
  match t.res with
  | some _ => t
  | none =>
    match args[t.buf.length]? with
    | some a => { t with buf := t.buf ++ [a e] }
    | none => { t with res := some (fn t.buf) }

def stepAt (args : List (ε → α)) (fn : List α → β) : List (ε × Thread α β) → Nat → List (ε × Thread α β)
  | [], _ => []
  | (e, t) :: r, 0 => (e, step args fn e t) :: r
  | p :: r, i + 1 => p :: stepAt args fn r i

/-- run the evaluations under a schedule (a list of thread numbers; a number out of range is a
step of some unrelated goroutine) -/
def run (args : List (ε → α)) (fn : List α → β) (ts : List (ε × Thread α β)) (sched : List Nat) : List (ε × Thread α β) :=
  sched.foldl (stepAt args fn) ts

def start (envs : List ε) : List (ε × Thread α β) := envs.map (fun e => (e, {}))

/-- what the evaluation answers when nobody else is running -/
def seq (args : List (ε → α)) (fn : List α → β) (e : ε) : β := fn (args.map (· e))

/-! the variant with ONE buffer, owned by the node and shared by all evaluations -/

structure SThread (β : Type) where
  pc : Nat := 0
  res : Option β := none
deriving DecidableEq

structure Shared (ε α β : Type) where
  buf : List α
  ts : List (ε × SThread β)

def sstepAt (args : List (ε → α)) (fn : List α → β) (buf : List α) : List (ε × SThread β) → Nat → List α × List (ε × SThread β)
  | [], _ => (buf, [])
  | (e, t) :: r, 0 =>
    match t.res with
    | some _ => (buf, (e, t) :: r)
    | none =>
      match args[t.pc]? with
      | some a => (buf.set t.pc (a e), (e, { t with pc := t.pc + 1 }) :: r)
      | none => (buf, (e, { t with res := some (fn buf) }) :: r)
  | p :: r, i + 1 =>
    let (b, r') := sstepAt args fn buf r i
    (b, p :: r')

def runShared (args : List (ε → α)) (fn : List α → β) (s : Shared ε α β) (sched : List Nat) : Shared ε α β :=
  sched.foldl (fun s i => let (b, ts) := sstepAt args fn s.buf s.ts i; { buf := b, ts := ts }) s

end Func

/-- the function body of a `funcNode` on the (unforced) results of its arguments: the first
argument that faults decides, as in the Go loop -/
def funcBody (name : String) (bo so : Option Bool) (rs : List (EvalM Val)) : EvalM Val := do
  let vs ← rs.mapM id
  return realValue (applyFn name vs) bo so

end Hertz.Tagexpr
