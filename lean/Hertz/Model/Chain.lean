import Hertz.Spec.Chain
import Hertz.Gen.Consts
/-!
Model of the handler-chain machinery.

* `pkg/app/context.go`: `RequestContext.Next`, `Abort`, `AbortWithStatus`, `IsAborted`, the `index int8`
  field (exact `int8`: the increments of `Next` saturate at `MaxInt8`, `int8(len(handlers))` truncates, slice
  indexing is checked).
* `pkg/route/routergroup.go`: `Use`, `Group`, `handle`, `combineHandlers` (with the size bound).
* `pkg/route/engine.go`: `Engine.Use`, `NoRoute`, `NoMethod`, `rebuild404Handlers`, `rebuild405Handlers`,
  `addRoute`'s assertions, and the chain selection of `ServeHTTP` (matched / 405 / 404 / missing Host).

The radix tree is *not* modelled here (that is C06): routes are static and pairwise distinct, a route
is identified by (group, number) and looked up by equality.
-/
namespace Hertz.Chain

/-- What a handler body does, in order.  Each handler records `enter` first and `exit` last. -/
inductive Act
  | next
  | abort
  | abortStatus (code : Nat)
  | probe
deriving DecidableEq, Repr

abbrev Script := List Act

inductive Fault
  /-- `handlers[index]` with the index out of range -/
  | panic (idx : Int)
  /-- the interpreter's fuel ran out (only possible for chains longer than `AbortIndex`) -/
  | fuel
  /-- `combineHandlers`: "too many handlers" -/
  | tooMany
  /-- `addRoute`: "there must be at least one handler" -/
  | noHandlers
  /-- the tree refuses a second registration of the same method and path -/
  | duplicate
  /-- the case names a group that was never created (harness-level error, not a hertz behaviour) -/
  | noGroup
deriving DecidableEq, Repr

deriving instance DecidableEq for Except

/-- `AbortIndex` as regenerated from `pkg/route/consts/const.go` -/
def abortIndex : Int := Hertz.Gen.abortIndex

/-- `if ctx.index < math.MaxInt8 { ctx.index++ }` on an `int8` (the increment saturates at 127) -/
def inc8 (i : Int) : Int := if i < 127 then i + 1 else i

/-- `int8(len(ctx.handlers))` -/
def trunc8 (n : Nat) : Int := ((n : Int) + 128) % 256 - 128

/-- trace produced so far, and how the call ended (`ok newIndex`) -/
abbrev R := List Event × Except Fault Int

def emit (e : Event) (r : R) : R := (e :: r.1, r.2)

def R.bind (r : R) (k : Int → R) : R :=
  match r with
  | (tr, .ok i) => (tr ++ (k i).1, (k i).2)
  | (tr, .error e) => (tr, .error e)

/-- The body of the handler at position `pos`, started with `ctx.index = i`; `nx` is `ctx.Next`
after its `index++`. -/
def runActs (nx : Int → R) (pos : Nat) : List Act → Int → R
  | [], i => ([], .ok i)
  | .next :: r, i => (nx (inc8 i)).bind (runActs nx pos r)
  | .abort :: r, _ => emit (.abort pos) (runActs nx pos r abortIndex)
  | .abortStatus c :: r, _ => emit (.abortStatus pos c) (runActs nx pos r abortIndex)
  | .probe :: r, i => emit (.probe pos i) (runActs nx pos r i)

/-- The `for ctx.index < int8(len(ctx.handlers))` loop of `Next`, entered with `ctx.index = i`. -/
def nextLoop : Nat → List Script → Int → R
  | 0, _, _ => ([], .error .fuel)
  | f + 1, hs, i =>
    if i < trunc8 hs.length then
      if i < 0 then ([], .error (.panic i)) else
      match hs[i.toNat]? with
      | none => ([], .error (.panic i))
      | some sc =>
        emit (.enter i.toNat)
          ((runActs (nextLoop f hs) i.toNat sc i).bind fun j =>
            emit (.exit i.toNat j) (nextLoop f hs (inc8 j)))
    else ([], .ok i)

/-- `ctx.Next(c)` with `ctx.index = i` (both increments of `Next` are the saturating `inc8`) -/
def next (fuel : Nat) (hs : List Script) (i : Int) : R := nextLoop fuel hs (inc8 i)

/-- Fuel that provably suffices for every chain no longer than `AbortIndex`. -/
def fuelFor (hs : List Script) : Nat := if hs.length ≤ 63 then hs.length + 2 else 20000

/-- A fresh context (`index = -1`) running the chain: `ctx.SetHandlers(hs); ctx.Next(c)`. -/
def run (hs : List Script) : R := next (fuelFor hs) hs (-1)

def nexts : Script → Nat
  | [] => 0
  | .next :: t => nexts t + 1
  | _ :: t => nexts t

/-! ### registration -/

structure Route where
  method : Nat
  grp : Nat
  num : Nat
  chain : List H
deriving DecidableEq, Repr

structure Engine where
  /-- `Handlers` of every `RouterGroup`, `0` is the engine's own -/
  groups : List (List H)
  routes : List Route
  noRoute : List H
  noMethod : List H
  allNoRoute : List H
  allNoMethod : List H
deriving DecidableEq, Repr

def Engine.new : Engine := ⟨[[]], [], [], [], [], []⟩

/-- `RouterGroup.combineHandlers` -/
def combineHandlers (gh hs : List H) : Except Fault (List H) :=
  if ((gh.length + hs.length : Nat) : Int) ≥ abortIndex then .error .tooMany else .ok (gh ++ hs)

def Engine.sameRoute (method g k : Nat) (r : Route) : Bool := r.method == method && r.grp == g && r.num == k
def Engine.otherMethod (method g k : Nat) (r : Route) : Bool := r.method != method && r.grp == g && r.num == k

def Engine.apply (e : Engine) : Op → Except Fault Engine
  | .use g m =>
    match e.groups[g]? with
    | none => .error .noGroup
    | some gh =>
      -- RouterGroup.Use: append (no bound check here)
      let e1 := { e with groups := e.groups.set g (gh ++ m) }
      if g = 0 then
        -- Engine.Use: rebuild404Handlers, rebuild405Handlers
        match combineHandlers (gh ++ m) e.noRoute with
        | .error f => .error f
        | .ok a =>
          match combineHandlers (gh ++ m) e.noMethod with
          | .error f => .error f
          | .ok b => .ok { e1 with allNoRoute := a, allNoMethod := b }
      else .ok e1
  | .rawUse m =>
    match e.groups[0]? with
    | none => .error .noGroup
    | some gh => .ok { e with groups := e.groups.set 0 (gh ++ m) }
  | .group p m =>
    match e.groups[p]? with
    | none => .error .noGroup
    | some gh =>
      match combineHandlers gh m with
      | .error f => .error f
      | .ok c => .ok { e with groups := e.groups ++ [c] }
  | .handle g method k hs =>
    match e.groups[g]? with
    | none => .error .noGroup
    | some gh =>
      match combineHandlers gh hs with
      | .error f => .error f
      | .ok c =>
        if c.isEmpty then .error .noHandlers
        else if e.routes.any (Engine.sameRoute method g k) then .error .duplicate
        else .ok { e with routes := e.routes ++ [⟨method, g, k, c⟩] }
  | .noRoute hs =>
    match combineHandlers (e.groups.headD []) hs with
    | .error f => .error f
    | .ok a => .ok { e with noRoute := hs, allNoRoute := a }
  | .noMethod hs =>
    match combineHandlers (e.groups.headD []) hs with
    | .error f => .error f
    | .ok a => .ok { e with noMethod := hs, allNoMethod := a }

/-- Apply calls in order; stops at the first one that panics and reports its position. -/
def Engine.applyAll (e : Engine) (pos : Nat) : List Op → Except (Nat × Fault) Engine
  | [] => .ok e
  | op :: t =>
    match e.apply op with
    | .error f => .error (pos, f)
    | .ok e' => Engine.applyAll e' (pos + 1) t

/-- Chain selection of `Engine.ServeHTTP` (with `HandleMethodNotAllowed` on) and the status set
before the chain runs (`200` stands for "not set"). -/
def Engine.select (e : Engine) (method g k : Nat) (noHost : Bool) : List H × Nat :=
  if noHost then (e.groups.headD [], 400)
  else match e.routes.find? (Engine.sameRoute method g k) with
    | some r => (r.chain, 200)
    | none =>
      if e.routes.any (Engine.otherMethod method g k) then (e.allNoMethod, 405)
      else (e.allNoRoute, 404)

end Hertz.Chain
