/-
C10 — the client connection pool of `pkg/protocol/http1/client.go`, modelled at lock-region
granularity: one event per critical section of `connsLock` / `wantConn.mu`
(`acquireConn`, `queueForIdle`, `releaseConn`, `closeConn`+`decConnsCount`, `dialConnFor`,
`wantConn.tryDeliver`, `wantConn.cancel`, `connsCleaner`), plus the dialer and the entry/exit of
`HostClient.Do`.  `step` is the transition relation (as a partial function: `none` = the event is
not possible in that state); a *schedule* is any list of events, `run` folds `step`.

Identities.  Connections, waiters (`*wantConn`) and actors are natural numbers.  Actors below
`auxBase` are callers of `Do`; actors from `auxBase` upwards are the goroutines the pool starts
itself (`go c.dialConnFor(w)`, `go c.connsCleaner()`).

The Go fields are `count` (`connsCount`), `idle` (`conns`, last element = top of the LIFO),
`queue` (`connsWait`, head first) and `pending` (`pendingRequests`).  Everything else is ghost
state that records who owns what:
  `live`   waiters whose `ready` channel is still open (`w.conn == nil && w.err == nil`)
  `boxed`  connections sitting in `w.conn` of a waiter whose caller has not picked them up yet
  `held`   connections in the hands of an actor (between acquire/dial/wake and release/close)
  `slots`  callers that incremented `connsCount` and are dialling
  `helperSlots` number of started `dialConnFor` goroutines that have not dialled yet
  `owed`   actors that are between `closeConn`/failed dial and the `decConnsCount` region
-/
import Hertz.Basic
namespace Hertz.Pool

structure Cfg where
  /-- effective maximum (`MaxConns`, or `DefaultMaxConnsPerHost` when `MaxConns <= 0`) -/
  maxConns : Nat
  /-- `MaxConnWaitTimeout > 0` -/
  wait : Bool
deriving Repr, DecidableEq

def auxBase : Nat := 100

/-- `consts.DefaultMaxConnsPerHost` (pinned to the source by `Proofs.ClientPool.consts_match_gen`) -/
def defaultMaxConnsPerHost : Nat := 512

/-- `maxConns := c.MaxConns; if maxConns <= 0 { maxConns = consts.DefaultMaxConnsPerHost }` -/
def effMax (maxConns : Int) : Nat := if maxConns ≤ 0 then defaultMaxConnsPerHost else maxConns.toNat

/-- the methods `isIdempotent` (pkg/protocol/client/client.go) accepts -/
def idempotentMethods : List String := ["GET", "HEAD", "PUT", "DELETE", "OPTIONS", "TRACE"]

def isIdem (method : String) : Bool := idempotentMethods.contains method

def upd (f : Nat → Nat) (k v : Nat) : Nat → Nat := fun x => if x = k then v else f x

structure State where
  count : Int := 0
  idle : List Nat := []
  queue : List Nat := []
  live : List Nat := []
  wowner : Nat → Nat := fun _ => 0
  boxed : List Nat := []
  boxOf : Nat → Nat := fun _ => 0
  held : List Nat := []
  holder : Nat → Nat := fun _ => 0
  slots : List Nat := []
  helperSlots : Nat := 0
  owed : List Nat := []
  closed : List Nat := []
  seenW : List Nat := []
  inDo : List Nat := []
  pending : Int := 0

def init : State := {}

inductive Ev where
  | begin (a id : Nat)
  | endd (a id : Nat) (ctxEarly : Bool)
  | acqIdle (a c : Nat)
  | acqCreate (a : Nat)
  | acqFull (a : Nat)
  | dialOk (a c : Nat)
  | dialFail (a : Nat)
  | enq (a w popped : Nat)
  | tryd (a w : Nat) (c : Option Nat) (ok : Bool)
  | wake (a w : Nat) (c : Option Nat)
  | cancel (a w : Nat) (c : Option Nat)
  | rel (a c popped : Nat) (target : Option Nat) (delivered : Bool)
  | close (a c : Nat)
  | dec (a popped : Nat) (target : Option Nat)
  | reap (a n : Nat)
  | reapChk (a : Nat) (stop : Bool)
deriving Repr, DecidableEq

/-- The first `k` waiters of the queue are popped.  `wantConn.waiting()` is read without
`w.mu`, so a waiter the loop stopped at (`target`) may already be dead in the linearised order;
a waiter the loop skipped is certainly dead.  With no target the loop ran the queue empty. -/
def popOk (s : State) (k : Nat) (target : Option Nat) : Bool :=
  decide (k ≤ s.queue.length) &&
  match target with
  | none => decide (k = s.queue.length) && (s.queue.take k).all (fun w => !s.live.contains w)
  | some w => (s.queue.take k).getLast? == some w &&
      ((s.queue.take k).dropLast).all (fun w => !s.live.contains w)

/-- nothing is delivered to waiter `w` and not yet picked up -/
def noBox (s : State) (w : Nat) : Bool := s.boxed.all (fun c => s.boxOf c != w)

/-- actor `a` owns nothing: the guard of returning from `Do` -/
def ownsNothing (s : State) (a : Nat) : Bool :=
  s.held.all (fun c => s.holder c != a) && !s.slots.contains a && !s.owed.contains a &&
  s.live.all (fun w => s.wowner w != a) && s.boxed.all (fun c => s.wowner (s.boxOf c) != a)

def fresh (s : State) (c : Nat) : Bool :=
  !s.idle.contains c && !s.held.contains c && !s.boxed.contains c && !s.closed.contains c

def step (cfg : Cfg) (s : State) : Ev → Option State
  -- HostClient.Do: atomic.AddInt32(&c.pendingRequests, 1)
  | .begin a _ =>
    if a < auxBase ∧ a ∉ s.inDo then some { s with inDo := a :: s.inDo, pending := s.pending + 1 } else none
  -- HostClient.Do returning, through the `case <-ctx.Done()` arm at the loop head (`early`) or at
  -- the end: both do atomic.AddInt32(&c.pendingRequests, -1)  (pinned by `doReturnsDecrement`)
  | .endd a _ _early =>
    if a ∈ s.inDo ∧ ownsNothing s a = true then
      some { s with inDo := s.inDo.erase a, pending := s.pending - 1 }
    else none
  -- acquireConn, first region: n > 0, pop the top of the LIFO
  | .acqIdle a c =>
    if a ∈ s.inDo ∧ s.idle.getLast? = some c then
      some { s with idle := s.idle.dropLast, held := c :: s.held, holder := upd s.holder c a }
    else none
  -- acquireConn, first region: n == 0 && connsCount < maxConns
  | .acqCreate a =>
    if a ∈ s.inDo ∧ s.idle = [] ∧ s.count < cfg.maxConns then
      some { s with count := s.count + 1, slots := a :: s.slots }
    else none
  -- acquireConn, first region: n == 0 && connsCount >= maxConns
  | .acqFull a =>
    if a ∈ s.inDo ∧ s.idle = [] ∧ ¬ s.count < cfg.maxConns then some s else none
  -- dialHostHard succeeded (in acquireConn for a caller, in dialConnFor for a helper)
  | .dialOk a c =>
    if fresh s c = true ∧ a < auxBase ∧ a ∈ s.slots then
      some { s with slots := s.slots.erase a, held := c :: s.held, holder := upd s.holder c a }
    else if fresh s c = true ∧ auxBase ≤ a ∧ 0 < s.helperSlots then
      some { s with helperSlots := s.helperSlots - 1, held := c :: s.held, holder := upd s.holder c a }
    else none
  -- dialHostHard failed: decConnsCount follows
  | .dialFail a =>
    if a < auxBase ∧ a ∈ s.slots then
      some { s with slots := s.slots.erase a, owed := a :: s.owed }
    else if auxBase ≤ a ∧ 0 < s.helperSlots then
      some { s with helperSlots := s.helperSlots - 1, owed := a :: s.owed }
    else none
  -- queueForIdle: clearFront, pushBack
  | .enq a w popped =>
    if cfg.wait = true ∧ a ∈ s.inDo ∧ w ∉ s.seenW ∧ popped ≤ s.queue.length ∧
        (s.queue.take popped).all (fun w => !s.live.contains w) = true then
      some { s with queue := s.queue.drop popped ++ [w], live := w :: s.live,
                    wowner := upd s.wowner w a, seenW := w :: s.seenW }
    else none
  -- wantConn.tryDeliver (from releaseConn under connsLock, or from dialConnFor)
  | .tryd a w (some c) true =>
    if w ∈ s.live ∧ c ∈ s.held ∧ s.holder c = a then
      some { s with live := s.live.erase w, held := s.held.erase c, boxed := c :: s.boxed,
                    boxOf := upd s.boxOf c w }
    else none
  | .tryd a w none true =>       -- dialConnFor delivering the dial error
    if w ∈ s.live ∧ a ∈ s.owed then some { s with live := s.live.erase w } else none
  | .tryd _ w _ false =>
    if w ∉ s.live then some s else none
  -- acquireConn: `case <-w.ready`
  | .wake a w (some c) =>
    if s.wowner w = a ∧ w ∉ s.live ∧ c ∈ s.boxed ∧ s.boxOf c = w then
      some { s with boxed := s.boxed.erase c, held := c :: s.held, holder := upd s.holder c a }
    else none
  | .wake a w none =>
    if s.wowner w = a ∧ w ∉ s.live ∧ noBox s w = true then some s else none
  -- wantConn.cancel (deferred in acquireConn when it returns an error)
  | .cancel a w (some c) =>
    if s.wowner w = a ∧ w ∉ s.live ∧ c ∈ s.boxed ∧ s.boxOf c = w then
      some { s with boxed := s.boxed.erase c, held := c :: s.held, holder := upd s.holder c a }
    else none
  | .cancel a w none =>
    if s.wowner w = a ∧ noBox s w = true then some { s with live := s.live.erase w } else none
  -- releaseConn
  | .rel a c popped target delivered =>
    if cfg.wait = false then
      if c ∈ s.held ∧ s.holder c = a ∧ popped = 0 ∧ target = none ∧ delivered = false then
        some { s with held := s.held.erase c, idle := s.idle ++ [c] }
      else none
    else if popOk s popped target = true then
      if delivered then
        -- the hand-over itself is the `tryd … true` event inside this region
        match target with
        | some w => if w ∉ s.live ∧ ¬ (c ∈ s.held ∧ s.holder c = a) then
            some { s with queue := s.queue.drop popped } else none
        | none => none
      else
        if c ∈ s.held ∧ s.holder c = a ∧ (∀ w, target = some w → w ∉ s.live) then
          some { s with queue := s.queue.drop popped, held := s.held.erase c, idle := s.idle ++ [c] }
        else none
    else none
  -- closeConn: the connection leaves the pool's books, decConnsCount follows
  | .close a c =>
    if c ∈ s.held ∧ s.holder c = a then
      some { s with held := s.held.erase c, closed := c :: s.closed, owed := a :: s.owed }
    else none
  -- decConnsCount
  | .dec a popped target =>
    if a ∈ s.owed then
      if cfg.wait = false then
        if popped = 0 ∧ target = none then
          some { s with owed := s.owed.erase a, count := s.count - 1 } else none
      else if popOk s popped target = true then
        match target with
        | some _ => some { s with owed := s.owed.erase a, queue := s.queue.drop popped,
                                  helperSlots := s.helperSlots + 1 }      -- go c.dialConnFor(w)
        | none => some { s with owed := s.owed.erase a, queue := s.queue.drop popped,
                                count := s.count - 1 }
      else none
    else none
  -- connsCleaner, first region: the n oldest idle connections are taken out
  | .reap a n =>
    if auxBase ≤ a ∧ n ≤ s.idle.length then
      some { s with idle := s.idle.drop n, held := s.idle.take n ++ s.held,
                    holder := fun c => if c ∈ s.idle.take n then a else s.holder c }
    else none
  -- connsCleaner, second region
  | .reapChk a stop =>
    if auxBase ≤ a ∧ (stop = true ↔ s.count = 0) then some s else none

def run (cfg : Cfg) : State → List Ev → Option State
  | s, [] => some s
  | s, e :: es => match step cfg s e with
    | some s' => run cfg s' es
    | none => none

/-- what `ConnPoolState()` shows: `TotalConnNum`, `PoolConnNum`, `WaitConnNum` -/
def triple (s : State) : Int × Nat × Nat := (s.count, s.idle.length, s.queue.length)

/-- All calls have returned and the goroutines started by the pool own nothing any more. -/
def Quiet (s : State) : Prop :=
  s.inDo = [] ∧ s.helperSlots = 0 ∧ (∀ c ∈ s.held, s.holder c < auxBase) ∧ (∀ a ∈ s.owed, a < auxBase)

instance (s : State) : Decidable (Quiet s) := by unfold Quiet; exact inferInstance

/-! ## The caller's program: `doNonNilReqResp` after a successful `acquireConn`, and `Do` -/

/-- What happened on the wire during one attempt, as far as the decision logic can see. -/
inductive Exch where
  | writeTimeoutElapsed      -- updateReqTimeout said the request timeout is already over
  | setTimeoutErr            -- SetWriteTimeout / SetReadTimeout failed
  | writeErrOther            -- write failed, not ErrConnectionClosed
  | writeClosedRespOk        -- write hit a closed connection but a full response could be read
  | writeClosedNoResp        -- write hit a closed connection, no response
  | peekEOF                  -- first response byte: io.EOF / ECONNRESET
  | peekErr                  -- first response byte: another error (timeout …)
  | headerErr                -- ReadHeaders failed
  | bodyErr (tooLarge : Bool)
  | upgrade                  -- 101 + Connection: Upgrade
  | streamOpen               -- stream mode with body still on the wire
  | done (reqClose respClose resetConn : Bool)   -- full response read
deriving Repr, DecidableEq

inductive ConnAct where | close | release | keep
deriving Repr, DecidableEq

inductive ErrK where
  | none | timeout | badPool | eof | other
deriving Repr, DecidableEq

structure Verdict where
  act : ConnAct
  canRetry : Bool
  err : ErrK
deriving Repr, DecidableEq

/-- `doNonNilReqResp` from the point where it owns `cc`: what becomes of the connection, the
`canIdempotentRetry` result and the error class.  `inPool` is the flag returned by
`acquireConn`; `e` is the class of the error met (only its being `ErrBadPoolConn` matters). -/
def verdict (inPool : Bool) : Exch → Verdict
  | .writeTimeoutElapsed => ⟨.close, false, .timeout⟩
  | .setTimeoutErr => ⟨.close, true, .other⟩
  | .writeErrOther => ⟨.close, true, .other⟩
  | .writeClosedRespOk => ⟨.close, false, .none⟩
  | .writeClosedNoResp => ⟨.close, true, if inPool then .badPool else .other⟩
  | .peekEOF => if inPool then ⟨.close, true, .badPool⟩ else ⟨.close, false, .eof⟩
  | .peekErr => ⟨.close, false, .other⟩
  | .headerErr => ⟨.close, true, .other⟩
  | .bodyErr tooLarge => ⟨.close, !tooLarge, .other⟩
  | .upgrade => ⟨.keep, false, .none⟩
  | .streamOpen => ⟨.keep, false, .none⟩
  | .done reqClose respClose resetConn =>
    ⟨if resetConn || reqClose || respClose then .close else .release, false, .none⟩

/-- The exchange ended with the connection in a reusable state. -/
def Exch.clean : Exch → Bool
  | .done reqClose respClose resetConn => !reqClose && !respClose && !resetConn
  | _ => false

/-- One attempt as `Do` sees it. -/
structure Attempt where
  /-- the request reached the wire (a connection was obtained and the write started) -/
  sent : Bool
  canRetry : Bool
  err : ErrK
deriving Repr, DecidableEq

/-- The loop of `HostClient.Do` with the default retry policy (`RetryIfFunc == nil`): given the
outcomes the successive attempts would have, how many attempts are made.  `idem` is
`client.DefaultRetryIf` (rewindable body and GET/HEAD/PUT/DELETE/OPTIONS/TRACE). -/
def doLoop (idem : Bool) : List Attempt → List Attempt
  | [] => []
  | t :: rest =>
    if t.err = .none then [t]
    else if t.canRetry && idem && t.err == .badPool then t :: doLoop idem rest
    else [t]

/-! The return statements of `doNonNilReqResp` after `acquireConn`, in source order, as the model
sees them: (`canIdempotentRetry`, error is nil, fate of the connection).  Compared with the table
extracted from the Go source (`Gen/ClientPaths.lean`) by `model_matches_gen`. -/

def retryTok (b : Bool) : String := if b then "true" else "false"

def actTok : ConnAct → String
  | .close => "close"
  | .release => "release"
  | .keep => ""

def row (inPool : Bool) (ex : Exch) : String × Bool × String :=
  let v := verdict inPool ex
  (retryTok v.canRetry, v.err == .none, actTok v.act)

def modelPaths : List (String × Bool × String) := [
  ("false", false, ""),                        -- acquireConn failed: nothing to give back
  row true .writeTimeoutElapsed,               -- request timeout over before the write
  row true .setTimeoutErr,                     -- SetWriteTimeout failed
  row true .writeErrOther,                     -- write failed (defer closeConn)
  row true .setTimeoutErr,                     --   protection read timeout could not be set
  row true .writeClosedRespOk,                 --   a complete response was there all the same
  row true .writeClosedNoResp,                 --   no response
  row true .writeTimeoutElapsed,               -- request timeout over before the read
  row true .setTimeoutErr,                     -- SetReadTimeout failed
  row true .peekEOF,                           -- first byte: EOF on a pooled connection
  row false .peekEOF,                          -- first byte: any other failure
  row true .headerErr,
  (if (verdict true (.bodyErr true)).canRetry = false ∧ (verdict true (.bodyErr false)).canRetry = true
    then "retry" else "?", false, actTok (verdict true (.bodyErr false)).act),
  row true .upgrade,
  row true .streamOpen,
  ("false", true, actTok (verdict true (.done true false false)).act ++ "|" ++
                  actTok (verdict true (.done false false false)).act)]

/-- the conjuncts under which `Do` goes round again.  `!bodyIsStream` (/repo 3183d35: whether the body is a stream is
noted before the first attempt, which drops the stream from the request) is constantly true for the requests of this
property - their bodies are byte bodies (`SetBodyString`), so `idem` in `doLoop`/`Sim` stays "idempotent method"; the
stream case is modelled and checked under C11 (`Http1/Exchange`, `Req.retryable`). -/
def doRetryCond : List String :=
  ["canIdempotentRetry", "!bodyIsStream", "client.DefaultRetryIf(req, resp, err)", "errors.Is(err, errs.ErrBadPoolConn)"]

/-- for every `return` of `HostClient.Do`, in source order (the `ctx.Done()` arm, the end): is it
preceded by `atomic.AddInt32(&c.pendingRequests, -1)` -/
def doReturnsDecrement : List Bool := [true, true]

def sentCount (l : List Attempt) : Nat := (l.filter (·.sent)).length

end Hertz.Pool
