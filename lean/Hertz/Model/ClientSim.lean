/-
C10 — executable glue between the pool model (`Hertz.Pool.step`) and the recorded traces:
  * `tok`/`parseTok`: the token form of an event as hook H2 writes it
    (`site,actor,w,c,n,flag,count,idle,waiters`),
  * `validate`: trace validation — every recorded event must be accepted by `step` and the
    recorded `(connsCount, len(conns), connsWait.len())` must equal the model's,
  * `Sim`: the caller's program (`Do` → `doNonNilReqResp` → `acquireConn` … `closeConn` /
    `releaseConn`) run sequentially against the scripted peer of harness/c10.go; it *generates*
    the events one goroutine produces, so for sequential runs the model predicts the entire trace.
-/
import Hertz.Model.ClientPool
namespace Hertz.Pool

def optTok : Option Nat → String
  | none => "-1"
  | some n => toString n

def bTok (b : Bool) : String := if b then "1" else "0"

def tripleTok (s : State) : String := s!"{s.count},{s.idle.length},{s.queue.length}"

/-- token of event `e`; `s` is the state *after* the event -/
def tok (e : Ev) (s : State) : String :=
  match e with
  | .begin a id => s!"begin,{a},-1,-1,{id},0,-1,-1,-1"
  | .endd a id early => s!"end,{a},-1,-1,{id},{bTok early},-1,-1,-1"
  | .acqIdle a c => s!"acq,{a},-1,{c},0,0,{tripleTok s}"
  | .acqCreate a => s!"acq,{a},-1,-1,0,1,{tripleTok s}"
  | .acqFull a => s!"acq,{a},-1,-1,0,0,{tripleTok s}"
  | .dialOk a c => s!"dial,{a},-1,{c},0,0,-1,-1,-1"
  | .dialFail a => s!"dialfail,{a},-1,-1,0,0,-1,-1,-1"
  | .enq a w k => s!"enq,{a},{w},-1,{k},0,{tripleTok s}"
  | .tryd a w c ok => s!"tryd,{a},{w},{optTok c},0,{bTok ok},-1,-1,-1"
  | .wake a w c => s!"wake,{a},{w},{optTok c},0,{bTok c.isNone},-1,-1,-1"
  | .cancel a w c => s!"cancel,{a},{w},{optTok c},0,0,-1,-1,-1"
  | .rel a c k t d => s!"rel,{a},{optTok t},{c},{k},{bTok d},{tripleTok s}"
  | .close a c => s!"close,{a},-1,{c},0,0,-1,-1,-1"
  | .dec a k t => s!"dec,{a},{optTok t},-1,{k},{bTok t.isSome},{tripleTok s}"
  | .reap a n => s!"reap,{a},-1,-1,{n},0,{tripleTok s}"
  | .reapChk a stop => s!"reapchk,{a},-1,-1,0,{bTok stop},{tripleTok s}"

structure Rec where
  ev : Ev
  /-- observed `(count, idle, waiters)` (absent for sites outside `connsLock`) -/
  obs : Option (Int × Nat × Nat)
  flag : Bool

def optNat (i : Int) : Option Nat := if i < 0 then none else some i.toNat

def parseTok (t : String) : Option Rec := do
  match t.splitOn "," with
  | [site, a, w, c, n, flag, cnt, idl, wq] =>
    let a ← a.toNat?
    let w ← w.toInt?
    let c ← c.toInt?
    let n ← n.toNat?
    let flag := flag == "1"
    let cnt ← cnt.toInt?
    let idl ← idl.toInt?
    let wq ← wq.toInt?
    if c < -1 then none else
    let obs := if idl < 0 then none else some (cnt, idl.toNat, wq.toNat)
    let wN := optNat w
    let cN := optNat c
    let ev ← match site with
      | "begin" => some (Ev.begin a n)
      | "end" => some (Ev.endd a n flag)
      | "acq" => (match cN with
          | some c => some (Ev.acqIdle a c)
          | none => some (if flag then Ev.acqCreate a else Ev.acqFull a))
      | "dial" => cN.map (Ev.dialOk a)
      | "dialfail" => some (Ev.dialFail a)
      | "enq" => wN.map (fun w => Ev.enq a w n)
      | "tryd" => wN.map (fun w => Ev.tryd a w cN flag)
      | "wake" => wN.map (fun w => Ev.wake a w cN)
      | "cancel" => wN.map (fun w => Ev.cancel a w cN)
      | "rel" => cN.map (fun c => Ev.rel a c n wN flag)
      | "close" => cN.map (Ev.close a)
      | "dec" => some (Ev.dec a n wN)
      | "reap" => some (Ev.reap a n)
      | "reapchk" => some (Ev.reapChk a flag)
      | _ => none
    pure { ev, obs, flag }
  | _ => none

/-- site-specific consistency of the recorded flag with the model state *before* the event -/
def flagOk (s : State) (r : Rec) : Bool :=
  match r.ev with
  | .cancel _ w _ => r.flag == s.live.contains w       -- `w.conn == nil && w.err == nil`
  | .wake _ _ c => r.flag == c.isNone                   -- `w.err != nil`
  | .dec _ _ t => r.flag == t.isSome                    -- `dialed`
  | _ => true

structure VState where
  st : State := init
  n : Nat := 0
  /-- first rejection, if any -/
  bad : Option String := none
  feats : List String := []
  maxCount : Int := 0
  tripleBad : Bool := false

def feat (e : Ev) (s : State) : Option String :=
  match e with
  | .rel _ _ _ (some w) d => some (if d then "D" else if s.live.contains w then "?" else "R")
  | .dec _ _ (some _) => some "H"
  | .cancel _ _ (some _) => some "L"
  | .cancel _ _ none => some "T"
  | .tryd _ _ none true => some "E"
  | .tryd _ _ (some _) false => some "N"
  | .reap _ (_ + 1) => some "P"
  | .endd _ _ true => some "X"
  | .enq _ _ (_ + 1) => some "S"
  | .acqFull _ => some "F"
  | .dialFail _ => some "f"
  | .close _ _ => some "c"
  | _ => none

def vstep (cfg : Cfg) (v : VState) (t : String) : VState :=
  if v.bad.isSome then v else
  match parseTok t with
  | none => { v with bad := some s!"REJECT@{v.n}:unparsed:{t}" }
  | some r =>
    if !flagOk v.st r then { v with bad := some s!"REJECT@{v.n}:flag:{t}" } else
    match step cfg v.st r.ev with
    | none => { v with bad := some s!"REJECT@{v.n}:not-enabled:{t}:model-state={tripleTok v.st}" }
    | some s' =>
      let fs := match feat r.ev v.st with
        | some f => if v.feats.contains f then v.feats else f :: v.feats
        | none => v.feats
      match r.obs with
      | some o =>
        if o == triple s' then
          { v with st := s', n := v.n + 1, feats := fs,
                   maxCount := if s'.count > v.maxCount then s'.count else v.maxCount,
                   tripleBad := v.tripleBad || decide (o.1 > cfg.maxConns) || decide (o.1 < 0) }
        else { v with bad := some s!"REJECT@{v.n}:triple:{t}:model={tripleTok s'}" }
      | none => { v with st := s', n := v.n + 1, feats := fs }

def validate (cfg : Cfg) (toks : List String) : VState := toks.foldl (vstep cfg) {}

/-! ## Sequential simulation of the caller's program against the scripted peer -/

structure Req where
  post : Bool
  fault : Nat
  /-- 0: live context, 1: cancelled before the call, 2: cancelled when the peer sees the request -/
  ctxm : Nat
  dialFail : Bool

structure Sim where
  st : State := init
  /-- 0 open, 1 closed by the peer (writes swallowed), 2 closed by the peer (writes fail) -/
  peer : Nat → Nat := fun _ => 0
  nextConn : Nat := 0
  nextW : Nat := 0
  dialTok : Nat := 0
  trace : List String := []
  ok : Bool := true

def emit (cfg : Cfg) (sim : Sim) (e : Ev) : Sim :=
  match step cfg sim.st e with
  | some s' => { sim with st := s', trace := tok e s' :: sim.trace }
  | none => { sim with ok := false, trace := ("MODEL-REJECT:" ++ tok e sim.st) :: sim.trace }

/-- the pop loop of `releaseConn` / `decConnsCount`: how many waiters are popped, and the live one
it stops at -/
def planPop (live : List Nat) : List Nat → Nat × Option Nat
  | [] => (0, none)
  | w :: q => if live.contains w then (1, some w) else
      let r := planPop live q
      (r.1 + 1, r.2)

def deadPrefix (live : List Nat) : List Nat → Nat
  | [] => 0
  | w :: q => if live.contains w then 0 else deadPrefix live q + 1

def simDec (cfg : Cfg) (sim : Sim) (a : Nat) : Sim :=
  if cfg.wait then
    let p := planPop sim.st.live sim.st.queue
    emit cfg sim (.dec a p.1 p.2)
  else emit cfg sim (.dec a 0 none)

def simClose (cfg : Cfg) (sim : Sim) (a c : Nat) : Sim :=
  simDec cfg (emit cfg sim (.close a c)) a

def simRelease (cfg : Cfg) (sim : Sim) (a c : Nat) : Sim :=
  if cfg.wait then
    let p := planPop sim.st.live sim.st.queue
    match p.2 with
    | some w => emit cfg (emit cfg sim (.tryd a w (some c) true)) (.rel a c p.1 (some w) true)
    | none => emit cfg sim (.rel a c p.1 none false)
  else emit cfg sim (.rel a c 0 none false)

/-- `acquireConn`: the connection and `inPool`, or the error class -/
def simAcquire (cfg : Cfg) (sim : Sim) (a : Nat) : Sim × Except String (Nat × Bool) :=
  match sim.st.idle.getLast? with
  | some c => (emit cfg sim (.acqIdle a c), .ok (c, true))
  | none =>
    if sim.st.count < cfg.maxConns then
      let sim := emit cfg sim (.acqCreate a)
      if sim.dialTok > 0 then
        let sim := emit cfg { sim with dialTok := sim.dialTok - 1 } (.dialFail a)
        (simDec cfg sim a, .error "dial")
      else
        let c := sim.nextConn
        (emit cfg { sim with nextConn := c + 1 } (.dialOk a c), .ok (c, false))
    else
      let sim := emit cfg sim (.acqFull a)
      if cfg.wait then
        -- nobody else runs: the waiter can only time out
        let w := sim.nextW
        let sim := emit cfg { sim with nextW := w + 1 } (.enq a w (deadPrefix sim.st.live sim.st.queue))
        (emit cfg sim (.cancel a w none), .error "nofree")
      else (sim, .error "nofree")

/-- what the scripted peer makes of a request with fault code `f` on an open connection:
the exchange as the client sees it, the new peer state, the error token of a failure -/
def peerFault (f : Nat) : Exch × Nat × String :=
  match f with
  | 0 => (.done false false false, 0, "ok")
  | 1 => (.done false true false, 0, "ok")
  | 2 => (.done false false false, 1, "ok")
  | 3 => (.done false false false, 2, "ok")
  | 4 => (.peekEOF, 1, "closed")
  | 5 => (.headerErr, 1, "closed")
  | 6 => (.bodyErr false, 1, "eof")
  | 7 => (.peekErr, 0, "timeout")
  | _ => (.bodyErr false, 0, "other")

structure AttemptOut where
  sim : Sim
  canRetry : Bool
  cls : String
  sent : Bool

def simAttempt (cfg : Cfg) (sim : Sim) (a : Nat) (q : Req) : AttemptOut :=
  match simAcquire cfg sim a with
  | (sim, .error e) => { sim, canRetry := false, cls := e, sent := false }
  | (sim, .ok (c, inPool)) =>
    let ps := sim.peer c
    let (ex, ps', failTok, sent) :=
      if ps = 2 then (Exch.writeClosedNoResp, ps, "other", false)
      else if ps = 1 then (Exch.peekEOF, ps, "closed", false)
      else let r := peerFault q.fault; (r.1, r.2.1, r.2.2, true)
    let v := verdict inPool ex
    let sim := { sim with peer := upd sim.peer c ps' }
    let sim := match v.act with
      | .close => simClose cfg sim a c
      | .release => simRelease cfg sim a c
      | .keep => sim
    let cls := if v.err = .none then "ok" else if v.err = .badPool then "badpool" else failTok
    { sim, canRetry := v.canRetry, cls, sent }

/-- `HostClient.Do` with the default retry policy, caller `a`, request number `id` -/
def simLoop (cfg : Cfg) (a id : Nat) (q : Req) : Nat → Sim → Bool → Nat → Sim × String × Nat
  | 0, sim, _, sends => ({ sim with ok := false }, "fuel", sends)
  | fuel + 1, sim, cancelled, sends =>
    if cancelled then (emit cfg sim (.endd a id true), "ctx", sends)
    else
      let r := simAttempt cfg sim a q
      let sends := if r.sent then sends + 1 else sends
      let cancelled := cancelled || (r.sent && q.ctxm == 2)
      if r.cls == "ok" then (emit cfg r.sim (.endd a id false), "ok", sends)
      else if r.canRetry && isIdem (if q.post then "POST" else "GET") && r.cls == "badpool" then simLoop cfg a id q fuel r.sim cancelled sends
      else (emit cfg r.sim (.endd a id false), r.cls, sends)

def simDo (cfg : Cfg) (sim : Sim) (a id : Nat) (q : Req) : Sim × List String :=
  let sim := emit cfg { sim with dialTok := if q.dialFail then sim.dialTok + 1 else sim.dialTok } (.begin a id)
  let (sim, cls, sends) := simLoop cfg a id q (sim.st.idle.length + 3) sim (q.ctxm == 1) 0
  (sim, [cls, toString sim.st.count, toString sim.st.idle.length, toString sim.st.queue.length,
         toString sim.st.pending, toString sim.nextConn, toString sim.st.closed.length, toString sends])

def simSeq (cfg : Cfg) : Sim → Nat → List Req → List String → Sim × List String
  | sim, _, [], acc => (sim, acc)
  | sim, id, q :: qs, acc =>
    let (sim, o) := simDo cfg sim 0 id q
    simSeq cfg sim (id + 1) qs (acc ++ o)

end Hertz.Pool
