import Hertz.Model.NoFaultCodec
/-!
Checked re-statement (see `Model/NoFault.lean`) of `pkg/protocol/uri.go:normalizePath` (unix build): `addLeadingSlash`,
the percent decoder, and the four in-place rewriting loops with their `bytes.Index` / `bytes.LastIndexByte` results used
as slice bounds: `b[n:]`, `b[1:]`, `b[:len(b)-1]`, `dst[:bSize]`, `b[nn:]`, `b[:len(b)-nn+n]`, `b[:n]`, `b[:nn+1]`.
`copy(x, y)` never panics; its effect on the contents is written out (`b[:n] ++ b[nn:]`).
-/
namespace Hertz.NF
open Hertz Hertz.Gen.Str

/-- `bytes.Index(b, pat)` -/
def indexSub (pat : Bytes) : Bytes → Int
  | [] => if pat.isEmpty then 0 else -1
  | c :: t =>
    if pat.isPrefixOf (c :: t) then 0
    else if indexSub pat t < 0 then -1 else indexSub pat t + 1

/-- `bytes.LastIndexByte(b, c)` -/
def lastIndexByte (c : UInt8) (b : Bytes) : Int :=
  match Uri.indexOf c b.reverse with
  | some n => len b - 1 - (n : Int)
  | none => -1

/-- `bytes.LastIndex(b, pat)` -/
def lastIndexSub (pat b : Bytes) : Int :=
  if indexSub pat.reverse b.reverse < 0 then -1 else len b - len pat - indexSub pat.reverse b.reverse

/-- "remove duplicate slashes": `pre` = the part of `dst` in front of the window `b`, `bSize` as in the Go code;
ends with `dst = dst[:bSize]` (`cap` = the length `dst` had before the loop) -/
def npSlashes (cap : Int) : Nat → Bytes → Bytes → Int → Option Bytes
  | 0, _, _, _ => none
  | f + 1, pre, b, bSize =>
    let n := indexSub strSlashSlash b
    if n < 0 then (if 0 ≤ bSize ∧ bSize ≤ cap then some (pre ++ b) else none) else
    (slFrom b n).bind fun w =>
    (slFrom w 1).bind fun w1 =>
    (slTo w (len w - 1)).bind fun _ =>
    npSlashes cap f (pre ++ b.take n.toNat) w1 (bSize - 1)

/-- "remove /./ parts" -/
def npDotSlash : Nat → Bytes → Option Bytes
  | 0, _ => none
  | f + 1, b =>
    let n := indexSub strSlashDotSlash b
    if n < 0 then some b else
    let nn := n + len strSlashDotSlash - 1
    (slFrom b n).bind fun _ => (slFrom b nn).bind fun src => (slTo b (len b - nn + n)).bind fun _ =>
    npDotSlash f (b.take n.toNat ++ src)

/-- "remove /foo/../ parts" -/
def npDotDot : Nat → Bytes → Option Bytes
  | 0, _ => none
  | f + 1, b =>
    let n := indexSub strSlashDotDotSlash b
    if n < 0 then some b else
    (slTo b n).bind fun head =>
    let nn := if lastIndexByte 47 head < 0 then 0 else lastIndexByte 47 head
    let n' := n + len strSlashDotDotSlash - 1
    (slFrom b nn).bind fun _ => (slFrom b n').bind fun src => (slTo b (len b - n' + nn)).bind fun _ =>
    npDotDot f (b.take nn.toNat ++ src)

/-- "remove trailing /foo/.." -/
def npTail (b : Bytes) : Option Bytes :=
  let n := lastIndexSub strSlashDotDot b
  if n ≥ 0 ∧ n + len strSlashDotDot = len b then
    (slTo b n).bind fun head =>
    let nn := lastIndexByte 47 head
    if nn < 0 then some strSlash else slTo b (nn + 1)
  else some b

/-- `normalizePath(nil, src)` -/
def normalizePathC (src : Bytes) : Option Bytes :=
  (if len src = 0 then some [47] else (ix src 0).bind fun c => if c ≠ 47 then some [47] else some []).bind fun lead =>
  (decodeArg false src).bind fun d =>
  let dst := lead ++ d
  (npSlashes (len dst) (dst.length + 1) [] dst (len dst)).bind fun b =>
  (npDotSlash (b.length + 1) b).bind fun b =>
  (npDotDot (b.length + 1) b).bind fun b =>
  npTail b

/-! ### `URI.parse` -/

/-- the path / query / fragment cut of `URI.parse` for given indices: `b[:queryIndex]`, `b[queryIndex+1:]`,
`b[queryIndex+1:fragmentIndex]`, `b[fragmentIndex+1:]`, `b[:fragmentIndex]` -/
def cutAt (base : Uri.URI) (b : Bytes) (queryIndex fragmentIndex : Int) : Option Uri.URI :=
  if queryIndex < 0 ∧ fragmentIndex < 0 then
    (normalizePathC b).bind fun np => some { base with pathOriginal := b, path := np }
  else if queryIndex ≥ 0 then
    (slTo b queryIndex).bind fun po => (normalizePathC po).bind fun np =>
    if fragmentIndex < 0 then
      (slFrom b (queryIndex + 1)).bind fun q =>
      some { base with pathOriginal := po, path := np, query := q }
    else
      (sl b (queryIndex + 1) fragmentIndex).bind fun q => (slFrom b (fragmentIndex + 1)).bind fun h =>
      some { base with pathOriginal := po, path := np, query := q, hash := h }
  else
    (slTo b fragmentIndex).bind fun po => (normalizePathC po).bind fun np => (slFrom b (fragmentIndex + 1)).bind fun h =>
    some { base with pathOriginal := po, path := np, hash := h }

/-- `queryIndex`, `fragmentIndex` of `URI.parse` ("ignore query in fragment part") and the cut -/
def cutPath (base : Uri.URI) (b : Bytes) : Option Uri.URI :=
  let queryIndex := indexByte 63 b
  let fragmentIndex := indexByte 35 b
  cutAt base b (if fragmentIndex ≥ 0 ∧ queryIndex > fragmentIndex then -1 else queryIndex) fragmentIndex

/-- `URI.parse(host, uri, false)` on a reset URI -/
def parse (host uri : Bytes) : Option Uri.URI :=
  if Uri.hasCTL uri then some {} else
  (if host.isEmpty || Uri.containsSub strColonSlashSlash uri then
      (splitHostURI host uri).bind fun r => some (r.1.map toLower, r.2.1, r.2.2)
    else some ([], host, uri)).bind fun r =>
  (userInfo r.2.1).bind fun a =>
  cutPath { scheme := r.1, host := a.2.2.map toLower, username := a.1, password := a.2.1 } r.2.2

end Hertz.NF
