/-
C10, Client level — `pkg/app/client.Client` on top of the per-host pools of `ClientPool.lean`:

  * `Client.do`: the host-client map (`c.m`), a `HostClient` created on the first request to a host
    (and again after the janitor dropped the previous one),
  * `Client.cleaner` / `cleanHostClients`: every 10 s each `HostClient` with
    `ShouldRemove() = (connsCount == 0)` is deleted from the map,
  * `MaxConnDuration`: a connection older than the limit gets `Connection: close` added to the
    request it is picked for (`resetConnection`) and is closed after that exchange,
  * requests that themselves ask for `Connection: close`,
  * calls that stay in flight (their connection in use) while other steps run.

Part 1 is the abstract layer the theorems of `Props/C10.lean` are about (a host entry = the
HostClient in the map plus the ones the janitor has dropped).  Part 2 is the executable script
simulator the driver compares with the real `Client` (`harness/c10cli.go`).
-/
import Hertz.Model.ClientSim
namespace Hertz.Pool

/-! ## Part 1: the host-client map and its janitor -/

/-- `HostClient.ShouldRemove`: `c.connsCount == 0` under `connsLock` -/
def shouldRemove (s : State) : Bool := s.count == 0

/-- One host as the `Client` sees it: the `HostClient` currently in the map (if any) and the
HostClients the janitor has deleted from the map (they still exist as long as somebody uses them). -/
structure HostEntry where
  cur : Option State := none
  dropped : List State := []

inductive CEv where
  /-- `Client.do` finds no HostClient for the host and creates one -/
  | create
  /-- one lock region of the HostClient in the map -/
  | pool (e : Ev)
  /-- `cleanHostClients` visits the host -/
  | tick
deriving Repr, DecidableEq

/-- one step of a host entry; `evict` is the predicate the janitor uses (the code: `ShouldRemove`) -/
def cstepWith (evict : State → Bool) (cfg : Cfg) (h : HostEntry) : CEv → Option HostEntry
  | .create => match h.cur with
    | none => some { h with cur := some init }
    | some _ => none
  | .pool e => match h.cur with
    | some s => (step cfg s e).map (fun s' => { h with cur := some s' })
    | none => none
  | .tick => match h.cur with
    | some s => if evict s then some { cur := none, dropped := s :: h.dropped } else some h
    | none => some h

def crunWith (evict : State → Bool) (cfg : Cfg) : HostEntry → List CEv → Option HostEntry
  | h, [] => some h
  | h, e :: es => match cstepWith evict cfg h e with
    | some h' => crunWith evict cfg h' es
    | none => none

def cstep := cstepWith shouldRemove
def crun := crunWith shouldRemove

def sumCounts : List State → Int
  | [] => 0
  | s :: l => s.count + sumCounts l

/-- connections counted against the host by all its HostClients, in the map or not -/
def hostCounted (h : HostEntry) : Int :=
  (match h.cur with | some s => s.count | none => 0) + sumCounts h.dropped

/-- the model's reading of the source facts regenerated into `Gen/ClientPaths.lean`
(`Proofs.ClientHosts.*_matches_gen`): `ShouldRemove` is `connsCount == 0` under the lock, the
janitor deletes exactly the entries for which `ShouldRemove()` holds, `verdict (.done …)` closes on
`resetConnection || req.ConnectionClose() || resp.ConnectionClose()`, and a connection older than
`MaxConnDuration` is retired by adding `Connection: close` to a request that does not carry it -/
def shouldRemoveSrc : List String := ["c.connsLock.Lock()", "defer c.connsLock.Unlock()", "return c.connsCount == 0"]
def janitorDeleteSrc : List String := ["v.ShouldRemove()", "delete(m, k)"]
def closeDecisionSrc : List String := ["resetConnection", "req.ConnectionClose()", "resp.ConnectionClose()"]
def retireOldConnSrc : List String :=
  ["c.MaxConnDuration > 0 && time.Since(cc.createdTime) > c.MaxConnDuration && !req.ConnectionClose()",
   "req.SetConnectionClose()", "resetConnection = true"]

/-! ## Part 2: executable simulator of a Client-level script -/

structure MCfg where
  pool : Cfg
  /-- MaxConnDuration: 0 off, 1 every picked connection is too old, 2 too old after an `A`/`T` step -/
  mcd : Nat
  /-- peer policy on a normally answered request that carried `Connection: close` -/
  ppol : Nat

structure CReq where
  post : Bool
  close : Bool
  fault : Nat
  ctxm : Nat
  dialFail : Bool

def CReq.toReq (q : CReq) : Req := { post := q.post, fault := q.fault, ctxm := q.ctxm, dialFail := q.dialFail }

/-- one host of the simulated Client -/
structure HSim where
  sim : Sim := {}
  /-- epoch in which connection `c` of the current HostClient was dialled -/
  born : Nat → Nat := fun _ => 0
  inMap : Bool := false
  /-- HostClients created for this host so far -/
  nhc : Nat := 0
  /-- dials / still open connections of HostClients dropped earlier -/
  dialsBase : Nat := 0
  openBase : Nat := 0

def HSim.dials (h : HSim) : Nat := h.dialsBase + h.sim.nextConn
def HSim.opens (h : HSim) : Nat := h.openBase + (h.sim.nextConn - h.sim.st.closed.length)

/-- `Client.do`: look the host up, create the HostClient when the map has none -/
def HSim.ensure (h : HSim) : HSim :=
  if h.inMap then h else
    { sim := {}, born := fun _ => 0, inMap := true, nhc := h.nhc + 1,
      dialsBase := h.dials, openBase := h.opens }

/-- `cleanHostClients` on one map entry -/
def HSim.tick (h : HSim) : HSim :=
  if h.inMap && shouldRemove h.sim.st then { h with inMap := false } else h

/-- a call whose answer the peer withholds -/
structure HeldK where
  host : Nat
  a : Nat
  id : Nat
  q : CReq
  c : Nat
  inPool : Bool
  resetConn : Bool
  fuel : Nat
  sends : Nat
  cancelled : Bool
  gone : Bool

inductive LoopRes where
  | fin (h : HSim) (cls : String)
  | held (h : HSim) (c : Nat) (inPool resetConn : Bool) (fuel sends : Nat) (cancelled : Bool)

/-- the scripted peer's answer seen by the client: `peerFault` plus the treatment of a request that
carried `Connection: close` (sent because the request asked for it or because the connection was
too old) -/
def peerAnswer (ppol : Nat) (q : CReq) (resetConn : Bool) : Exch × Nat × String :=
  let r := peerFault q.fault
  let sawClose := q.close || resetConn
  match r.1 with
  | .done _ respClose _ =>
    let echo := q.fault == 0 && sawClose && ppol == 2
    let shut := q.fault == 0 && sawClose && (ppol == 1 || ppol == 2)
    (.done q.close (respClose || echo) resetConn, if shut then 1 else r.2.1, r.2.2)
  | ex => (ex, r.2.1, r.2.2)

structure ExchOut where
  h : HSim
  canRetry : Bool
  cls : String

/-- `doNonNilReqResp` from the moment the outcome of the exchange is known -/
def conclude (cfg : MCfg) (h : HSim) (a c : Nat) (inPool : Bool) (ex : Exch) (ps' : Nat) (failTok : String) : ExchOut :=
  let v := verdict inPool ex
  let sim := { h.sim with peer := upd h.sim.peer c ps' }
  let sim := match v.act with
    | .close => simClose cfg.pool sim a c
    | .release => simRelease cfg.pool sim a c
    | .keep => sim
  let cls := if v.err = .none then "ok" else if v.err = .badPool then "badpool" else failTok
  { h := { h with sim }, canRetry := v.canRetry, cls }

def finishLive (cfg : MCfg) (h : HSim) (a c : Nat) (inPool : Bool) (q : CReq) (resetConn : Bool) : ExchOut :=
  let r := peerAnswer cfg.ppol q resetConn
  conclude cfg h a c inPool r.1 r.2.1 r.2.2

def tooOld (cfg : MCfg) (epoch : Nat) (h : HSim) (c : Nat) : Bool :=
  cfg.mcd == 1 || (cfg.mcd == 2 && decide (h.born c < epoch))

/-- `HostClient.Do` (default retry policy) for caller `a`; with `hold` the first arrival of the
request at an open peer suspends the call; `resume` continues a suspended call. -/
def cloop (cfg : MCfg) (epoch a id : Nat) (q : CReq) :
    Nat → HSim → Bool → Nat → Bool → Option (Nat × Bool × Bool) → LoopRes
  | 0, h, _, _, _, _ => .fin { h with sim := { h.sim with ok := false } } "fuel"
  | fuel + 1, h, cancelled, sends, hold, resume =>
    let after := fun (r : ExchOut) (cancelled : Bool) (sends : Nat) (hold : Bool) =>
      if r.cls == "ok" then LoopRes.fin { r.h with sim := emit cfg.pool r.h.sim (.endd a id false) } "ok"
      else if r.canRetry && isIdem (if q.post then "POST" else "GET") && r.cls == "badpool" then
        cloop cfg epoch a id q fuel r.h cancelled sends hold none
      else LoopRes.fin { r.h with sim := emit cfg.pool r.h.sim (.endd a id false) } r.cls
    match resume with
    | some (c, inPool, rc) => after (finishLive cfg h a c inPool q rc) cancelled sends false
    | none =>
      if cancelled then .fin { h with sim := emit cfg.pool h.sim (.endd a id true) } "ctx"
      else
        match simAcquire cfg.pool h.sim a with
        | (sim, .error e) => .fin { h with sim := emit cfg.pool sim (.endd a id false) } e
        | (sim, .ok (c, inPool)) =>
          let h := { h with sim, born := if inPool then h.born else upd h.born c epoch }
          let ps := sim.peer c
          if ps = 2 then after (conclude cfg h a c inPool .writeClosedNoResp ps "other") cancelled sends hold
          else if ps = 1 then after (conclude cfg h a c inPool .peekEOF ps "closed") cancelled sends hold
          else
            let rc := tooOld cfg epoch h c && !q.close
            let cancelled' := cancelled || q.ctxm == 2
            if hold then .held h c inPool rc fuel (sends + 1) cancelled'
            else after (finishLive cfg h a c inPool q rc) cancelled' (sends + 1) false

def nHosts : Nat := 3

structure CSim where
  hosts : Nat → HSim := fun _ => {}
  epoch : Nat := 0
  helds : List HeldK := []
  dialTok : Nat := 0
  anyHC : Bool := false

def CSim.setHost (cs : CSim) (k : Nat) (h : HSim) : CSim :=
  { cs with hosts := fun x => if x = k then h else cs.hosts x }

inductive CStep where
  | req (host : Nat) (q : CReq)
  | hold (host : Nat) (q : CReq)
  | unhold (k : Nat)
  | tick
  | age

def gaugeRow (cs : CSim) : List String :=
  (List.range nHosts).flatMap fun k =>
    let h := cs.hosts k
    [toString h.sim.st.count, toString h.sim.st.idle.length, toString h.sim.st.queue.length,
     toString h.sim.st.pending, bTok (shouldRemove h.sim.st), toString h.nhc, toString h.dials, toString h.opens]

def setGone (l : List HeldK) (k : Nat) : List HeldK :=
  l.zipIdx.map (fun (x, i) => if i == k then { x with gone := true } else x)

/-- one step of the script: the new state and the class token -/
def CSim.step (cfg : MCfg) (cs : CSim) (id : Nat) : CStep → CSim × String
  | .req k q =>
    let h := (cs.hosts k).ensure
    let tokens := if q.dialFail then cs.dialTok + 1 else cs.dialTok
    let h := { h with sim := emit cfg.pool { h.sim with dialTok := tokens } (.begin 0 id) }
    match cloop cfg cs.epoch 0 id q (h.sim.st.idle.length + 3) h (q.ctxm == 1) 0 false none with
    | .fin h cls => ({ (cs.setHost k h) with dialTok := h.sim.dialTok, anyHC := true }, cls)
    | .held h .. => ({ (cs.setHost k { h with sim := { h.sim with ok := false } }) with anyHC := true }, "?")
  | .hold k q =>
    let a := cs.helds.length + 1
    let h := (cs.hosts k).ensure
    let tokens := if q.dialFail then cs.dialTok + 1 else cs.dialTok
    let h := { h with sim := emit cfg.pool { h.sim with dialTok := tokens } (.begin a id) }
    let blank : HeldK := { host := k, a, id, q, c := 0, inPool := false, resetConn := false, fuel := 0,
                           sends := 0, cancelled := false, gone := true }
    match cloop cfg cs.epoch a id q (h.sim.st.idle.length + 3) h (q.ctxm == 1) 0 true none with
    | .fin h cls =>
      ({ (cs.setHost k h) with dialTok := h.sim.dialTok, anyHC := true, helds := cs.helds ++ [blank] }, cls)
    | .held h c inPool rc fuel sends cancelled =>
      let x : HeldK := { blank with c := c, inPool := inPool, resetConn := rc, fuel := fuel, sends := sends, cancelled := cancelled, gone := false }
      ({ (cs.setHost k h) with dialTok := h.sim.dialTok, anyHC := true, helds := cs.helds ++ [x] }, "held")
  | .unhold k =>
    match cs.helds[k]? with
    | none => (cs, "none")
    | some x =>
      if x.gone then (cs, "none") else
      let h := cs.hosts x.host
      let h := { h with sim := { h.sim with dialTok := cs.dialTok } }
      match cloop cfg cs.epoch x.a x.id x.q (x.fuel + 1) h x.cancelled x.sends false (some (x.c, x.inPool, x.resetConn)) with
      | .fin h cls => ({ (cs.setHost x.host h) with dialTok := h.sim.dialTok, helds := setGone cs.helds k }, cls)
      | .held h .. => (cs.setHost x.host { h with sim := { h.sim with ok := false } }, "?")
  | .tick =>
    if cs.anyHC then
      ({ cs with hosts := fun k => (cs.hosts k).tick, epoch := cs.epoch + 1 }, "-")
    else (cs, "-")
  | .age => ({ cs with epoch := cs.epoch + 1 }, "-")

def CSim.ok (cs : CSim) : Bool := (List.range nHosts).all (fun k => (cs.hosts k).sim.ok)

/-- the script, then everything still withheld is answered in order; output rows as the harness writes them -/
def simScript (cfg : MCfg) : CSim → Nat → List CStep → List String → CSim × List String
  | cs, _, [], acc => (cs, acc)
  | cs, id, s :: rest, acc =>
    let (cs, cls) := cs.step cfg id s
    simScript cfg cs (id + 1) rest (acc ++ cls :: gaugeRow cs)

def releaseAll (cfg : MCfg) (cs : CSim) : CSim :=
  (List.range cs.helds.length).foldl (fun cs k => (cs.step cfg 0 (.unhold k)).1) cs

end Hertz.Pool
