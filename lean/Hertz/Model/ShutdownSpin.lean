import Hertz.Basic
/-!
Extension X18 of the graceful-shutdown model (property C18): the CALLER's side and requests that are still ARRIVING.

* `Hertz.Spin` — `Hertz.Spin()` of `pkg/app/server/hertz.go` on top of `Engine.Run` / `Engine.Shutdown`
  (`pkg/route/engine.go`), one `step` per blocking point or atomic operation:
  - the `Run` goroutine (`go func() { errCh <- h.Run() }()`): `Init`, the `OnRun` start hooks (may take arbitrarily long:
    the clock may advance in phase `hooks`), `MarkAsRunning`, listen, accept, the return of `Run` once the listener is closed,
    the send on the unbuffered `errCh`;
  - the main goroutine: `signalWaiter` (stop signal, or an error from `errCh`), then `Engine.Shutdown(ctx)` taken at the
    granularity of its OUTCOMES: status ≠ running → `errStatusNotRunning` at once; CAS; `Registry.Deregister` fails → the error
    is returned EARLY, without `transport.Shutdown` (listener stays open; the deferred `select` still waits for the hooks or
    the deadline); otherwise the listener is closed and the call waits for `active = 0` or the deadline; then whatever
    `Spin` does after `Shutdown` returned (`Code.waitsRun`: a receive from `errCh`; regenerated from the source, see
    `Hertz.Gen.ShutdownSpin.spinAfterShutdown`), the return of `Spin` and the exit of the process (`main` returns).
  The polling granularity of `transport.Shutdown` (+ one ticker period) is the business of `Hertz.Shutdown`
  (`shutdown_bounded`); here the call returns when `active = 0` or at the deadline.

* `Hertz.Arrive` — connections by how much of the next request has been received (`reading k n`: `k` of `n` bytes, the
  request line is among them) and what the transport's `Shutdown` does to a connection in each state
  (`Code.wakeAll`: `standard.transport.Shutdown` sets a read deadline on every tracked connection - it does not, see
  `Hertz.Gen.ShutdownSpin.stdShutdownConnCalls`; netpoll closes the connections it finds idle).
-/
namespace Hertz.Spin

/-- facts about the source the model is parametrised with (pinned by `Hertz.Props.C18.spin_model_matches_gen`) -/
structure Code where
  /-- after `h.Shutdown(...)` returned, `Spin` receives from `errCh` (waits for the result of `Run`) -/
  waitsRun : Bool
  deriving Repr, BEq, DecidableEq

/-- the source as it stands: `Spin` returns right after `Shutdown` -/
def Code.current : Code := { waitsRun := false }

structure Cfg where
  /-- `ExitWaitTimeout` -/
  exitWait : Nat
  /-- the configured registry's `Deregister` returns an error -/
  deregFails : Bool := false
  deriving Repr, BEq, DecidableEq

inductive Err | nil | notRunning | dereg
  deriving Repr, BEq, DecidableEq

inductive RunPh
  | fresh
  /-- `Init` done, `OnRun` hooks running -/
  | hooks
  | marked | serving
  /-- `Run` has returned (accept failed on the closed listener, or an early error); `errCh <- err` blocks -/
  | stopped
  /-- the send on `errCh` has been received -/
  | sent
  deriving Repr, BEq, DecidableEq

inductive SpinPh
  /-- inside `signalWaiter` -/
  | waiting
  /-- `signalWaiter` returned nil (graceful); `h.Shutdown` not yet entered -/
  | signalled
  /-- `Engine.Shutdown`: listener closed, waiting for `active = 0` or the deadline -/
  | draining
  /-- `Engine.Shutdown`: the deferred `select` (hooks finished, or deadline) before returning `e` -/
  | deferred (e : Err)
  /-- `h.Shutdown` returned `e` -/
  | after (e : Err)
  /-- `Spin` returned at time `t` -/
  | returned (t : Nat)
  /-- the process is gone (`main` returned at time `t`) -/
  | exited (t : Nat)
  deriving Repr, BEq, DecidableEq

structure State where
  now : Nat := 0
  status : Nat := 0
  runPh : RunPh := .fresh
  lnOpen : Bool := false
  active : Nat := 0
  spin : SpinPh := .waiting
  sigAt : Nat := 0
  dl : Nat := 0
  hooksDone : Bool := false
  /-- ghost: the engine was running when `Shutdown` loaded the status -/
  ranAtShut : Bool := false
  /-- ghost: time of the last accept after the stop signal -/
  lateAccept : Option Nat := none
  deriving Repr, BEq, DecidableEq

inductive Act
  | advance (d : Nat)
  | runInit | markRunning | listen | accept | connDone | acceptFail | runFail
  | signal | recvErr
  | shutEnter | hooksEnd | drainDone | drainDeadline | shutReturn | spinPost | procExit
  deriving Repr, BEq, DecidableEq

def alive (s : State) : Bool := match s.spin with | .exited _ => false | _ => true

def step (code : Code) (cfg : Cfg) (s : State) : Act → Option State
  | .advance d => some { s with now := s.now + d }
  -- Engine.Init: CAS(status, 0, initialized); then the OnRun hooks
  | .runInit => if alive s ∧ s.runPh = .fresh then some { s with status := 1, runPh := .hooks } else none
  -- the hooks are done; Engine.MarkAsRunning: CAS(status, initialized, running)
  | .markRunning =>
    if alive s ∧ s.runPh = .hooks then
      if s.status = 1 then some { s with status := 2, runPh := .marked } else some { s with runPh := .stopped }
    else none
  | .listen => if alive s ∧ s.runPh = .marked then some { s with runPh := .serving, lnOpen := true } else none
  | .accept =>
    if alive s ∧ s.runPh = .serving ∧ s.lnOpen = true then
      some { s with active := s.active + 1, lateAccept := if s.spin = .waiting then s.lateAccept else some s.now }
    else none
  | .connDone => if alive s ∧ 0 < s.active then some { s with active := s.active - 1 } else none
  -- Accept fails on the closed listener: Run returns, deferred Store(status, closed)
  | .acceptFail =>
    if alive s ∧ s.runPh = .serving ∧ s.lnOpen = false then some { s with runPh := .stopped, status := 4 } else none
  -- Run fails early (an OnRun hook returns an error, the address is in use)
  | .runFail => if alive s ∧ (s.runPh = .hooks ∨ s.runPh = .marked) then some { s with runPh := .stopped } else none
  -- the stop signal is delivered to signalWaiter
  | .signal => if s.spin = .waiting then some { s with spin := .signalled, sigAt := s.now } else none
  -- signalWaiter: `case err := <-errCh` → Engine.Close, Spin returns
  | .recvErr =>
    if s.spin = .waiting ∧ s.runPh = .stopped then some { s with spin := .returned s.now, runPh := .sent, sigAt := s.now } else none
  -- Engine.Shutdown: load, CAS, WithTimeout, go hooks, Deregister, (transport.Shutdown: close the listener)
  | .shutEnter =>
    if s.spin = .signalled then
      if s.status = 2 then
        if cfg.deregFails then
          some { s with status := 3, ranAtShut := true, dl := s.now + cfg.exitWait, spin := .deferred .dereg }
        else
          some { s with status := 3, ranAtShut := true, dl := s.now + cfg.exitWait, lnOpen := false, spin := .draining }
      else some { s with spin := .after .notRunning }
    else none
  | .hooksEnd => if alive s ∧ s.status = 3 then some { s with hooksDone := true } else none
  | .drainDone => if s.spin = .draining ∧ s.active = 0 then some { s with spin := .deferred .nil } else none
  | .drainDeadline => if s.spin = .draining ∧ s.dl ≤ s.now then some { s with spin := .deferred .nil } else none
  | .shutReturn =>
    match s.spin with
    | .deferred e => if s.hooksDone = true ∨ s.dl ≤ s.now then some { s with spin := .after e } else none
    | _ => none
  -- what Spin does after Shutdown returned
  | .spinPost =>
    match s.spin with
    | .after _ =>
      if code.waitsRun then
        if s.runPh = .stopped then some { s with spin := .returned s.now, runPh := .sent } else none
      else some { s with spin := .returned s.now }
    | _ => none
  | .procExit =>
    match s.spin with
    | .returned t => some { s with spin := .exited t }
    | _ => none

def run (code : Code) (cfg : Cfg) : State → List Act → Option State
  | s, [] => some s
  | s, a :: t =>
    match step code cfg s a with
    | none => none
    | some s' => run code cfg s' t

/-- the main goroutine is never delayed when it can move: the clock advances only while it is blocked and not beyond the
instant that wakes it (cf. `Hertz.Shutdown.canAdvance`) -/
def canAdvance (code : Code) (s : State) (d : Nat) : Bool :=
  match s.spin with
  | .waiting | .exited _ => true
  | .signalled | .returned _ => d == 0
  | .draining => d == 0 || (s.active != 0 && s.now + d ≤ s.dl)
  | .deferred _ => d == 0 || (!s.hooksDone && s.now + d ≤ s.dl)
  | .after _ => d == 0 || (code.waitsRun && s.runPh != .stopped)

def actOk (code : Code) (s : State) : Act → Bool
  | .advance d => canAdvance code s d
  | _ => true

def runPrompt (code : Code) (cfg : Cfg) : State → List Act → Option State
  | s, [] => some s
  | s, a :: t =>
    if actOk code s a then
      match step code cfg s a with
      | none => none
      | some s' => runPrompt code cfg s' t
    else none

end Hertz.Spin

namespace Hertz.Arrive

/-- facts about the source (pinned by `Hertz.Props.C18.spin_model_matches_gen`) -/
structure Code where
  /-- `standard.transport.Shutdown` sets a read deadline "now" on every tracked connection -/
  wakeAll : Bool
  deriving Repr, BEq, DecidableEq

def Code.current : Code := { wakeAll := false }

inductive Ph
  /-- nothing of the next request received -/
  | idle
  /-- `k` of the `n` bytes of the request received (`0 < k < n`; the request line is among them) -/
  | reading (k n : Nat)
  /-- request complete, `ServeHTTP` running -/
  | handling
  | closed
  deriving Repr, BEq, DecidableEq

structure Conn where
  ph : Ph := .idle
  /-- read deadline set on the connection by the transport's `Shutdown` -/
  deadline : Option Nat := none
  /-- complete responses written (`true`: carried `Connection: close`) -/
  resps : List Bool := []
  /-- error responses (408 Request timeout) written because a read ran into a deadline -/
  errs : Nat := 0
  /-- ghost: the shutdown itself closed the connection while a request was partly received or in its handler -/
  cut : Bool := false
  deriving Repr, BEq, DecidableEq

structure State where
  now : Nat := 0
  shut : Bool := false
  dl : Nat := 0
  exited : Bool := false
  conns : List Conn := []
  deriving Repr, BEq, DecidableEq

inductive Act
  | advance (d : Nat)
  | accept
  /-- `d` more bytes of a request of `n` bytes arrive on connection `c` -/
  | arrive (c d n : Nat)
  | handlerRet (c : Nat)
  /-- the blocked read of connection `c` runs into the connection's read deadline -/
  | readTimeout (c : Nat)
  | peerClose (c : Nat)
  | shutBegin
  /-- netpoll's shutdown loop finds connection `c` idle and closes it -/
  | npCloseIdle (c : Nat)
  /-- the deadline has come (or nothing is left): `Shutdown` returns, `Spin` returns, the process exits -/
  | procExit
  deriving Repr, BEq, DecidableEq

def updConn (s : State) (c : Nat) (f : Conn → Option Conn) : Option State :=
  match s.conns[c]? with
  | none => none
  | some cn =>
    match f cn with
    | none => none
    | some cn' => some { s with conns := s.conns.set c cn' }

def cArrive (d n : Nat) (cn : Conn) : Option Conn :=
  if d = 0 then none else
  match cn.ph with
  | .idle => if d < n then some { cn with ph := .reading d n } else if d = n then some { cn with ph := .handling } else none
  | .reading k m =>
    if m ≠ n then none
    else if k + d < n then some { cn with ph := .reading (k + d) n }
    else if k + d = n then some { cn with ph := .handling } else none
  | _ => none

/-- `ServeHTTP` returned; exit check; complete response; the connection is closed when shutdown has begun -/
def cHandlerRet (shut : Bool) (cn : Conn) : Option Conn :=
  match cn.ph with
  | .handling => some { cn with ph := if shut then .closed else .idle, resps := cn.resps ++ [shut] }
  | _ => none

/-- a read that is blocked (idle: waiting for the next request; reading: waiting for the rest) fails with `i/o timeout`:
an idle connection is closed silently, a partly received request is answered 408 and the connection closed -/
def cReadTimeout (now : Nat) (cn : Conn) : Option Conn :=
  match cn.deadline with
  | none => none
  | some t =>
    if t ≤ now then
      match cn.ph with
      | .idle => some { cn with ph := .closed }
      | .reading _ _ => some { cn with ph := .closed, errs := cn.errs + 1, cut := true }
      | _ => none
    else none

def cPeerClose (cn : Conn) : Option Conn :=
  match cn.ph with
  | .idle | .reading _ _ => some { cn with ph := .closed }
  | _ => none

def cNpClose (cn : Conn) : Option Conn :=
  match cn.ph with
  | .idle => some { cn with ph := .closed }
  | _ => none

/-- what the transport's `Shutdown` does to one connection when it begins.  netpoll: nothing at that instant - its loop
scans the connections (at once, then every 50 ms … 1 s) and closes those it finds idle (`npCloseIdle`, one step per
connection: a request may arrive on an idle keep-alive connection between the begin of the shutdown and the scan) -/
def touch (code : Code) (np : Bool) (now : Nat) (cn : Conn) : Conn :=
  if np then cn
  else if code.wakeAll then { cn with deadline := some now } else cn

def allClosed (s : State) : Bool := s.conns.all fun cn => cn.ph == .closed

def step (code : Code) (np : Bool) (exitWait : Nat) (s : State) : Act → Option State
  | .advance d => some { s with now := s.now + d }
  | .accept => if !s.exited && !s.shut then some { s with conns := s.conns ++ [{}] } else none
  | .arrive c d n => if s.exited then none else updConn s c (cArrive d n)
  | .handlerRet c => if s.exited then none else updConn s c (cHandlerRet s.shut)
  | .readTimeout c => if s.exited then none else updConn s c (cReadTimeout s.now)
  | .peerClose c => if s.exited then none else updConn s c cPeerClose
  | .shutBegin =>
    if !s.exited && !s.shut then
      some { s with shut := true, dl := s.now + exitWait, conns := s.conns.map (touch code np s.now) }
    else none
  | .npCloseIdle c => if np && s.shut && !s.exited then updConn s c cNpClose else none
  | .procExit =>
    if s.shut && !s.exited && (decide (s.dl ≤ s.now) || allClosed s) then
      some { s with exited := true, conns := s.conns.map fun cn => { cn with ph := .closed } }
    else none

def run (code : Code) (np : Bool) (exitWait : Nat) : State → List Act → Option State
  | s, [] => some s
  | s, a :: t =>
    match step code np exitWait s a with
    | none => none
    | some s' => run code np exitWait s' t

end Hertz.Arrive
