import Hertz.Model.Bind
/-!
Nested struct types and streamed request bodies inside the binding model (property C15, extension X15).

Mirrors, function by function,

* `decoder/decoder.go`   `GetReqDecoder`, `getFieldDecoder` with `parentInfos{Indexes, JSONName}`: the struct branch
  (one `structTypeFieldTextDecoder` for the struct field itself, then the loop over the fields of the struct, each
  child getting `idxes = copy(pIdx) ++ [index]` and `JSONName = newParentJSONName`)
* `decoder/tag.go`       `lookupFieldTags` / `getDefaultFieldTags`: `JSONName = parent + "." + name`, `newParentJSONName`
* `decoder/sonic_required.go`  `checkRequireJSON` / `keyExist` with a dotted name (`sonic.Get(body, "a", "b", "c")`),
  including the waiver "the superior object is absent: report true"
* `decoder/reflect.go`   `GetFieldValue(reqValue, parentIndex)` then `.Field(index)`: the leaf addressed by its full path
* `decoder/struct_type_decoder.go` `structTypeFieldTextDecoder.Decode` (tag loop, `required` error; a text that is found is
  decoded as JSON into the struct: outside the model, `unk`)
* `binding/default.go`   `preBindBody` with a nested JSON document; `protocol.Request.Body()` on a body stream

A struct type is a `Forest` (first child / next sibling encoding of the field tree: no nested inductive type, so all
functions below are structurally recursive and reduce in the kernel).

Values: only the leaves are observed (a nil pointer-to-struct is rendered by the harness as a struct of zero leaves);
the store maps the full index path of a leaf to its value.  Addressing a path that is not a leaf is a `fault`
(Go: `reflect` panics on `Field` of a non-struct / index out of range / `SetInt` on a struct).

Assumptions (see INTEGRATION.md): names contain no `.`; keys whose value is an object are not repeated inside one
object; the nested members of the body are given as a flat list of `(parent path, key, value)` in wire order.
-/
namespace Hertz.Bind
open Hertz

/-- the fields of a struct type, in order: `leaf f rest` = a field of a supported leaf kind followed by the remaining
fields; `strct hdr anon kids rest` = a field whose type is (`hdr.ty.ptr` stars in front of) a struct with fields `kids`
(`hdr.name`, `hdr.tags`, `hdr.dflt` describe the field itself, `anon` = embedded), followed by the remaining fields -/
inductive Forest
  | nil
  | leaf (f : Field) (rest : Forest)
  | strct (hdr : Field) (anon : Bool) (kids : Forest) (rest : Forest)
  deriving DecidableEq, Repr

abbrev Path := List Nat

/-- one member of a nested object of the JSON body: the keys of the enclosing objects (outermost first, not empty),
its own key and its value; an object value is written `.atom .obj` (its members follow as entries of their own) -/
structure JEntry where
  parents : List Bytes
  key : Bytes
  val : JVal
  deriving DecidableEq, Repr

/-- where the body bytes are: in the request buffer, in an unread body stream (`SetBodyStream`, known length), or in a
stream somebody has read to the end without buffering it -/
inductive BodySt | buffered | stream | drained
  deriving DecidableEq, Repr

/-- a request: `r` as before (its JSON members are the TOP-LEVEL members of the body), `deep` the members of nested
objects in wire order, `st` the state of the body -/
structure NReq where
  r : Req
  deep : List JEntry := []
  st : BodySt := .buffered
  deriving DecidableEq, Repr

/-- what `Request.Body()` returns, as a (buffered) request: a drained stream yields the empty byte string (not JSON) -/
def NReq.seen (q : NReq) : NReq :=
  match q.st with
  | .drained => { r := { q.r with body := if q.r.body = .none then .none else .notJson }, deep := [], st := .buffered }
  | _ => { q with st := .buffered }

/-- `Request.Body()` / `BodyE()` as a state change: an unread stream is copied into the body buffer and closed -/
def NReq.afterBody (q : NReq) : NReq :=
  match q.st with
  | .stream => { q with st := .buffered }
  | _ => q

/-! ## the JSON document as seen by `sonic.Get` (exact keys) and by the unmarshaller (case-insensitive keys) -/

/-- members of the object reached by the exact key path `P` (`[]` = the document itself) -/
def exactMembers (q : NReq) (P : List Bytes) : List (Bytes × JVal) :=
  match q.r.body with
  | .json top => if P = [] then top else (q.deep.filter (fun e => e.parents == P)).map (fun e => (e.key, e.val))
  | _ => []

/-- `sonic.Get(body, init…, last).Exists()` -/
def nodeExists (q : NReq) (init : List Bytes) (last : Bytes) : Bool :=
  (exactMembers q init).any (fun m => m.1 == last)

def ciPathEq : List Bytes → List Bytes → Bool
  | [], [] => true
  | a :: as, b :: bs => H1.ciEq a b && ciPathEq as bs
  | _, _ => false

/-- members the unmarshaller feeds into the struct whose chain of JSON names is `P`: at every level a key selects a
field case-insensitively -/
def membersUnder (q : NReq) (P : List Bytes) : List (Bytes × JVal) :=
  match q.r.body with
  | .json top => if P = [] then top else (q.deep.filter (fun e => ciPathEq e.parents P)).map (fun e => (e.key, e.val))
  | _ => []

/-! ## sonic_required.go with a dotted name (the name is kept as the list of its components) -/

/-- `keyExist` for `tagInfo.JSONName = P.join(".") + "." + ti.jsonName` -/
def keyExistAt (q : NReq) (P : List Bytes) (ti : TagInfo) : Bool :=
  if !ctFold q.r then false else nodeExists q P ti.jsonName

/-- the superior of `P ++ [name]` does not exist (`idx > 0 && !Get(JSONName[:idx]).Exists()`) -/
def superiorAbsent (q : NReq) (P : List Bytes) : Bool :=
  match P.reverse with
  | [] => false
  | l :: ri => !nodeExists q ri.reverse l

/-- `checkRequireJSON`: a required name that is absent is reported as found when its superior is absent too -/
def checkRequireJSONAt (q : NReq) (P : List Bytes) (ti : TagInfo) : Bool :=
  if !ti.required then true
  else if !ctFold q.r then false
  else if nodeExists q P ti.jsonName then true
  else superiorAbsent q P

/-! ## the tag loops, with the two JSON predicates as parameters

`baseLoopG r (checkRequireJSON r) (keyExist r) = baseLoop r` (Proofs/BindNested.lean): the loops of
`base_type_decoder.go` / `slice_type_decoder.go` / `struct_type_decoder.go` are the same text; only the JSON name the
predicates look up differs between a top-level and a nested field. -/

def jsonBranchG (chk ke : TagInfo → Bool) (ti : TagInfo) (err : Option ErrKind) : Option ErrKind × Bytes :=
  let err :=
    if chk ti then
      (if ti.required || ke ti then none else err)
    else some .required
  (err, if ti.dflt ≠ [] ∧ ke ti then [] else ti.dflt)

def baseLoopG (r : Req) (chk ke : TagInfo → Bool) : List TagInfo → LoopSt → LoopSt
  | [], st => st
  | ti :: rest, st =>
    if ti.skip ∨ ti.key = .json then
      if ti.key = .json then
        let e := jsonBranchG chk ke ti st.err
        baseLoopG r chk ke rest { st with err := e.1, dflt := e.2 }
      else baseLoopG r chk ke rest st
    else
      let g := getter r ti.key ti.value
      if g.2 then { err := none, text := g.1, exist := true, dflt := ti.dflt }
      else baseLoopG r chk ke rest { err := if ti.required then some .required else st.err, text := g.1, exist := false, dflt := ti.dflt }

def decodeBaseG (r : Req) (chk ke : TagInfo → Bool) (ty : Ty) (tis : List TagInfo) (pre : FieldVal) : FOut :=
  let st := baseLoopG r chk ke tis {}
  match st.err with
  | some e => .err e
  | none =>
    let text := if st.text = [] ∧ st.dflt ≠ [] then toDefaultValue ty st.dflt else st.text
    if !st.exist ∧ text = [] then .ok pre
    else textOutcome ty text

def sliceLoopG (r : Req) (chk ke : TagInfo → Bool) : List TagInfo → SLoopSt → SLoopSt
  | [], st => st
  | ti :: rest, st =>
    if ti.skip ∨ ti.key = .json then
      if ti.key = .json then
        let e := jsonBranchG chk ke ti st.err
        sliceLoopG r chk ke rest { st with err := e.1, dflt := e.2 }
      else sliceLoopG r chk ke rest st
    else
      let ts := sliceGetter r ti.key ti.value
      if ts ≠ [] then { err := none, texts := ts, dflt := ti.dflt }
      else sliceLoopG r chk ke rest { err := if ti.required then some .required else st.err, texts := ts, dflt := ti.dflt }

def decodeSliceG (r : Req) (chk ke : TagInfo → Bool) (ty : Ty) (tis : List TagInfo) (pre : FieldVal) : FOut :=
  let st := sliceLoopG r chk ke tis {}
  match st.err with
  | some e => .err e
  | none =>
    if st.texts = [] ∧ st.dflt ≠ [] then
      jsonFromText ty pre (toDefaultValue ty st.dflt)
    else match st.texts with
      | [] => .ok pre
      | t0 :: ts => textsOutcome ty pre t0 ts

/-- `structTypeFieldTextDecoder.Decode`: the same loop; an error is returned; when a text (or a default) is found it
is unmarshalled as JSON into the struct, errors being logged and dropped — the model has no opinion there -/
def decodeStructG (r : Req) (chk ke : TagInfo → Bool) (ty : Ty) (tis : List TagInfo) : FOut :=
  let st := baseLoopG r chk ke tis {}
  match st.err with
  | some e => .err e
  | none =>
    let text := if st.text = [] ∧ st.dflt ≠ [] then toDefaultValue ty st.dflt else st.text
    if !st.exist ∧ text = [] then .ok .unset
    else .unk

/-! ## decoder.go: building the decoders -/

/-- a field decoder as built by `getFieldDecoder`: `fieldInfo.parentIndex`, `fieldInfo.index`, the parent JSON name the
tag infos were built with, the compiled field; `isStruct` = a `structTypeFieldTextDecoder` -/
structure NDec where
  parentIdx : Path
  index : Nat
  jparent : List Bytes
  dec : FieldDec
  isStruct : Bool := false
  deriving DecidableEq, Repr

/-- `newParentJSONName` (last component): the JSON name of the last tag `lookupFieldTags` went through, the Go name
when the field has no source tag -/
def newParentName (hdr : Field) : Bytes :=
  match (lookupFieldTags hdr).getLast? with
  | some t => t.jsonName
  | none => hdr.name

/-- `/repo` 1242bf1: an embedded struct without a JSON name of its own keeps the parent's JSON name for its fields (the
JSON decoder promotes them into the enclosing object): `if field.Anonymous { if name, _ := head(json tag, ","); name == "" … }` -/
def keepsParentJSON (hdr : Field) (anon : Bool) : Bool :=
  anon && (match hdr.tags.lookup .json with
           | none => true
           | some content => (headComma content).1 == [])

/-- the loop `for i := 0; i < el.NumField(); i++ { … getFieldDecoder(pInfo, el.Field(i), i, …) }` over the fields
`i, i+1, …` of a struct whose own index path is `pidx` and whose JSON name is `pj`.
For a struct field: its own decoder, then (`hasSameType` is false for a finite type) the decoders of its fields built
with `idxes = pidx ++ [i]` (a fresh copy per child in the Go code) and `JSONName = newParentJSONName`. -/
def compileN (pidx : Path) (pj : List Bytes) (i : Nat) : Forest → List NDec
  | .nil => []
  | .leaf f rest =>
    { parentIdx := pidx, index := i, jparent := pj, dec := compileField f } :: compileN pidx pj (i + 1) rest
  | .strct hdr anon kids rest =>
    { parentIdx := pidx, index := i, jparent := pj, dec := compileField hdr, isStruct := true } ::
      (compileN (pidx ++ [i]) (if keepsParentJSON hdr anon then pj else pj ++ [newParentName hdr]) 0 kids ++
        compileN pidx pj (i + 1) rest)

/-- full index paths of the leaves, in field order (depth first) -/
def leafPaths (pidx : Path) (i : Nat) : Forest → List Path
  | .nil => []
  | .leaf _ rest => (pidx ++ [i]) :: leafPaths pidx (i + 1) rest
  | .strct _ _ kids rest => leafPaths (pidx ++ [i]) 0 kids ++ leafPaths pidx (i + 1) rest

def leaves : Forest → List Field
  | .nil => []
  | .leaf f rest => f :: leaves rest
  | .strct _ _ kids rest => leaves kids ++ leaves rest

/-! ## the JSON pre-bind on a nested document -/

/-- how the unmarshaller knows a struct-typed field: `none` = ignored (`json:"-"`), `some none` = embedded without a
JSON name: its fields are promoted into the enclosing object, `some (some n)` = under the key `n` -/
def structJSONName (hdr : Field) (anon : Bool) : Option (Option Bytes) :=
  match hdr.tags.lookup .json with
  | none => if anon then some none else some (some hdr.name)
  | some content =>
    if content = dash then none
    else if (headComma content).1 = [] then (if anon then some none else some (some hdr.name))
    else some (some (headComma content).1)

/-- the chain of JSON names, as the unmarshaller sees it, for the fields of the struct-typed field `hdr` inside `P` -/
def stepD (P : Option (List Bytes)) (hdr : Field) (anon : Bool) : Option (List Bytes) :=
  match P, structJSONName hdr anon with
  | some P, some (some n) => some (P ++ [n])
  | some P, some none => some P
  | _, _ => none

/-- the value a struct-typed field receives must be an object or `null` -/
def structMemberOK : JVal → Bool
  | .atom .obj => true
  | .atom .null => true
  | _ => false

def isJSONReq (q : NReq) : Bool := hasBody q.r && ctFold q.r

/-- verdict of the unmarshaller on the members addressed to a struct-typed field named `n` inside the object `P` -/
def preStruct (q : NReq) (P : List Bytes) (n : Bytes) : Conv FieldVal :=
  let ms := (membersUnder q P).filter (fun m => H1.ciEq m.1 n)
  if ms.all (fun m => structMemberOK m.2) then
    (if ms.length > 1 ∧ ms.any (fun m => m.2 == .atom .null) then .unk else .ok .unset)
  else .err

/-- what the unmarshaller leaves in a leaf inside the object `P` (`none` = under an ignored struct: nothing) -/
def preLeaf (sonic : Bool) (q : NReq) (P : Option (List Bytes)) (f : Field) : Conv FieldVal :=
  match P with
  | none => .ok .unset
  | some P => preBindMembers sonic f (membersUnder q P) (.ok .unset)

/-- per leaf (in field order) what the pre-bind leaves in it; `P` = chain of JSON names of the enclosing structs as
the unmarshaller sees them -/
def preLeaves (sonic : Bool) (q : NReq) (P : Option (List Bytes)) : Forest → List (Conv FieldVal)
  | .nil => []
  | .leaf f rest => preLeaf sonic q P f :: preLeaves sonic q P rest
  | .strct hdr anon kids rest =>
    let P' := stepD P hdr anon
    preLeaves sonic q P' kids ++ preLeaves sonic q P rest

/-- per struct-typed field the verdict on the members addressed to it -/
def preStructs (q : NReq) (P : Option (List Bytes)) : Forest → List (Conv FieldVal)
  | .nil => []
  | .leaf _ rest => preStructs q P rest
  | .strct hdr anon kids rest =>
    let P' := stepD P hdr anon
    let own := match P, structJSONName hdr anon with
      | some P, some (some n) => preStruct q P n
      | _, _ => .ok .unset
    own :: (preStructs q P' kids ++ preStructs q P rest)

/-- `preBindBody`: only with a body and a JSON content type; the values of the leaves when the document is accepted -/
def preBindN (sonic : Bool) (q : NReq) (t : Forest) : Conv (List FieldVal) :=
  if isJSONReq q then
    match q.r.body with
    | .json _ =>
      (match collect (preStructs q (some []) t) with
        | .err => .err
        | c => match collect (preLeaves sonic q (some []) t), c with
          | .err, _ => .err
          | .unk, _ => .unk
          | .ok _, .unk => .unk
          | .ok vs, _ => .ok vs)
    | _ => .err
  else .ok ((leaves t).map (fun _ => .unset))

/-! ## running the decoders on the bound value -/

abbrev Store := List (Path × FieldVal)

def Store.set (s : Store) (p : Path) (v : FieldVal) : Store :=
  s.map (fun e => if e.1 = p then (e.1, v) else e)

inductive NOutcome | ok (vals : List FieldVal) | err (e : ErrKind) | unk | fault
  deriving DecidableEq, Repr

def NDec.run (q : NReq) (d : NDec) (pre : FieldVal) : FOut :=
  let chk := checkRequireJSONAt q d.jparent
  let ke := keyExistAt q d.jparent
  if d.isStruct then decodeStructG q.r chk ke d.dec.ty d.dec.tis
  else if d.dec.ty.slice then decodeSliceG q.r chk ke d.dec.ty d.dec.tis pre
  else decodeBaseG q.r chk ke d.dec.ty d.dec.tis pre

/-- the closure returned by `GetReqDecoder`: the decoders in order, the first error wins; a leaf decoder reads and writes
`GetFieldValue(rv, parentIndex).Field(index)`: a path that is not a leaf of the value is a fault -/
def runN (q : NReq) : List NDec → Store → NOutcome
  | [], s => .ok (s.map (·.2))
  | d :: ds, s =>
    if d.isStruct then
      match d.run q .unset with
      | .err e => .err e
      | .unk => .unk
      | .ok _ => runN q ds s
    else
      match s.lookup (d.parentIdx ++ [d.index]) with
      | none => .fault
      | some pre =>
        match d.run q pre with
        | .err e => .err e
        | .unk => .unk
        | .ok v => runN q ds (s.set (d.parentIdx ++ [d.index]) v)

/-- `Bind` once the decoders are in hand -/
def bindNWith (decs : List NDec) (t : Forest) (q : NReq) : NOutcome :=
  match preBindN true q t with
  | .err => .err .body
  | .unk => .unk
  | .ok pres => runN q decs ((leafPaths [] 0 t).zip pres)

/-- **`Bind` / `BindAndValidate` of a nested type, as a function of the type, the request and the state of its body**;
the second component is the request afterwards (`preBindBody` calls `Request.Body()`, which buffers a body stream) -/
def bindN (t : Forest) (q : NReq) : NOutcome × NReq :=
  (bindNWith (compileN [] [] 0 t) t q.seen, if isJSONReq q then q.afterBody else q)

/-- two binds of the same request, one after the other -/
def bindTwice (t : Forest) (q : NReq) : NOutcome × NOutcome :=
  ((bindN t q).1, (bindN t (bindN t q).2).1)

end Hertz.Bind
