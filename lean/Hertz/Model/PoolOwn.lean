/-!
# C09 — ownership of pooled objects along the paths of `http1.Server.Serve`

`Model/Recycle.lean` says what a recycled object LOOKS like.  This file says who OWNS it.

* A `sync.Pool` is a multiset of object identities (`List Nat`); `Put x` adds `x` **unconditionally** (the real
  pool does not look at what it is given: putting an object twice gives a pool that hands it out twice),
  `Get` removes *some* stored identity (`i` arbitrary) or, when there is none at `i`, allocates a new one.
* Three pools: `Engine.ctxPool` (`*app.RequestContext`), `ext.bodyStreamPool` (`*bodyStream`),
  `Engine.hijackConnPool` (`*hijackConn`).
* One connection is a small state machine over the acquire/release sites of `Server.Serve`
  (`getRequestContext` … the loop … the deferred function).  The connection keeps the REFERENCES the Go code keeps
  (`ctx`, `ctx.Request.bodyStream`, the `hjc` local of `hijackConnHandler`): in particular
  `ctx.Request.bodyStream` still points to the stream after "Release request body stream" until
  `ResetWithoutConn()` / `Reset()` clears it — a dangling reference (phase `released` and the `ret` phases after it).
  Whether a reference is OWNED is a function of the control point (`Phase`), not extra state.
* Connections interleave arbitrarily: a run is any list of events, each naming its connection; an event that does
  not fit the control point of its connection is a no-op (`step` is total).

The acquire / release sites these steps were written against are regenerated from the Go source
(`Gen/PoolSites.lean`) and pinned by `Props.C09.release_sites_match_gen`.
-/
namespace Hertz.PoolOwn

inductive Kind where
  | ctx | stream | hjconn
  deriving DecidableEq, Repr

/-- which `return` of `Serve` was taken (the deferred function has not run yet) -/
inductive RetSite where
  | readErr      -- ReadHeader/ReadBodyStream/ContinueReadBodyStream failed, nothing read, idle timeout, 100-continue write failed
  | writeFail    -- writeResponse or zw.Flush failed: BEFORE "Release request body stream"
  | panicked     -- the handler panicked and nothing recovered: the deferred function runs while unwinding
  | releaseErr   -- ext.ReleaseBodyStream returned the error of skipRest (the Put has happened)
  | hijacked     -- errHijacked, after HijackConnHandle returned
  | shortConn    -- connectionClose (Connection: close, DisableKeepalive, engine not running)
  | idle0        -- IdleTimeout == 0
  deriving DecidableEq, Repr

inductive Phase where
  | idle                 -- top of the loop / reading the next request; `Request.bodyStream == nil`
  | handling             -- request read (stream acquired if the body is streamed); the handler chain runs here
  | released             -- response written, flushed, body stream released; the reference dangles
  | hijacking            -- inside `hijackConnHandler`, `hjc` acquired, the user's hijack handler runs here
  | ret (r : RetSite)
  deriving DecidableEq, Repr

structure Conn where
  phase : Phase
  ctx : Nat
  /-- `ctx.Request.bodyStream` when it is a `*bodyStream` -/
  stream : Option Nat := none
  /-- `hjc` of `hijackConnHandler`, the object the user's hijack handler was given; the user's variable keeps
  pointing to it after it was released -/
  hj : Option Nat := none
  /-- control point of the holder of `hj`: true from `acquireHijackConn` until its first effective release -/
  hjLive : Bool := false
  exiled : Bool := false
  deriving DecidableEq, Repr

def Conn.ref (cn : Conn) : Kind → Option Nat
  | .ctx => some cn.ctx
  | .stream => cn.stream
  | .hjconn => cn.hj

/-- On the paths that return before the release site the stream is still the request's. -/
def RetSite.streamLive : RetSite → Bool
  | .writeFail | .panicked => true
  | _ => false

/-- Is the reference of kind `k` an owning one at this control point? -/
def Conn.owns (cn : Conn) : Kind → Bool
  | .ctx => true
  | .stream => match cn.phase with
    | .handling => true
    | .ret r => r.streamLive
    | _ => false
  | .hjconn => cn.hjLive

structure State where
  pool : Kind → List Nat := fun _ => []
  conns : Nat → Option Conn := fun _ => none
  next : Nat := 0
  /-- per object: `hjc.Conn != nil` (set by `acquireHijackConn`, cleared by `releaseHijackConn`) -/
  hjSet : Nat → Bool := fun _ => false
  /-- `Engine.KeepHijackedConns` (constant) -/
  keepHj : Bool := false

/-- `sync.Pool.Get`: the identity handed out, the remaining pool, the allocation counter -/
def take (l : List Nat) (i next : Nat) : Nat × List Nat × Nat :=
  match l[i]? with
  | some x => (x, l.eraseIdx i, next)
  | none => (next, l, next + 1)

def State.setPool (s : State) (k : Kind) (l : List Nat) : State :=
  { s with pool := fun k' => if k' = k then l else s.pool k' }

def State.setConn (s : State) (c : Nat) (cn : Option Conn) : State :=
  { s with conns := fun c' => if c' = c then cn else s.conns c' }

/-- `sync.Pool.Put` -/
def State.put (s : State) (k : Kind) (x : Nat) : State := s.setPool k (x :: s.pool k)

/-- `hjc.Conn = c` / `hjc.Conn = nil` -/
def State.setHj (s : State) (x : Nat) (b : Bool) : State :=
  { s with hjSet := fun y => if y = x then b else s.hjSet y }

/-- how the handler chain ended -/
inductive HandlerEnd where
  | returned | panicked
  deriving DecidableEq, Repr

/-- what follows the release site -/
inductive Ending where
  | keepAlive | hijack | close | idle0
  deriving DecidableEq, Repr

inductive Ev where
  /-- `ctx = s.getRequestContext()` on a new connection `c` -/
  | accept (c i : Nat)
  /-- the request is read; `streamed`: `AcquireBodyStream` is called (choice `i`) -/
  | read (c : Nat) (streamed : Bool) (i : Nat)
  /-- any `return` between the top of the loop and the handler -/
  | readFail (c : Nat)
  /-- `s.Core.ServeHTTP(cc, ctx)`; `exile`: the handler called `ctx.Exile()` -/
  | handle (c : Nat) (exile : Bool) (e : HandlerEnd)
  /-- `writeResponse`, `zw.Flush` (`ok = false`: one of them failed), then "Release request body stream"
  (`skipErr`: `skipRest` failed) -/
  | respond (c : Nat) (ok skipErr : Bool)
  /-- hijack (acquireHijackConn, choice `i`) / short connection / IdleTimeout 0 / `ctx.ResetWithoutConn()` -/
  | after (c : Nat) (e : Ending) (i : Nat)
  /-- the user's code calls `Close()` on the hijack conn it was given — any number of times, while its hijack
  handler runs or (a kept conn) while `Serve` returns.  `hijackConn.Close`: nothing unless `KeepHijackedConns`;
  nothing if `c.Conn == nil` (4f1f5ed); else `releaseHijackConn` (`Conn = nil`, `Put`) -/
  | userClose (c : Nat)
  /-- the hijack handler returned: `if !KeepHijackedConns { c.Close(); releaseHijackConn(hjc) }` -/
  | hijackEnd (c : Nat)
  /-- the deferred function of `Serve`: `if ctx.IsExiled() { return }; s.putRequestContext(ctx)` -/
  | finish (c : Nat)
  deriving DecidableEq, Repr

def step (s : State) : Ev → State
  | .accept c i =>
    match s.conns c with
    | some _ => s
    | none =>
      let (x, l, n) := take (s.pool .ctx) i s.next
      { (s.setPool .ctx l).setConn c (some { phase := .idle, ctx := x }) with next := n }
  | .read c streamed i =>
    match s.conns c with
    | some cn =>
      if cn.phase = .idle then
        if streamed then
          let (x, l, n) := take (s.pool .stream) i s.next
          { (s.setPool .stream l).setConn c (some { cn with phase := .handling, stream := some x }) with next := n }
        else s.setConn c (some { cn with phase := .handling })
      else s
    | none => s
  | .readFail c =>
    match s.conns c with
    | some cn => if cn.phase = .idle then s.setConn c (some { cn with phase := .ret .readErr }) else s
    | none => s
  | .handle c exile e =>
    match s.conns c with
    | some cn =>
      if cn.phase = .handling then
        let cn := { cn with exiled := cn.exiled || exile }
        match e with
        | .returned => s.setConn c (some cn)
        | .panicked => s.setConn c (some { cn with phase := .ret .panicked })
      else s
    | none => s
  | .respond c ok skipErr =>
    match s.conns c with
    | some cn =>
      if cn.phase = .handling then
        if ok then
          -- if reqBodyStream != nil { err = ext.ReleaseBodyStream(reqBodyStream); if err != nil { return } }   (the local taken
          -- before the handler ran, d6f45a0: what the handler does to `Request.bodyStream` no longer matters here)
          match cn.stream with
          | some x =>
            (s.put .stream x).setConn c (some { cn with phase := if skipErr then .ret .releaseErr else .released })
          | none => s.setConn c (some { cn with phase := .released })
        else s.setConn c (some { cn with phase := .ret .writeFail })
      else s
    | none => s
  | .after c e i =>
    match s.conns c with
    | some cn =>
      if cn.phase = .released then
        match e with
        | .hijack =>
          let (x, l, n) := take (s.pool .hjconn) i s.next
          { ((s.setPool .hjconn l).setConn c (some { cn with phase := .hijacking, hj := some x, hjLive := true })).setHj x true
            with next := n }
        | .close => s.setConn c (some { cn with phase := .ret .shortConn })
        | .idle0 => s.setConn c (some { cn with phase := .ret .idle0 })
        | .keepAlive => s.setConn c (some { cn with phase := .idle, stream := none })   -- ctx.ResetWithoutConn()
      else s
    | none => s
  | .userClose c =>
    match s.conns c with
    | some cn =>
      if cn.phase = .hijacking ∨ cn.phase = .ret .hijacked then
        match cn.hj with
        | some x =>
          if s.keepHj && s.hjSet x then
            ((s.put .hjconn x).setHj x false).setConn c (some { cn with hjLive := false })
          else s
        | none => s
      else s
    | none => s
  | .hijackEnd c =>
    match s.conns c with
    | some cn =>
      if cn.phase = .hijacking then
        match cn.hj with
        | some x =>
          if s.keepHj then s.setConn c (some { cn with phase := .ret .hijacked })
          else ((s.put .hjconn x).setHj x false).setConn c (some { cn with phase := .ret .hijacked, hj := none, hjLive := false })
        | none => s.setConn c (some { cn with phase := .ret .hijacked })
      else s
    | none => s
  | .finish c =>
    match s.conns c with
    | some cn =>
      match cn.phase with
      | .ret _ => if cn.exiled then s.setConn c none else (s.put .ctx cn.ctx).setConn c none
      | _ => s
    | none => s

def run (s : State) : List Ev → State
  | [] => s
  | e :: es => run (step s e) es

def init : State := {}
/-- an engine with `KeepHijackedConns = keep` -/
def initK (keep : Bool) : State := { keepHj := keep }

/-! ## statements -/

def Conn.holds (cn : Conn) (k : Kind) (x : Nat) : Prop := cn.ref k = some x ∧ cn.owns k = true

instance (cn : Conn) (k : Kind) (x : Nat) : Decidable (cn.holds k x) := by unfold Conn.holds; exact inferInstance

/-- the ownership discipline -/
structure Inv (s : State) : Prop where
  nodup : ∀ k, (s.pool k).Nodup
  poolLt : ∀ k x, x ∈ s.pool k → x < s.next
  refLt : ∀ c cn k x, s.conns c = some cn → cn.ref k = some x → x < s.next
  notPooled : ∀ c cn k x, s.conns c = some cn → cn.holds k x → x ∉ s.pool k
  distinct : ∀ c d cn dn k x, s.conns c = some cn → s.conns d = some dn → cn.holds k x → dn.holds k x → c = d
  idleClean : ∀ c cn, s.conns c = some cn → cn.phase = .idle → cn.stream = none
  hjOnly : ∀ c cn x, s.conns c = some cn → cn.hj = some x → cn.phase = .hijacking ∨ cn.phase = .ret .hijacked
  /-- only a user `Close` under `KeepHijackedConns` ends the holder's ownership while the reference stays -/
  liveUnlessKeep : ∀ c cn x, s.conns c = some cn → cn.hj = some x → cn.hjLive = false → s.keepHj = true

/-- an object is accounted for: in its pool, or owned by a live connection -/
def tracked (s : State) (k : Kind) (x : Nat) : Prop :=
  x ∈ s.pool k ∨ ∃ c cn, s.conns c = some cn ∧ cn.holds k x

/-- The places where `Serve` lets go of an object without putting it back (the garbage collector gets it):
an exiled context; a body stream on the early returns (write/flush failure, unrecovered panic); a hijack conn
the user keeps (`KeepHijackedConns`) and has not closed when `Serve` returns. -/
def deliberate (s : State) (e : Ev) (k : Kind) (x : Nat) : Prop :=
  match e with
  | .finish c => ∃ cn, s.conns c = some cn ∧ cn.holds k x ∧
      ((k = .ctx ∧ cn.exiled = true) ∨
       (k = .stream ∧ (cn.phase = .ret .writeFail ∨ cn.phase = .ret .panicked)) ∨
       k = .hjconn)
  | _ => False

/-- The case the repaired `hijackConn.Close` still does NOT protect: a holder that has already released its hijack
conn calls `Close` again after the object was handed to another connection (`Conn` is set again, so the guard
`conn == nil` does not fire): it closes the other connection and puts the object while the other one uses it. -/
def staleClose (s : State) : Ev → Prop
  | .userClose c => ∃ cn x, s.conns c = some cn ∧ cn.hj = some x ∧ cn.hjLive = false ∧ s.hjSet x = true ∧
      s.keepHj = true ∧ (cn.phase = .hijacking ∨ cn.phase = .ret .hijacked)
  | _ => False

/-- a run without such a call -/
def NoStale (s : State) : List Ev → Prop
  | [] => True
  | e :: es => ¬ staleClose s e ∧ NoStale (step s e) es

/-! ## from a script (what the harness drives) to events -/

/-- one request of a scripted connection -/
structure Req where
  /-- the request reaches the handler (false: malformed / truncated / end of input) -/
  readable : Bool
  /-- `AcquireBodyStream` is called for it (StreamRequestBody and a body framing) -/
  streamed : Bool
  /-- `skipRest` fails (broken chunked body not consumed by the handler) -/
  skipErr : Bool := false
  exile : Bool := false
  panics : Bool := false      -- and nothing recovers
  failWrite : Bool := false
  hijack : Bool := false
  /-- how often the hijack handler calls `Close()` on the conn it was given -/
  closes : Nat := 0
  close : Bool := false
  deriving DecidableEq, Repr

/-- events of connection `c` for the rest of its script; `gets` supplies the `Get` choices in order.
Guards in the order of the Go code: write failure, release error, hijack, close, IdleTimeout 0. -/
def connEvents (c : Nat) (idle0 : Bool) : List Req → List Ev
  | [] => [.readFail c, .finish c]
  | r :: rs =>
    if !r.readable then [.readFail c, .finish c] else
    [.read c r.streamed 0, .handle c r.exile (if r.panics then .panicked else .returned)] ++
    (if r.panics then [.finish c] else
     if r.failWrite then [.respond c false false, .finish c] else
     if r.streamed && r.skipErr then [.respond c true true, .finish c] else
     [.respond c true false] ++
     (if r.hijack then [.after c .hijack 0] ++ List.replicate r.closes (.userClose c) ++ [.hijackEnd c, .finish c] else
      if r.close then [.after c .close 0, .finish c] else
      if idle0 then [.after c .idle0 0, .finish c] else
      .after c .keepAlive 0 :: connEvents c idle0 rs))

/-! ## the acquire / release sites the steps above were written against

(function, enclosing guards, call), in source order, of `http1/server.go`, `http1/ext/stream.go`,
`http1/req/request.go` (stream acquisition), `route/engine.go` (hijack conn) and `protocol/request.go` (body buffer).
Regenerated from the Go source into `Gen/PoolSites.lean`; `Props.C09.release_sites_match_gen` pins the two lists. -/
def expectedSites : List (String × String × String) := [
  ("Server.getRequestContext", "disabaleRequestContextPool", "return"),
  ("Server.getRequestContext", "", "s.Core.GetCtxPool().Get()"),
  ("Server.getRequestContext", "", "return"),
  ("Server.putRequestContext", "disabaleRequestContextPool", "return"),
  ("Server.putRequestContext", "", "ctx.Reset()"),
  ("Server.putRequestContext", "", "s.Core.GetCtxPool().Put(ctx)"),
  ("Server.Serve", "", "s.getRequestContext()"),
  ("Server.Serve", "s.EnableTrace", "s.eventStackPool.Get()"),
  ("Server.Serve", "defer && s.EnableTrace && eventsToTrigger != nil", "s.eventStackPool.Put(eventsToTrigger)"),
  ("Server.Serve", "defer && ctx.IsExiled()", "return"),
  ("Server.Serve", "defer", "s.putRequestContext(ctx)"),
  ("Server.Serve", "ctx.Request.MayContinue() && continueReadingRequest", "zw.Flush()"),
  ("Server.Serve", "", "s.Core.ServeHTTP(cc, ctx)"),
  ("Server.Serve", "", "writeResponse(ctx, zw)"),
  ("Server.Serve", "", "zw.Flush()"),
  ("Server.Serve", "reqBodyStream != nil", "ext.ReleaseBodyStream(reqBodyStream)"),
  ("Server.Serve", "hijackHandler != nil", "s.HijackConnHandle(ctx.GetConn(), hijackHandler)"),
  ("Server.Serve", "", "ctx.ResetWithoutConn()"),
  ("AcquireBodyStream", "", "bodyStreamPool.Get()"),
  ("AcquireBodyStream", "", "return"),
  ("ReleaseBodyStream", "ok", "rs.skipRest()"),
  ("ReleaseBodyStream", "ok", "rs.reset()"),
  ("ReleaseBodyStream", "ok", "bodyStreamPool.Put(rs)"),
  ("ReleaseBodyStream", "", "return"),
  ("ContinueReadBodyStream", "err != nil && errors.Is(err, errs.ErrBodyTooLarge)", "ext.AcquireBodyStream(bodyBuf, zr, req.Header.Trailer(), contentLength)"),
  ("ContinueReadBodyStream", "err != nil && errors.Is(err, errs.ErrBodyTooLarge)", "req.ConstructBodyStream(bodyBuf, ext.AcquireBodyStream(bodyBuf, zr, req.Header.Trailer(), contentLength))"),
  ("ContinueReadBodyStream", "err != nil && errors.Is(err, errs.ErrChunkedStream)", "ext.AcquireBodyStream(bodyBuf, zr, req.Header.Trailer(), contentLength)"),
  ("ContinueReadBodyStream", "err != nil && errors.Is(err, errs.ErrChunkedStream)", "req.ConstructBodyStream(bodyBuf, ext.AcquireBodyStream(bodyBuf, zr, req.Header.Trailer(), contentLength))"),
  ("ContinueReadBodyStream", "", "ext.AcquireBodyStream(bodyBuf, zr, req.Header.Trailer(), contentLength)"),
  ("ContinueReadBodyStream", "", "req.ConstructBodyStream(bodyBuf, ext.AcquireBodyStream(bodyBuf, zr, req.Header.Trailer(), contentLength))"),
  ("Engine.acquireHijackConn", "engine.NoHijackConnPool", "return"),
  ("Engine.acquireHijackConn", "", "engine.hijackConnPool.Get()"),
  ("Engine.acquireHijackConn", "v == nil", "return"),
  ("Engine.acquireHijackConn", "", "return"),
  ("Engine.releaseHijackConn", "engine.NoHijackConnPool", "return"),
  ("Engine.releaseHijackConn", "", "engine.hijackConnPool.Put(hjc)"),
  ("Engine.hijackConnHandler", "", "engine.acquireHijackConn(c)"),
  ("Engine.hijackConnHandler", "", "h(hjc)"),
  ("Engine.hijackConnHandler", "!engine.KeepHijackedConns", "c.Close()"),
  ("Engine.hijackConnHandler", "!engine.KeepHijackedConns", "engine.releaseHijackConn(hjc)"),
  ("hijackConn.Close", "!c.e.KeepHijackedConns", "return"),
  ("hijackConn.Close", "conn == nil", "return"),
  ("hijackConn.Close", "", "c.e.releaseHijackConn(c)"),
  ("hijackConn.Close", "", "conn.Close()"),
  ("hijackConn.Close", "", "return"),
  ("Request.BodyBuffer", "req.body == nil", "requestBodyPool.Get()"),
  ("Request.BodyBuffer", "", "return"),
  ("Request.ResetBody", "", "req.CloseBodyStream()"),
  ("Request.ResetBody", "req.body != nil && req.body.Cap() <= req.maxKeepBodySize", "return"),
  ("Request.ResetBody", "req.body != nil", "requestBodyPool.Put(req.body)"),
  ("Request.CloseBodyStream", "req.bodyStream == nil", "return"),
  ("Request.CloseBodyStream", "", "return")]

end Hertz.PoolOwn
