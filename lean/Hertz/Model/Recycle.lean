import Hertz.Gen.Resets
/-!
# C09 — composite recycling steps and the object pools

The reset bodies themselves are generated (`Hertz/Gen/Resets.lean`, one Lean function per Go method, translated
statement by statement on every run).  This file adds what the server and the public pools do *around* them:

* `serveRecycle`  — tail of one iteration of the keep-alive loop of `http1.Server.Serve`
                    (`ctx.SetHijackHandler(nil)` … `ctx.ResetWithoutConn()`);
* `poolRecycle`   — what a context went through when it sits in `Engine.ctxPool`
                    (`putRequestContext`: `ctx.Reset()` then `Put`), after the loop cleared the hijack handler;
* `release…`      — `protocol.ReleaseRequest/Response/URI/Cookie` (`x.Reset()` then `Put`);
* `poolRun`       — `sync.Pool` as far as the property needs it: `Get` hands out *some* object that was `Put`
                    earlier, or a new one; which one is not determined (index `i` is arbitrary).

The call skeletons these definitions mirror are regenerated from the source and pinned by
`Hertz.Props.C09.model_matches_gen`.
-/
namespace Hertz.Recycle
open Hertz Hertz.ResetBase Hertz.Gen.Resets

def serveRecycle (o : Oracle) (s : RequestContext) : RequestContext :=
  RequestContext_ResetWithoutConn o (RequestContext_SetHijackHandler o 0 s)

def poolRecycle (o : Oracle) (s : RequestContext) : RequestContext :=
  RequestContext_Reset o (RequestContext_SetHijackHandler o 0 s)

def releaseRequest (o : Oracle) (s : Request) : Request := Request_Reset o s
def releaseResponse (o : Oracle) (s : Response) : Response := Response_Reset o s
def releaseURI (o : Oracle) (s : URI) : URI := URI_Reset o s
def releaseCookie (o : Oracle) (s : Cookie) : Cookie := Cookie_Reset o s

/-- the skeletons the definitions above were written against -/
def expectedSkeletons : List (List String) := [
  ["ctx.SetHijackHandler(nil)", "ctx.ResetWithoutConn()"],
  ["ctx.Reset()", "s.Core.GetCtxPool().Put(ctx)"],
  ["req.Reset()", "requestPool.Put(req)"],
  ["resp.Reset()", "responsePool.Put(resp)"],
  ["u.Reset()", "uriPool.Put(u)"],
  ["c.Reset()", "cookiePool.Put(c)"]]

def generatedSkeletons : List (List String) :=
  [serveTail, putRequestContextCalls, releaseRequestCalls, releaseResponseCalls, releaseURICalls, releaseCookieCalls]

/-- events on one pool: `put o x` releases an object in an arbitrary state `x` (`o`: how the capacity tests of
that particular reset turn out), `get i` acquires one -/
inductive PoolEv (α : Type) where
  | put (o : Oracle) (x : α)
  | get (i : Nat)

/-- The objects handed out by `Get`, in order.  `reset` is applied by the release function before `Put`;
`Get` returns the `i`-th stored object if there is one (any choice of `i`), otherwise a new object. -/
def poolRun {α : Type} (reset : Oracle → α → α) (new : α) : List (PoolEv α) → List α → List α
  | [], _ => []
  | .put o x :: es, items => poolRun reset new es (reset o x :: items)
  | .get i :: es, items =>
    match items[i]? with
    | some x => x :: poolRun reset new es (items.eraseIdx i)
    | none => new :: poolRun reset new es items

/-- the objects released in a history -/
def putsOf {α : Type} : List (PoolEv α) → List α
  | [] => []
  | .put _ x :: es => x :: putsOf es
  | .get _ :: es => putsOf es

end Hertz.Recycle
