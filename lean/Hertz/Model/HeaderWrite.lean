import Hertz.Model.Bytesconv
import Hertz.Gen.Consts
import Hertz.Gen.Emit
/-!
Model of the header serialisers of `pkg/protocol/header.go`, `trailer.go`, `cookie.go`:
`appendHeaderLine`/`newlineToSpace`, `RequestHeader.AppendBytes`, `ResponseHeader.AppendBytes`,
`Trailer.AppendBytes`, `appendRequestCookieBytes`.

For C05 the *state* of a header object is over-approximated: every byte-valued field may hold any
byte string, so no setter has to be trusted.
-/
namespace Hertz.HW
open Hertz Hertz.Gen.Str

def validName (k : Bytes) : Bool := k.all (fun c => tget Gen.validHeaderFieldNameTable c != 0)
def newlineToSpace (v : Bytes) : Bytes := v.map (fun c => tget Gen.newlineToSpaceTable c)

/-- `appendHeaderLine(nil, key, value)`: nothing at all if the name has an invalid byte -/
def headerLine (kv : Bytes × Bytes) : Bytes :=
  if validName kv.1 then kv.1 ++ strColonSpace ++ newlineToSpace kv.2 ++ strCRLF else []

/-- the fields that survive `appendHeaderLine`, with the value as written -/
def kept (fields : List (Bytes × Bytes)) : List (Bytes × Bytes) :=
  (fields.filter (fun kv => validName kv.1)).map (fun kv => (kv.1, newlineToSpace kv.2))

/-- a header block: the lines of `fields`, then the empty line -/
def block (fields : List (Bytes × Bytes)) : Bytes := fields.flatMap headerLine ++ strCRLF

/-- `appendRequestCookieBytes(nil, cookies)` -/
def requestCookieBytes : List (Bytes × Bytes) → Bytes
  | [] => []
  | [(k, v)] => (if k.isEmpty then [] else k ++ [61]) ++ v
  | (k, v) :: t => (if k.isEmpty then [] else k ++ [61]) ++ v ++ [59, 32] ++ requestCookieBytes t

/-- `Trailer.GetBytes()` -/
def trailerNames : List Bytes → Bytes
  | [] => []
  | [k] => k
  | k :: t => k ++ strCommaSpace ++ trailerNames t

structure ReqHdr where
  method : Bytes
  uri : Bytes
  userAgent : Bytes
  host : Bytes
  contentType : Bytes
  noDefaultContentType : Bool
  clBytes : Bytes
  h : List (Bytes × Bytes)
  trailer : List Bytes
  cookies : List (Bytes × Bytes)
  connClose : Bool

def ReqHdr.methodOrGet (r : ReqHdr) : Bytes := if r.method.isEmpty then strGet else r.method
def ReqHdr.ignoreBody (r : ReqHdr) : Bool := r.methodOrGet == strGet || r.methodOrGet == strHead

/-- the `(key, value)` items `RequestHeader.AppendBytes` passes to `appendHeaderLine`, in order -/
def ReqHdr.fields (r : ReqHdr) : List (Bytes × Bytes) :=
  let ct := if r.contentType.isEmpty && !r.ignoreBody && !r.noDefaultContentType then mIMEPostForm else r.contentType
  (if r.userAgent.isEmpty then [] else [(strUserAgent, r.userAgent)]) ++
  (if r.host.isEmpty then [] else [(strHost, r.host)]) ++
  (if ct.isEmpty then [] else [(strContentType, ct)]) ++
  (if r.clBytes.isEmpty then [] else [(strContentLength, r.clBytes)]) ++
  r.h ++
  (if r.trailer.isEmpty then [] else [(strTrailer, trailerNames r.trailer)]) ++
  (if r.cookies.isEmpty then [] else [(strCookie, requestCookieBytes r.cookies)]) ++
  (if r.connClose then [(strConnection, strClose)] else [])

/-- the three bytes that cannot stand in the method or the request target: SP, CR, LF -/
def lineSpecial (c : UInt8) : Bool := c == 32 || c == 13 || c == 10

/-- second loop of `appendRequestLinePart`: SP, CR, LF as `%XX` (upper-case hex), every other byte as it is -/
def reqLineTail : Bytes → Bytes
  | [] => []
  | c :: t => (if lineSpecial c then pctEnc c else [c]) ++ reqLineTail t

/-- `appendRequestLinePart(nil, part)` (/repo 910b0dd): the prefix free of SP/CR/LF is copied, the rest goes byte by byte -/
def reqLinePart (p : Bytes) : Bytes :=
  p.takeWhile (fun c => !lineSpecial c) ++ reqLineTail (p.dropWhile (fun c => !lineSpecial c))

def ReqHdr.startLine (r : ReqHdr) : Bytes :=
  reqLinePart r.methodOrGet ++ [32] ++ reqLinePart (if r.uri.isEmpty then strSlash else r.uri) ++ [32] ++ strHTTP11

/-- `RequestHeader.AppendBytes(nil)` -/
def ReqHdr.bytes (r : ReqHdr) : Bytes := r.startLine ++ strCRLF ++ block r.fields

structure RespHdr where
  statusLine : Bytes            -- `consts.StatusLine(code)` without the final CRLF
  server : Bytes
  date : Option Bytes           -- `none` = noDefaultDate
  contentType : Bytes
  contentLength : Int
  contentEncoding : Bytes
  clBytes : Bytes
  h : List (Bytes × Bytes)
  trailer : List Bytes
  cookies : List Bytes          -- full `Set-Cookie` values
  connClose : Bool

def RespHdr.fields (r : RespHdr) : List (Bytes × Bytes) :=
  (if r.server.isEmpty then [] else [(strServer, r.server)]) ++
  (match r.date with | some d => [(strDate, d)] | none => []) ++
  (if (r.contentLength != 0 || !r.contentType.isEmpty) && !r.contentType.isEmpty then [(strContentType, r.contentType)] else []) ++
  (if r.contentEncoding.isEmpty then [] else [(strContentEncoding, r.contentEncoding)]) ++
  (if r.clBytes.isEmpty then [] else [(strContentLength, r.clBytes)]) ++
  (r.h.filter (fun kv => r.date.isNone || kv.1 != strDate)) ++
  (if r.trailer.isEmpty then [] else [(strTrailer, trailerNames r.trailer)]) ++
  r.cookies.map (fun c => (strSetCookie, c)) ++
  (if r.connClose then [(strConnection, strClose)] else [])

/-- `ResponseHeader.AppendBytes(nil)` -/
def RespHdr.bytes (r : RespHdr) : Bytes := r.statusLine ++ strCRLF ++ block r.fields

/-- `Trailer.AppendBytes(nil)` -/
def trailerBytes (t : List (Bytes × Bytes)) : Bytes := block t

end Hertz.HW
