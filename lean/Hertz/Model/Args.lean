import Hertz.Model.Bytesconv
/-!
Model of `pkg/protocol/args.go`: `argsScanner.next`, `Args.ParseBytes`, `Args.AppendBytes`.
-/
namespace Hertz

structure ArgKV where
  key : Bytes
  value : Bytes
  noValue : Bool
deriving DecidableEq, Repr

/-- Split at the first occurrence of `sep`: `(before, some after)` or `(all, none)`. -/
def cut1 (sep : UInt8) : Bytes → Bytes × Option Bytes
  | [] => ([], none)
  | c :: t => if c = sep then ([], some t) else
      let r := cut1 sep t
      (c :: r.1, r.2)

/-- What one call of `argsScanner.next` stores into `kv`, given the text up to the next `&`. -/
def parseSeg (seg : Bytes) : ArgKV :=
  match cut1 61 seg with
  | (k, none) => { key := decodeArg k, value := [], noValue := true }
  | (k, some v) => { key := decodeArg k, value := decodeArg v, noValue := false }

/-- The segments `argsScanner.next` visits: pieces between `&`; the scanner stops when the
remaining input is empty, so a trailing `&` does not produce a final empty piece. -/
def argSegs : Bytes → List Bytes
  | [] => []
  | c :: t =>
    if c = 38 then [] :: argSegs t
    else match argSegs t with
      | [] => [[c]]
      | s :: r => (c :: s) :: r

def ArgKV.bothEmpty (kv : ArgKV) : Bool := kv.key.isEmpty && kv.value.isEmpty

/-- `Args.ParseBytes` on a reset `Args` -/
def parseArgs (b : Bytes) : List ArgKV :=
  ((argSegs b).map parseSeg).filter (fun kv => !kv.bothEmpty)

def appendArg (kv : ArgKV) : Bytes :=
  quoteArg kv.key ++ (if kv.noValue then [] else 61 :: quoteArg kv.value)

/-- `Args.AppendBytes(nil)` -/
def appendArgs : List ArgKV → Bytes
  | [] => []
  | [kv] => appendArg kv
  | kv :: t => appendArg kv ++ 38 :: appendArgs t

end Hertz
