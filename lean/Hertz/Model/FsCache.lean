import Hertz.Model.Fs
import Hertz.Gen.Fs
/-!
# The file handler's cache and reader reference counts (`pkg/app/fs.go`, open path) as a state machine

State of one `fsHandler`: every `*fsFile` it ever created (`Obj`: reference count, pooled big-file
readers, is its OS file still open, is it in `h.cache`, is it in the cleaner's `pendingFiles`, is it
older than `CacheDuration`), the readers that were handed to a response and not yet closed (`Reader`),
and the directory tree below the root (`Disk`).

Operations (`Op`): one request through `fsHandler.handleRequest` (sequentially: `cacheLock` makes the
count updates atomic, the rest of a request runs without another request in between), closing the
body stream of an earlier response (`fsSmallFileReader.Close` / `bigFileReader.Close`), a change of the
tree, the passing of `CacheDuration`, one round of `fsHandler.cleanCache`.

The functions mirror the Go code statement by statement wherever it touches `readersCount`
(`incRc` = `ff.readersCount++` under the lock, `decReadersCount` with its `panic("BUG: negative
fsFile.readersCount!")` as the fault `Fault.negativeCount`).  The list of those sites per Go function
is regenerated from the source (`Gen/Fs.lean`, `rc*` definitions) and pinned in `Props/C08.lean`.

Not modelled: the compressed variant (`compressedCache`), generated index pages (`ff.f == nil`),
two requests inside `handleRequest` at once (the `ff1` branch that releases a file opened twice).
-/
namespace Hertz.FsCache
open Hertz

/-- a file OBJECT on disk: its identity `ino` (what `os.SameFile` compares; every write-to-temp + rename makes a new one,
and a file object is never rewritten in place) and its bytes, which are named, not stored: pattern `cid`, length `len`
(the driver expands them) -/
structure Content where
  ino : Nat
  cid : Nat
  len : Nat
deriving DecidableEq, Repr

/-- what is at `root/<key>` -/
inductive Node where
  | absent
  | file (c : Content) (mt : Nat)
  /-- a directory, with or without an `index.html` (`FS.IndexNames = ["index.html"]`, no generated pages) -/
  | dir (idx : Option (Content × Nat))
deriving DecidableEq, Repr

abbrev Disk := Nat → Node

def Disk.set (d : Disk) (k : Nat) (n : Node) : Disk := fun j => if j = k then n else d j

/-- what an open descriptor reads -/
inductive Src where
  | content (c : Content)
deriving DecidableEq, Repr

/-- a `*bigFileReader` sitting in `ff.bigFiles` (it owns a descriptor) -/
structure Pooled where
  rid : Nat
  src : Src
deriving DecidableEq, Repr

/-- a `*fsFile` -/
structure Obj where
  id : Nat
  key : Nat
  /-- opened through `openIndexFile`: the path of `ff.f` is `<key>/index.html` -/
  viaIndex : Bool
  c : Content
  mt : Nat
  /-- `ff.readersCount` -/
  rc : Int
  /-- `ff.bigFiles`, last element first -/
  pool : List Pooled
  /-- `ff.f` not yet closed by `Release` -/
  fileOpen : Bool
  /-- still the value of `h.cache[key]` -/
  cached : Bool
  /-- in the cleaner's `pendingFiles` -/
  pending : Bool
  /-- `time.Now().Sub(ff.t) > cacheDuration` -/
  expired : Bool
deriving Repr

/-- a reader handed out by `ff.NewReader()` -/
structure Reader where
  rid : Nat
  /-- `r.ff` -/
  fid : Nat
  big : Bool
  src : Src
  /-- first byte delivered -/
  lo : Nat
  /-- number of bytes announced (`Content-Length`; the server copies at most that many) -/
  cl : Nat
deriving DecidableEq, Repr

structure State where
  objs : List Obj := []
  live : List Reader := []
  /-- allocation counter: identities of `fsFile` and reader objects -/
  next : Nat := 0
  disk : Disk := fun _ => .absent

inductive Fault where
  /-- `panic("BUG: negative fsFile.readersCount!")` -/
  | negativeCount
  /-- any other panic (nil `fsFile`, slice bounds in `ParseByteRange`, …) -/
  | bug (site : String)
deriving DecidableEq, Repr

/-- what the client sees of one request -/
structure Ans where
  status : Nat
  cl : Nat := 0
  /-- `Content-Range: bytes first-last/len` -/
  cr : Option (Nat × Nat × Nat) := none
  /-- the body stream the response holds (closed by the server after the body is written) -/
  rid : Option Nat := none
deriving DecidableEq, Repr

/-! ## primitives -/

def modObj (id : Nat) (f : Obj → Obj) (s : State) : State :=
  { s with objs := s.objs.map fun o => if o.id = id then f o else o }

def findObj (s : State) (id : Nat) : Option Obj := s.objs.find? fun o => decide (o.id = id)

/-- `fileCache[string(path)]` -/
def lookup (s : State) (key : Nat) : Option Obj := s.objs.find? fun o => o.cached && decide (o.key = key)

/-- `ff.readersCount++` (under `cacheLock`) -/
def incRc (id : Nat) (s : State) : State := modObj id (fun o => { o with rc := o.rc + 1 }) s

/-- `fsFile.decReadersCount` -/
def decReadersCount (id : Nat) (s : State) : Except Fault State :=
  match findObj s id with
  | none => .error (.bug "nil fsFile")
  | some o =>
    if o.rc - 1 < 0 then .error .negativeCount
    else .ok (modObj id (fun o => { o with rc := o.rc - 1 }) s)

def Obj.isBig (o : Obj) : Bool := decide (o.c.len > Gen.Fs.maxSmallFileSize)

inductive OpenRes where
  | ok (viaIndex : Bool) (c : Content) (mt : Nat)
  | notFound
  | forbidden

/-- `openFSFile(root+path)`, then `openIndexFile` on `errDirIndexRequired` -/
def openPath (d : Disk) (key : Nat) : OpenRes :=
  match d key with
  | .absent => .notFound
  | .file c mt => .ok false c mt
  | .dir (some (c, mt)) => .ok true c mt
  | .dir none => .forbidden

/-- `os.Open(ff.f.Name())` in `fsFile.bigFileReader` — by NAME, whatever is there now — followed by the check
`os.SameFile(ff.f.Stat(), f.Stat())`: when the name denotes another file object (or a directory) by now, the fresh
descriptor is closed and the error is returned (commit 435a1ed; before it the other file's bytes were streamed under the
cached file's headers). -/
def reopen (d : Disk) (o : Obj) : Option Src :=
  if o.viaIndex then
    match d o.key with
    | .dir (some (c, _)) => if c = o.c then some (.content c) else none
    | _ => none
  else
    match d o.key with
    | .file c _ => if c = o.c then some (.content c) else none
    | .dir _ => none
    | .absent => none

/-- `Close()` of a reader that is not (or no longer) in `live`:
`bigFileReader.Close` (seek to 0, back into `ff.bigFiles`, `decReadersCount`) or
`fsSmallFileReader.Close` (`decReadersCount`, reader object back into the `sync.Pool`) -/
def closeReader (r : Reader) (s : State) : Except Fault State :=
  if r.big then
    decReadersCount r.fid (modObj r.fid (fun o => { o with pool := { rid := r.rid, src := r.src } :: o.pool }) s)
  else
    decReadersCount r.fid s

/-- the tail of `handleRequest`: `ctx.SetBodyStream(r, contentLength)`, or for HEAD `r.Close()` -/
def finish (head : Bool) (s : State) (status : Nat) (r : Reader) (cr : Option (Nat × Nat × Nat)) : Except Fault (State × Ans) :=
  if head then
    (closeReader r s).map fun s' => (s', { status := status, cl := r.cl, cr := cr })
  else
    .ok ({ s with live := r :: s.live }, { status := status, cl := r.cl, cr := cr, rid := some r.rid })

/-- the range part of `handleRequest`, once `NewReader` has succeeded -/
def withReader (accept head : Bool) (range : Bytes) (o : Obj) (r : Reader) (s : State) : Except Fault (State × Ans) :=
  if accept && !range.isEmpty then
    match FS.parseByteRange range o.c.len with
    | .error .bad => (closeReader r s).map fun s' => (s', { status := 416 })
    | .error (.panic site) => .error (.bug site)
    | .error (.io site) => .error (.bug site)
    | .ok (a, b) =>
      finish head s 206 { r with lo := a.toNat, cl := (b - a + 1).toNat } (some (a.toNat, b.toNat, o.c.len))
  else finish head s 200 r none

/-- `ctx.IfModifiedSince(ff.lastModified)` is false -/
def notModified (ims : Option Nat) (o : Obj) : Bool :=
  match ims with
  | none => false
  | some t => !decide (t < o.mt)

/-- `handleRequest` from `if !ctx.IfModifiedSince(...)` on; `ff.readersCount` has been incremented for this request -/
def serve (accept head : Bool) (ims : Option Nat) (range : Bytes) (id : Nat) (s : State) : Except Fault (State × Ans) :=
  match findObj s id with
  | none => .error (.bug "nil fsFile")
  | some o =>
    if notModified ims o then
      (decReadersCount id s).map fun s' => (s', { status := 304 })
    else if o.isBig then
      -- ff.NewReader → ff.bigFileReader
      match o.pool with
      | p :: rest =>
        withReader accept head range o { rid := p.rid, fid := id, big := true, src := p.src, lo := 0, cl := o.c.len }
          (modObj id (fun o => { o with pool := rest }) s)
      | [] =>
        match reopen s.disk o with
        | none =>
          -- bigFileReader returns the error; NewReader: `ff.decReadersCount()`; 500
          (decReadersCount id s).map fun s' => (s', { status := 500 })
        | some src =>
          withReader accept head range o { rid := s.next, fid := id, big := true, src := src, lo := 0, cl := o.c.len }
            { s with next := s.next + 1 }
    else
      -- ff.smallFileReader: reads through ff.f
      withReader accept head range o { rid := s.next, fid := id, big := false, src := .content o.c, lo := 0, cl := o.c.len }
        { s with next := s.next + 1 }

/-- `fsHandler.handleRequest` -/
def handleRequest (accept : Bool) (key : Nat) (head : Bool) (ims : Option Nat) (range : Bytes) (s : State) :
    Except Fault (State × Ans) :=
  match lookup s key with
  | some o => serve accept head ims range o.id (incRc o.id s)
  | none =>
    match openPath s.disk key with
    | .notFound => .ok (s, { status := 404 })
    | .forbidden => .ok (s, { status := 403 })
    | .ok vi c mt =>
      let o : Obj := { id := s.next, key := key, viaIndex := vi, c := c, mt := mt, rc := 0, pool := [],
                       fileOpen := true, cached := true, pending := false, expired := false }
      serve accept head ims range o.id (incRc o.id { s with objs := o :: s.objs, next := s.next + 1 })

/-- remove the first reader with this identity -/
def takeReader (rid : Nat) : List Reader → Option (Reader × List Reader)
  | [] => none
  | r :: rest =>
    if r.rid = rid then some (r, rest)
    else (takeReader rid rest).map fun (x, l) => (x, r :: l)

/-- the server closes the body stream of an earlier response -/
def closeOp (rid : Nat) (s : State) : Except Fault (State × Ans) :=
  match takeReader rid s.live with
  | none => .ok (s, { status := 0 })
  | some (r, rest) => (closeReader r { s with live := rest }).map fun s' => (s', { status := 1 })

/-- `fsFile.Release` -/
def Obj.release (o : Obj) : Obj := { o with fileOpen := false, pool := [] }

/-- `fsHandler.cleanCache` (both loops; every `fsFile` is in at most one of `pendingFiles`, `h.cache`) -/
def tickObj (o : Obj) : Obj :=
  if o.pending then
    if o.rc > 0 then o else { o with pending := false }.release
  else if o.cached && o.expired then
    if o.rc > 0 then { o with cached := false, pending := true }
    else { o with cached := false }.release
  else o

def tick (s : State) : State := { s with objs := s.objs.map tickObj }

/-- `CacheDuration` passes -/
def expireAll (s : State) : State := { s with objs := s.objs.map fun o => { o with expired := true } }

inductive Op where
  | req (key : Nat) (head : Bool) (ims : Option Nat) (range : Bytes)
  | close (rid : Nat)
  | setNode (key : Nat) (n : Node)
  | expire
  | tick
deriving Repr

def step (accept : Bool) (s : State) : Op → Except Fault (State × Ans)
  | .req key head ims range => handleRequest accept key head ims range s
  | .close rid => closeOp rid s
  | .setNode key n => .ok ({ s with disk := s.disk.set key n }, { status := 0 })
  | .expire => .ok (expireAll s, { status := 0 })
  | .tick => .ok (tick s, { status := 0 })

def run (accept : Bool) : State → List Op → Except Fault State
  | s, [] => .ok s
  | s, op :: ops =>
    match step accept s op with
    | .error f => .error f
    | .ok (s', _) => run accept s' ops

/-! ## observables -/

/-- live readers of one `fsFile` -/
def countFid (fid : Nat) : List Reader → Nat
  | [] => 0
  | r :: rest => (if r.fid = fid then 1 else 0) + countFid fid rest

/-- descriptors the handler holds: `ff.f` of every unreleased file, pooled and live big-file readers -/
def fds (s : State) : Nat :=
  (s.objs.map fun o => (if o.fileOpen then 1 else 0) + o.pool.length).sum + (s.live.filter (·.big)).length

def findReader (s : State) (rid : Nat) : Option Reader := s.live.find? fun r => decide (r.rid = rid)

end Hertz.FsCache
