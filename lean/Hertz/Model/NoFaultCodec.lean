import Hertz.Model.NoFault
/-!
Checked re-statements (see `Model/NoFault.lean`) of
* `pkg/protocol/args.go`: `decodeArgAppend`, `decodeArgAppendNoPlus`, `argsScanner.next`, `Args.ParseBytes`
* `pkg/protocol/cookie.go`: `decodeCookieArg`, `cookieScanner.next`, `Cookie.ParseBytes` (without `expires`, whose value goes
  to Go's `time` package), `parseRequestCookies`
* `pkg/protocol/uri.go` / `uri_unix.go`: `getScheme`, `checkSchemeWhenCharIsColon`, `splitHostURI`, `URI.parse`
  (the user-info cut; `URI.parse` itself is in `Model/NoFaultPath.lean`, after `normalizePath`).
-/
namespace Hertz.NF
open Hertz Hertz.Gen.Str

/-! ### percent decoding -/

/-- slow path of `decodeArgAppend` (`plus`) / `decodeArgAppendNoPlus`: `for i := 0; i < len(src); i++` with
`src[i]`, `src[i+1]`, `src[i+2]`, `src[i:]`, `Hex2intTable[…]` -/
def decLoop (plus : Bool) (src : Bytes) : Nat → Int → Bytes → Option Bytes
  | 0, _, _ => none
  | f + 1, i, dst =>
    if i < len src then
      (ix src i).bind fun c =>
      if c = 37 then
        if i + 2 ≥ len src then (slFrom src i).bind fun r => some (dst ++ r)
        else
          (ix src (i + 2)).bind fun b2 => (tbl Gen.hex2intTable b2).bind fun x2 =>
          (ix src (i + 1)).bind fun b1 => (tbl Gen.hex2intTable b1).bind fun x1 =>
          if x1 = 16 ∨ x2 = 16 then decLoop plus src f (i + 1) (dst ++ [37])
          else decLoop plus src f (i + 3) (dst ++ [x1 <<< 4 ||| x2])
      else if plus && c == 43 then decLoop plus src f (i + 1) (dst ++ [32])
      else decLoop plus src f (i + 1) (dst ++ [c])
    else some dst

/-- `decodeArgAppend(nil, src)` (`plus = true`) / `decodeArgAppendNoPlus(nil, src)` -/
def decodeArg (plus : Bool) (src : Bytes) : Option Bytes :=
  if indexByte 37 src < 0 && (!plus || indexByte 43 src < 0) then some src
  else decLoop plus src (src.length + 1) 0 []

/-! ### `argsScanner.next`, `Args.ParseBytes` -/

/-- `for i, c := range s.b { … }` of `argsScanner.next` from index `i` (`t = s.b[i:]` drives the range loop) and the
code after the loop: the stored pair and the new `s.b`. -/
def argNextLoop (b : Bytes) : Bytes → Int → Bool → Int → Bytes → Option (ArgKV × Bytes)
  | [], _, isKey, k, key =>
    if isKey then
      (decodeArg true b).bind fun kk => (slFrom b (len b)).bind fun rest =>
      some ({ key := kk, value := [], noValue := true }, rest)
    else
      (slFrom b k).bind fun v => (decodeArg true v).bind fun vv => (slFrom b (len b)).bind fun rest =>
      some ({ key := key, value := vv, noValue := false }, rest)
  | c :: t, i, isKey, k, key =>
    if c = 61 then
      if isKey then
        (slTo b i).bind fun p => (decodeArg true p).bind fun kk => argNextLoop b t (i + 1) false (i + 1) kk
      else argNextLoop b t (i + 1) isKey k key
    else if c = 38 then
      if isKey then
        (slTo b i).bind fun p => (decodeArg true p).bind fun kk => (slFrom b (i + 1)).bind fun rest =>
        some ({ key := kk, value := [], noValue := true }, rest)
      else
        (sl b k i).bind fun v => (decodeArg true v).bind fun vv => (slFrom b (i + 1)).bind fun rest =>
        some ({ key := key, value := vv, noValue := false }, rest)
    else argNextLoop b t (i + 1) isKey k key

/-- the `for s.next(kv)` loop of `Args.ParseBytes` -/
def parseArgsLoop : Nat → Bytes → List ArgKV → Option (List ArgKV)
  | 0, _, _ => none
  | f + 1, b, acc =>
    if len b = 0 then some acc else
    (argNextLoop b b 0 true 0 []).bind fun r =>
    parseArgsLoop f r.2 (if len r.1.key > 0 ∨ len r.1.value > 0 then acc ++ [r.1] else acc)

/-- `Args.ParseBytes` on a reset `Args` -/
def parseArgs (b : Bytes) : Option (List ArgKV) := parseArgsLoop (b.length + 1) b []

/-! ### cookies -/

/-- `for len(src) > 0 && src[0] == ' ' { src = src[1:] }` -/
def trimL : Nat → Bytes → Option Bytes
  | 0, _ => none
  | f + 1, s =>
    if len s > 0 then (ix s 0).bind fun c => if c = 32 then (slFrom s 1).bind (trimL f) else some s
    else some s

/-- `for len(src) > 0 && src[len(src)-1] == ' ' { src = src[:len(src)-1] }` -/
def trimR : Nat → Bytes → Option Bytes
  | 0, _ => none
  | f + 1, s =>
    if len s > 0 then (ix s (len s - 1)).bind fun c => if c = 32 then (slTo s (len s - 1)).bind (trimR f) else some s
    else some s

/-- `decodeCookieArg(nil, src, skipQuotes)` -/
def decodeCookieArg (src : Bytes) (skipQuotes : Bool) : Option Bytes :=
  (trimL (src.length + 1) src).bind fun s =>
  (trimR (s.length + 1) s).bind fun s =>
  if skipQuotes then
    if len s > 1 then
      (ix s 0).bind fun c0 =>
      if c0 = 34 then (ix s (len s - 1)).bind fun cl => if cl = 34 then sl s 1 (len s - 1) else some s
      else some s
    else some s
  else some s

/-- `cookieScanner.next` for a non-empty `b`: the `for i, c := range b` loop from index `i` and the code after it;
result: `(key, value)` stored in `kv` and the new `s.b` -/
def cookieNextLoop (b : Bytes) : Bytes → Int → Bool → Int → Bytes → Option ((Bytes × Bytes) × Bytes)
  | [], _, isKey, k, key =>
    (slFrom b k).bind fun v => (decodeCookieArg v true).bind fun vv => (slFrom b (len b)).bind fun rest =>
    some ((if isKey then [] else key, vv), rest)
  | c :: t, i, isKey, k, key =>
    if c = 61 then
      if isKey then
        (slTo b i).bind fun p => (decodeCookieArg p false).bind fun kk => cookieNextLoop b t (i + 1) false (i + 1) kk
      else cookieNextLoop b t (i + 1) isKey k key
    else if c = 59 then
      (sl b k i).bind fun v => (decodeCookieArg v true).bind fun vv => (slFrom b (i + 1)).bind fun rest =>
      some ((if isKey then [] else key, vv), rest)
    else cookieNextLoop b t (i + 1) isKey k key

open Uri in
/-- attribute step of `Cookie.ParseBytes` with `kv.key[0]` / `kv.value[0]` checked; inner `none` = Go error (bad
max-age).  The guards are those of `Uri.applyAttr` (switch on the first byte, then the case-insensitive compare). -/
def applyAttr (c : Cookie) (k v : Bytes) : Option (Option Cookie) :=
  if len k ≠ 0 then
    (ix k 0).bind fun k0 =>
    let d := k0 ||| 0x20
    if d = 109 ∧ ciEq' strCookieMaxAge k then some ((parseUintDec v).map (fun n => { c with maxAge := n }))
    else if d = 100 ∧ ciEq' strCookieDomain k then some (some { c with domain := v })
    else if d = 112 ∧ ciEq' strCookiePath k then some (some { c with path := v })
    else if d = 115 ∧ ciEq' strCookieSameSite k ∧ len v > 0 then
      (ix v 0).bind fun v0 =>
      let e := v0 ||| 0x20
      if e = 108 ∧ ciEq' strCookieSameSiteLax v then some (some { c with sameSite := .lax })
      else if e = 115 ∧ ciEq' strCookieSameSiteStrict v then some (some { c with sameSite := .strict })
      else if e = 110 ∧ ciEq' strCookieSameSiteNone v then some (some { c with sameSite := .none })
      else some (some c)
    else some (some c)
  else if len v ≠ 0 then
    (ix v 0).bind fun v0 =>
    let d := v0 ||| 0x20
    if d = 104 ∧ ciEq' strCookieHTTPOnly v then some (some { c with httpOnly := true })
    else if d = 115 ∧ ciEq' strCookieSecure v then some (some { c with secure := true })
    else if d = 115 ∧ ciEq' strCookieSameSite v then some (some { c with sameSite := .default })
    else if d = 112 ∧ ciEq' strCookiePartitioned v then some (some { c with partitioned := true })
    else some (some c)
  else some (some c)

/-- the `for s.next(kv)` loop of `Cookie.ParseBytes` -/
def parseCookieLoop : Nat → Bytes → Uri.Cookie → Option (Option Uri.Cookie)
  | 0, _, _ => none
  | f + 1, b, c =>
    if len b = 0 then some (some c) else
    (cookieNextLoop b b 0 true 0 []).bind fun r =>
    (applyAttr c r.1.1 r.1.2).bind fun a =>
    match a with
    | none => some none
    | some c' => parseCookieLoop f r.2 c'

/-- `Cookie.ParseBytes` (inputs without `expires`): outer `none` = panic, inner `none` = Go error -/
def parseCookie (src : Bytes) : Option (Option Uri.Cookie) :=
  if len src = 0 then some none else
  (cookieNextLoop src src 0 true 0 []).bind fun r =>
  parseCookieLoop (r.2.length + 1) r.2 { key := r.1.1, value := r.1.2 }

/-- `parseRequestCookies(nil, src)` -/
def reqCookiesLoop : Nat → Bytes → List (Bytes × Bytes) → Option (List (Bytes × Bytes))
  | 0, _, _ => none
  | f + 1, b, acc =>
    if len b = 0 then some acc else
    (cookieNextLoop b b 0 true 0 []).bind fun r =>
    reqCookiesLoop f r.2 (if len r.1.1 > 0 ∨ len r.1.2 > 0 then acc ++ [r.1] else acc)

def parseReqCookies (src : Bytes) : Option (List (Bytes × Bytes)) := reqCookiesLoop (src.length + 1) src []

/-! ### URI -/

/-- `getScheme` with `checkSchemeWhenCharIsColon` (unix): `rawURL[:i]`, `rawURL[i+1:]` at the colon; inner `none` =
no scheme -/
def getSchemeLoop (raw : Bytes) : Bytes → Int → Option (Option (Bytes × Bytes))
  | [], _ => some none
  | c :: t, i =>
    if Uri.isAlpha c then getSchemeLoop raw t (i + 1)
    else if (48 ≤ c && c ≤ 57) || c == 43 || c == 45 || c == 46 then
      (if i = 0 then some none else getSchemeLoop raw t (i + 1))
    else if c = 58 then
      (if i = 0 then some none else
       (slTo raw i).bind fun s => (slFrom raw (i + 1)).bind fun p => some (some (s, p)))
    else some none

/-- `splitHostURI(host, uri)` -/
def splitHostURI (host uri : Bytes) : Option (Bytes × Bytes × Bytes) :=
  (getSchemeLoop uri uri 0).bind fun g =>
  match g with
  | none => some (strHTTP, host, uri)
  | some (scheme, path) =>
    if !strSlashSlash.isPrefixOf path then some (strHTTP, host, uri)
    else
      (slFrom path (len strSlashSlash)).bind fun u =>
      let n := indexByte 47 u
      if n < 0 then
        let n := indexByte 63 u
        if n ≥ 0 then (slTo u n).bind fun h => (slFrom u n).bind fun r => some (scheme, h, r)
        else some (scheme, u, strSlash)
      else (slTo u n).bind fun h => (slFrom u n).bind fun r => some (scheme, h, r)

/-- the user-info cut of `URI.parse`: `host[:n]`, `host[n+1:]`, `auth[:n]`, `auth[n+1:]` → `(username, password, host)` -/
def userInfo (host : Bytes) : Option (Bytes × Bytes × Bytes) :=
  let n := indexByte 64 host
  if n ≥ 0 then
    (slTo host n).bind fun auth => (slFrom host (n + 1)).bind fun host =>
    let m := indexByte 58 auth
    if m ≥ 0 then (slTo auth m).bind fun u => (slFrom auth (m + 1)).bind fun p => some (u, p, host)
    else some (auth, [], host)
  else some ([], [], host)

end Hertz.NF
