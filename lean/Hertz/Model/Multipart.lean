import Hertz.Model.Bytesconv
/-!
C11 (X11 part 3) — hertz's own part of the multipart/form-data writer, first stage of `req.handleMultipart`
(`pkg/protocol/multipart.go`, `pkg/protocol/request.go`):

* `protocol.CreateMultipartHeader(param, fileName, contentType)`: `Content-Disposition: form-data; name="<param>"`, with
  `; filename="<fileName>"` iff `strings.TrimSpace(fileName)` is not empty — the two values are put between the quotes
  ESCAPED like `mime/multipart`'s own `CreateFormFile` does (`\` → `\\`, `"` → `\"`, CR → `%0D`, LF → `%0A`; `/repo`
  865e699 — before it they were written verbatim and a name could end the quoted string or the header line) — and `Content-Type: <contentType>` iff it is not empty;
* `AddMultipartFormField` / `WriteMultipartFormFile` (content type sniffed by `http.DetectContentType`, an input here):
  `multipart.Writer.CreatePart(header)` + the content;
* what `mime/multipart.Writer` adds: the delimiter line `--boundary CRLF` (from the second part on preceded by CRLF), the
  header lines sorted by name, an empty line, and at `Close` `CRLF --boundary-- CRLF`; `FormDataContentType`.

(Second stage: `handleMultipart` parses these bytes back with `multipart.Reader.ReadForm` and `MarshalMultipartForm`
writes the parsed form again, fields first in map order — what the parser made of the first stage decides what is sent.)
-/
namespace Hertz.Multipart
open Hertz

structure Part where
  name : Bytes
  fileName : Bytes := []
  ctype : Bytes := []
  content : Bytes := []
deriving Repr, DecidableEq

def crlf : Bytes := [13, 10]
def dashes : Bytes := [45, 45]

/-- `strings.TrimSpace(s) == ""` for ASCII white space (`\t \n \v \f \r` and SP; multi-byte Unicode spaces are not modelled) -/
def blank (s : Bytes) : Bool := s.all (fun c => c == 32 || (9 ≤ c && c ≤ 13))

/-- `form-data; name="` -/
def sDisp : Bytes := [102, 111, 114, 109, 45, 100, 97, 116, 97, 59, 32, 110, 97, 109, 101, 61, 34]
/-- `"; filename="` -/
def sFile : Bytes := [34, 59, 32, 102, 105, 108, 101, 110, 97, 109, 101, 61, 34]
/-- `Content-Disposition: ` -/
def sCD : Bytes := [67, 111, 110, 116, 101, 110, 116, 45, 68, 105, 115, 112, 111, 115, 105, 116, 105, 111, 110, 58, 32]
/-- `Content-Type: ` -/
def sCT : Bytes := [67, 111, 110, 116, 101, 110, 116, 45, 84, 121, 112, 101, 58, 32]
/-- `multipart/form-data; boundary=` -/
def sFDCT : Bytes := [109, 117, 108, 116, 105, 112, 97, 114, 116, 47, 102, 111, 114, 109, 45, 100, 97, 116, 97, 59, 32, 98, 111, 117, 110, 100, 97, 114, 121, 61]

/-- `escapeQuotes` (`quoteEscaper.Replace`): `\` → `\\`, `"` → `\"`, CR → `%0D`, LF → `%0A` -/
def escapeQ : Bytes → Bytes
  | [] => []
  | c :: t =>
    (if c = 92 then [92, 92] else if c = 34 then [92, 34] else if c = 13 then [37, 48, 68]
     else if c = 10 then [37, 48, 65] else [c]) ++ escapeQ t

/-- `strings.NewReplacer("\r", " ", "\n", " ")` on the content type -/
def cleanCT (v : Bytes) : Bytes := v.map (fun c => if c = 13 ∨ c = 10 then 32 else c)

/-- the `Content-Disposition` value of `CreateMultipartHeader` -/
def disposition (p : Part) : Bytes :=
  sDisp ++ escapeQ p.name ++ (if blank p.fileName then [34] else sFile ++ escapeQ p.fileName ++ [34])

/-- the header block `CreatePart` writes for the header of `CreateMultipartHeader` (keys sorted) -/
def partHead (p : Part) : Bytes :=
  sCD ++ disposition p ++ crlf ++ (if p.ctype.isEmpty then [] else sCT ++ cleanCT p.ctype ++ crlf) ++ crlf

def partsWire (b : Bytes) : Bool → List Part → Bytes
  | _, [] => []
  | first, p :: t => (if first then [] else crlf) ++ dashes ++ b ++ crlf ++ partHead p ++ p.content ++ partsWire b false t

/-- the whole body: parts, then `Writer.Close` -/
def wire (b : Bytes) (ps : List Part) : Bytes :=
  partsWire b true ps ++ crlf ++ dashes ++ b ++ dashes ++ crlf

/-- `Writer.FormDataContentType()` for a boundary without tspecials (the random boundary is 60 hex digits) -/
def formDataContentType (b : Bytes) : Bytes := sFDCT ++ b

end Hertz.Multipart
