import Hertz.Basic
/-!
Model of the byte-range machinery of the static file handler (property C08).

Mirrors, function by function:
* `internal/bytesconv/bytesconv.go`: `ParseUintBuf`, `ParseUint`, `AppendUint`
* `pkg/app/fs.go`: `ParseByteRange`, `fsSmallFileReader.UpdateByteRange/Read`,
  `bigFileReader.UpdateByteRange`, the range part of `fsHandler.handleRequest`
* `pkg/protocol/header.go`: `ResponseHeader.SetContentRange`
* `pkg/protocol/http1/ext/common.go`: `WriteBodyFixedSize` (body = first `Content-Length` bytes of the
  reader, short delivery is an error)

Go `int` is `Int`; the only place where 64-bit wrap-around could matter (`10*v + k` in `ParseUintBuf`)
is modelled with `wrap64`.  Every Go slice/index expression goes through a checked operation that fails
with `Fault.panic site` exactly where Go would panic; deliberate panics (`AppendUint` of a negative
number) are modelled the same way.  Open/stat/cache/compression are not modelled here (the
correspondence check exercises them).
-/
namespace Hertz.FS

/-- Ways a Go call can fail other than by returning its normal result. -/
inductive Fault where
  /-- Go `err != nil` from `ParseByteRange` / `ParseUint` (the handler answers 416). -/
  | bad
  /-- run-time panic (index/slice out of range, or an explicit `panic`) -/
  | panic (site : String)
  /-- an I/O level error: `Seek`/`ReadAt` with a negative offset, body stream shorter than announced -/
  | io (site : String)
deriving DecidableEq, Repr

instance instDecEqExcept {ε α : Type} [DecidableEq ε] [DecidableEq α] : DecidableEq (Except ε α)
  | .ok a, .ok b => if h : a = b then isTrue (by rw [h]) else isFalse (fun h' => h (Except.ok.inj h'))
  | .error a, .error b => if h : a = b then isTrue (by rw [h]) else isFalse (fun h' => h (Except.error.inj h'))
  | .ok _, .error _ => isFalse (fun h => by cases h)
  | .error _, .ok _ => isFalse (fun h => by cases h)

def two63 : Int := 9223372036854775808
def two64 : Int := 18446744073709551616

/-- Two's-complement wrap of a mathematical integer into Go's 64-bit `int`. -/
def wrap64 (x : Int) : Int := (x + 9223372036854775808) % 18446744073709551616 - 9223372036854775808

/-- `b[i:]` -/
def sliceFrom (site : String) (b : Bytes) (i : Nat) : Except Fault Bytes :=
  if i ≤ b.length then .ok (b.drop i) else .error (.panic site)

/-- `b[:i]` -/
def sliceTo (site : String) (b : Bytes) (i : Nat) : Except Fault Bytes :=
  if i ≤ b.length then .ok (b.take i) else .error (.panic site)

/-- `b[i]` -/
def idx (site : String) (b : Bytes) (i : Nat) : Except Fault UInt8 :=
  match b[i]? with
  | some c => .ok c
  | none => .error (.panic site)

/-! ### `bytesconv.ParseUintBuf` / `ParseUint` -/

inductive UErr where
  | empty | firstChar | tooLong | trailing
deriving DecidableEq, Repr

/-- `maxInt = int(^uint(0) >> 1)` on a 64-bit platform -/
def maxInt : Int := 9223372036854775807

/-- The `for i := 0; i < n; i++` loop of `ParseUintBuf` from position `i` with accumulator `v`:
returns `(v, n, err)` as the Go function does.  `k := c - '0'` is a `uint8` subtraction (wraps);
the overflow test `v > (maxInt-int(k))/10` comes before `v = 10*v + int(k)` (which is still modelled
with its 64-bit wrap; `loop_exact` shows the wrap is never taken). -/
def parseUintLoop : Bytes → Int → Nat → Int × Nat × Option UErr
  | [], v, i => (v, i, none)
  | c :: t, v, i =>
    let k : UInt8 := c - 48
    if k > 9 then
      if i = 0 then (-1, i, some .firstChar) else (v, i, none)
    else if v > (maxInt - (k.toNat : Int)) / 10 then (-1, i, some .tooLong)
    else parseUintLoop t (wrap64 (10 * v + (k.toNat : Int))) (i + 1)

/-- `bytesconv.ParseUintBuf` -/
def parseUintBuf (b : Bytes) : Int × Nat × Option UErr :=
  if b.length = 0 then (-1, 0, some .empty) else parseUintLoop b 0 0

/-- `bytesconv.ParseUint` -/
def parseUint (b : Bytes) : Except UErr Int :=
  match parseUintBuf b with
  | (v, n, err) =>
    if n ≠ b.length then .error .trailing
    else match err with
      | some e => .error e
      | none => .ok v

/-! ### `bytesconv.AppendUint` -/

/-- The digit loop of `AppendUint`, most significant digit first.  `fuel` is the room left in the
`[20]byte` scratch buffer; running out of it is the index `buf[-1]`. -/
def decDigits : Nat → Nat → Option Bytes
  | 0, _ => none
  | f + 1, n =>
    if n < 10 then some [(48 + n).toUInt8]
    else (decDigits f (n / 10)).map (· ++ [(48 + n % 10).toUInt8])

/-- `bytesconv.AppendUint(nil, n)`: panics on a negative number. -/
def appendUint (n : Int) : Except Fault Bytes :=
  if n < 0 then .error (.panic "bytesconv.AppendUint: int must be positive")
  else match decDigits 20 n.toNat with
    | some d => .ok d
    | none => .error (.panic "bytesconv.AppendUint: buf index")

/-! ### `app.ParseByteRange` -/

/-- `bytestr.StrBytes` (pinned to the generated constant by `model_matches_gen`) -/
def strBytes : Bytes := [98, 121, 116, 101, 115]

/-- `bytes.IndexByte` -/
def indexByte (c : UInt8) : Bytes → Option Nat
  | [] => none
  | x :: t => if x = c then some 0 else (indexByte c t).map (· + 1)

/-- the suffix form `bytes=-N` once `v ≠ 0` and `contentLength ≠ 0` are known -/
def suffixRange (contentLength v : Int) : Int × Int :=
  let startPos := contentLength - v
  let startPos := if startPos < 0 then 0 else startPos
  (startPos, contentLength - 1)

/-- fs.go:1126-1147 once `b[:n]` and `b[n+1:]` are cut out -/
def fromToRange (contentLength : Int) (first last : Bytes) : Except Fault (Int × Int) :=
  match parseUint first with
  | .error _ => .error .bad
  | .ok startPos =>
    if startPos ≥ contentLength then .error .bad
    else if last.length = 0 then .ok (startPos, contentLength - 1)
    else match parseUint last with
      | .error _ => .error .bad
      | .ok endPos =>
        let endPos := if endPos ≥ contentLength then contentLength - 1 else endPos
        if endPos < startPos then .error .bad
        else .ok (startPos, endPos)

/-- `app.ParseByteRange(byteRange, contentLength)` -/
def parseByteRange (byteRange : Bytes) (contentLength : Int) : Except Fault (Int × Int) :=
  if !(strBytes.isPrefixOf byteRange) then .error .bad else
  (sliceFrom "fs.go:1103" byteRange strBytes.length).bind fun b =>
  if b.length = 0 then .error .bad else
  (idx "fs.go:1104" b 0).bind fun c0 =>
  if c0 ≠ 61 then .error .bad else
  (sliceFrom "fs.go:1107" b 1).bind fun b =>
  match indexByte 45 b with
  | none => .error .bad
  | some n =>
    if n = 0 then
      (sliceFrom "fs.go:1115" b (n + 1)).bind fun t =>
      match parseUint t with
      | .error _ => .error .bad
      | .ok v =>
        -- a suffix of zero bytes, or any suffix of an empty file, selects nothing
        if v == 0 || contentLength == 0 then .error .bad
        else .ok (suffixRange contentLength v)
    else
      (sliceTo "fs.go:1126" b n).bind fun first =>
      (sliceFrom "fs.go:1133" b (n + 1)).bind fun last =>
      fromToRange contentLength first last

/-! ### `ResponseHeader.SetContentRange` -/

/-- the header value `bytes <start>-<end>/<len>`; three `AppendUint` calls, each may panic -/
def contentRange (startPos endPos contentLength : Int) : Except Fault Bytes :=
  (appendUint startPos).bind fun a =>
  (appendUint endPos).bind fun b =>
  (appendUint contentLength).bind fun c =>
  .ok (strBytes ++ [32] ++ a ++ [45] ++ b ++ [47] ++ c)

/-! ### readers -/

/-- which reader `fsFile.NewReader` hands out -/
inductive ReaderKind where
  /-- `fsSmallFileReader` over an `*os.File` (`ReadAt`) -/
  | small
  /-- `bigFileReader` (`Seek` + `io.LimitedReader`), files above `MaxSmallFileSize` -/
  | big
  /-- `fsSmallFileReader` over an in-memory directory index (`ff.f == nil`, slicing `ff.dirIndex`) -/
  | dirIndex
deriving DecidableEq, Repr

/-- Everything a reader delivers until EOF.  `range = none`: no `UpdateByteRange` call.
small / dirIndex: `startPos, endPos := s, e+1` (`UpdateByteRange`), `Read` stops when
`endPos - startPos ≤ 0`; `ReadAt` fails on a negative offset, `dirIndex[startPos:]` panics (the panic
is recovered by `writeBodyStream` and becomes a write error).  big: `lr.N = e - s + 1`. -/
def readerOutput (kind : ReaderKind) (content : Bytes) (range : Option (Int × Int)) : Except Fault Bytes :=
  match range with
  | none => .ok content
  | some (s, e) =>
    match kind with
    | .small =>
      let startPos := s; let endPos := e + 1
      if endPos - startPos ≤ 0 then .ok []
      else if startPos < 0 then .error (.io "ReadAt negative offset")
      else .ok ((content.drop startPos.toNat).take (endPos - startPos).toNat)
    | .dirIndex =>
      let startPos := s; let endPos := e + 1
      if endPos - startPos ≤ 0 then .ok []
      else if startPos < 0 ∨ startPos > content.length then .error (.io "dirIndex[startPos:] panic recovered")
      else .ok ((content.drop startPos.toNat).take (endPos - startPos).toNat)
    | .big =>
      -- the Seek error is handled in `serveDecision` (it is reported by `UpdateByteRange`)
      .ok ((content.drop s.toNat).take (e - s + 1).toNat)

/-! ### the range part of `fsHandler.handleRequest` -/

structure Resp where
  status : Nat
  /-- `Content-Length` header -/
  contentLength : Int
  /-- `Content-Range` header -/
  contentRange : Option Bytes
  /-- `Accept-Ranges: bytes` present -/
  acceptRanges : Bool
  body : Bytes
deriving DecidableEq, Repr

def msg416 : Bytes := [82, 97, 110, 103, 101, 32, 78, 111, 116, 32, 83, 97, 116, 105, 115, 102, 105, 97, 98, 108, 101]
def msg500 : Bytes := [73, 110, 116, 101, 114, 110, 97, 108, 32, 83, 101, 114, 118, 101, 114, 32, 69, 114, 114, 111, 114]
def msg404 : Bytes := [67, 97, 110, 110, 111, 116, 32, 111, 112, 101, 110, 32, 114, 101, 113, 117, 101, 115, 116, 101, 100, 32, 112, 97, 116, 104]

/-- `ctx.AbortWithMsg(msg, code)`: the response is reset first, so no `Accept-Ranges`; a HEAD
response carries the length of the message but no body. -/
def abortResp (head : Bool) (code : Nat) (msg : Bytes) : Resp :=
  { status := code, contentLength := msg.length, contentRange := none, acceptRanges := false,
    body := if head then [] else msg }

/-- `ctx.SetBodyStream(r, contentLength)` followed by `WriteBodyFixedSize`: exactly `contentLength`
bytes of the reader are sent; fewer available is an error (the connection is dropped mid-body). -/
def sendBody (head : Bool) (out : Except Fault Bytes) (contentLength : Int) : Except Fault Bytes :=
  if head then .ok []
  else if contentLength < 0 then .error (.io "negative content length: chunked")
  else out.bind fun o =>
    if (o.length : Int) < contentLength then .error (.io "body stream shorter than Content-Length")
    else .ok (o.take contentLength.toNat)

/-- `fsHandler.handleRequest` from `r, err := ff.NewReader()` on, for a file (or directory index)
with the given content.  `byteRange` is `ctx.Request.Header.PeekRange()` (empty = no header). -/
def serveDecision (kind : ReaderKind) (content : Bytes) (head : Bool) (byteRange : Bytes)
    (acceptByteRange : Bool) : Except Fault Resp :=
  let n : Int := content.length
  if acceptByteRange && byteRange.length > 0 then
    match parseByteRange byteRange n with
    | .error .bad => .ok (abortResp head 416 msg416)
    | .error f => .error f
    | .ok (startPos, endPos) =>
      -- r.(byteRangeUpdater).UpdateByteRange(startPos, endPos)
      if kind = .big ∧ startPos < 0 then .ok (abortResp head 500 msg500) else
      -- hdr.SetContentRange(startPos, endPos, contentLength)
      (contentRange startPos endPos n).bind fun cr =>
      let contentLength := endPos - startPos + 1
      (sendBody head (readerOutput kind content (some (startPos, endPos))) contentLength).bind fun body =>
      .ok { status := 206, contentLength := contentLength, contentRange := some cr, acceptRanges := true, body := body }
  else
    (sendBody head (readerOutput kind content none) n).bind fun body =>
    .ok { status := 200, contentLength := n, contentRange := none, acceptRanges := acceptByteRange, body := body }

end Hertz.FS
