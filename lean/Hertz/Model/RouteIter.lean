import Hertz.Model.Route
/-!
The ITERATIVE lookup of `pkg/route/tree.go:(*router).find`, as it is written: one loop over the
current node `cn` and the remaining path `search`, the three blocks static / `Param:` / `Any:`, the
closure `backtrackToNextNodeKind` (restore of `searchIndex`, `paramIndex` and the re-slice of
`*paramsPointer`), the `res.tsr` computation, `unescape` of parameter values, and the epilogue
(`fullPath`, the `Key` loop).  Plus the part of `Engine.ServeHTTP` behind it (trailing-slash
redirect, `HandleMethodNotAllowed`, NoRoute).

Representation
* `cn` and the chain of `parent` pointers is the list `stack = cn :: cn.parent :: …` (`[]` = `cn == nil`).
  That `node.parent` is the node whose `children`/`paramChild`/`anyChild` holds the node is the
  invariant `insert` maintains (`newNode(…, currentNode, …)`, "Update parent path for all children");
  it is assumed here and held to the code by the correspondence check.
* `*paramsPointer` is the backing array `arr` (values only, `arr.length = cap`) and its length `plen`;
  the `Key`s are written by the epilogue only.
* Go `int`s that are decremented (`searchIndex`, `paramIndex`) are `Nat` with the check that Go makes
  when the value is used: a negative `searchIndex` faults at `path[searchIndex:]` (`sliceBounds`), a
  negative `paramIndex` at `(*paramsPointer)[paramIndex]` (`backIndex`).
* The loop body is cut at the program points `top` (prefix test of a static node), `body`
  (`search == "" && handlers`, static child), `param` (label `Param:`), `any` (label `Any:`); one
  `step` runs from one program point to the next, `run` iterates it with fuel.
-/
namespace Hertz.Route.Iter
open Hertz.Route

inductive ISite where
  | nilNode      -- `cn.kind` with `cn == nil` (never: the loop is left when the parent is nil)
  | paramsCap    -- `(*paramsPointer)[:(paramIndex + 1)]` beyond `cap`
  | anyIndex     -- `(*paramsPointer)[index]` in the `Any:` block
  | keyIndex     -- `(*paramsPointer)[i].Key = name` in the epilogue
  | backIndex    -- `(*paramsPointer)[paramIndex]` in `backtrackToNextNodeKind`
  | sliceBounds  -- `path[searchIndex:]` in `backtrackToNextNodeKind`
  deriving DecidableEq, Repr

inductive Pc where
  | top | body | param | any
  deriving DecidableEq, Repr

/-- the variables of `find` -/
structure St where
  stack : List Node
  search : Bytes
  si : Nat           -- searchIndex
  arr : List Bytes   -- backing array of *paramsPointer (values)
  pi : Nat           -- paramIndex
  plen : Nat         -- len(*paramsPointer)
  tsr : Bool         -- res.tsr
  deriving Repr

/-- what `find` leaves behind: `res` (handlers, fullPath, tsr) and `*paramsPointer` -/
inductive Out where
  | value (handlers : Option Nat) (fullPath : Bytes) (params : List (Bytes × Bytes)) (tsr : Bool)
      (arr : List Bytes) (plen : Nat)
  | panic (s : ISite)
  deriving DecidableEq, Repr

inductive Step where
  | next (pc : Pc) (st : St)
  | done (o : Out)

/-- `(*node).findChild` -/
def findChild : List Node → UInt8 → Option Node
  | [], _ => none
  | c :: r, l => if c.label = l then some c else findChild r l

/-- `cd := cn.findChild('/'); cd != nil && (cd.handlers != nil || cd.anyChild != nil)` -/
def tsrChild (cn : Node) : Bool :=
  match findChild cn.children 47 with
  | some cd => cd.handlers.isSome || cd.anyChild.isSome
  | none => false

/-- "Next node type by priority" -/
def nextKind : Kind → Kind
  | .skind => .pkind
  | .pkind => .akind
  | .akind => .skind

def hexVal (c : UInt8) : Option UInt8 :=
  if 48 ≤ c ∧ c ≤ 57 then some (c - 48)
  else if 97 ≤ c ∧ c ≤ 102 then some (c - 87)
  else if 65 ≤ c ∧ c ≤ 70 then some (c - 55)
  else none

/-- `url.QueryUnescape` (`none` = `EscapeError`) -/
def queryUnescape : Bytes → Option Bytes
  | [] => some []
  | [37] => none
  | [37, _] => none
  | 37 :: a :: b :: rest =>
    match hexVal a, hexVal b, queryUnescape rest with
    | some x, some y, some r => some ((x <<< 4 ||| y) :: r)
    | _, _, _ => none
  | c :: rest =>
    match queryUnescape rest with
    | some r => some ((if c = 43 then 32 else c) :: r)
    | none => none

/-- `if unescape { if v, err := url.QueryUnescape(val); err == nil { val = v } }` -/
def unescapeVal (unesc : Bool) (raw : Bytes) : Bytes :=
  if unesc then (match queryUnescape raw with | some v => v | none => raw) else raw

/-- the loop `for i := range *paramsPointer { if cn.kind == akind && i == len(cn.pnames)-1 { continue }; unescape Value }` of the
epilogue over the first `n` slots (`n` = `len(*paramsPointer)` minus the slots already done); `skip` = the index to leave alone,
relative to the head of the list -/
def unescFirst : Nat → Option Nat → List Bytes → List Bytes
  | 0, _, arr => arr
  | _ + 1, _, [] => []
  | n + 1, none, v :: r => unescapeVal true v :: unescFirst n none r
  | n + 1, some 0, v :: r => v :: unescFirst n none r
  | n + 1, some (k + 1), v :: r => unescapeVal true v :: unescFirst n (some k) r

/-- the index the epilogue skips: `cn.kind == akind && i == len(cn.pnames)-1` (never true for an empty `pnames`) -/
def skipIdx (cn : Node) : Option Nat :=
  if cn.kind = .akind ∧ cn.pnames.length ≥ 1 then some (cn.pnames.length - 1) else none

/-- the epilogue `if cn != nil { res.fullPath = cn.ppath; for i, name := range cn.pnames { … };
if unescape && res.handlers != nil { … } }` (since 59ce9b1 the values are unescaped HERE, once the route is found) -/
def post (unesc : Bool) (st : St) (h : Option Nat) : Out :=
  match st.stack with
  | [] => .value h [] (zipKeys [] (st.arr.take st.plen)) st.tsr st.arr st.plen
  | cn :: _ =>
    if cn.pnames.length > st.plen then .panic .keyIndex
    else
      let arr' := if unesc && h.isSome then unescFirst st.plen (skipIdx cn) st.arr else st.arr
      .value h cn.ppath (zipKeys cn.pnames (arr'.take st.plen)) st.tsr arr' st.plen

/-- `backtrackToNextNodeKind(fromKind)`; `fromStatic` = `fromKind == skind`.  Result: the new
variables, `nextNodeKind`, `valid`. -/
def backtrack (path : Bytes) (fromStatic : Bool) (st : St) : Except ISite (St × Kind × Bool) :=
  match st.stack with
  | [] => .error .nilNode
  | prev :: rest =>
    let nk := nextKind prev.kind
    let valid := !rest.isEmpty
    if fromStatic then .ok ({ st with stack := rest }, nk, valid)
    else if prev.kind = .skind then
      if st.si < prev.pfx.length then .error .sliceBounds
      else if st.si - prev.pfx.length > path.length then .error .sliceBounds
      else .ok ({ st with stack := rest, si := st.si - prev.pfx.length,
                          search := path.drop (st.si - prev.pfx.length) }, nk, valid)
    else
      if st.pi = 0 then .error .backIndex
      else if st.pi - 1 ≥ st.plen then .error .backIndex
      else if st.si < (st.arr.getD (st.pi - 1) []).length then .error .sliceBounds
      else if st.si - (st.arr.getD (st.pi - 1) []).length > path.length then .error .sliceBounds
      else .ok ({ st with stack := rest, si := st.si - (st.arr.getD (st.pi - 1) []).length,
                          search := path.drop (st.si - (st.arr.getD (st.pi - 1) []).length),
                          pi := st.pi - 1, plen := st.pi - 1 }, nk, valid)

/-- the `if !ok … else if nk == pkind { goto Param } else if nk == akind { goto Any } else { break }`
after a call of `backtrackToNextNodeKind` (the static block has no `goto Any`); every exit here has
`res.handlers == nil`, so the epilogue does not unescape (`post false`) -/
def afterBack (fromStatic : Bool) (r : Except ISite (St × Kind × Bool)) : Step :=
  match r with
  | .error s => .done (.panic s)
  | .ok (st', nk, valid) =>
    if !valid then .done (post false st' none)
    else match nk with
      | .pkind => .next .param st'
      | .akind => if fromStatic then .done (post false st' none) else .next .any st'
      | .skind => .done (post false st' none)

/-- `if cn.kind == skind { … }` -/
def stepTop (path : Bytes) (st : St) : Step :=
  match st.stack with
  | [] => .done (.panic .nilNode)
  | cn :: _ =>
    if cn.kind = .skind then
      if cn.pfx.isPrefixOf st.search then
        .next .body { st with search := st.search.drop cn.pfx.length, si := st.si + cn.pfx.length }
      else
        afterBack true (backtrack path true { st with tsr := st.tsr ||
          (cn.pfx.length == st.search.length + 1 && cn.pfx.getD st.search.length 0 == 47
            && cn.pfx.take st.search.length == st.search && (cn.handlers.isSome || cn.anyChild.isSome)) })
    else .next .body st

/-- `if search == nilString && len(cn.handlers) != 0 {…}`, the "Static node" block and the tsr test
in front of `Param:` -/
def stepBody (unesc : Bool) (st : St) : Step :=
  match st.stack with
  | [] => .done (.panic .nilNode)
  | cn :: rest =>
    match st.search with
    | [] =>
      if cn.handlers.isSome then .done (post unesc st cn.handlers)
      else .next .param { st with tsr := st.tsr || tsrChild cn }
    | c :: s' =>
      match findChild cn.children c with
      | some child =>
        .next .top { st with stack := child :: cn :: rest, tsr := st.tsr || (s'.isEmpty && c == 47 && cn.handlers.isSome) }
      | none => .next .param { st with tsr := st.tsr || (s'.isEmpty && c == 47 && cn.handlers.isSome) }

/-- the `Param:` block (the RAW text is stored: `backtrackToNextNodeKind` restores `searchIndex` by `len(Value)`) -/
def stepParam (st : St) : Step :=
  match st.stack with
  | [] => .done (.panic .nilNode)
  | cn :: rest =>
    match cn.paramChild, st.search with
    | some child, _ :: _ =>
      if st.pi + 1 > st.arr.length then .done (.panic .paramsCap)
      else
        .next .top { stack := child :: cn :: rest, search := segRest st.search,
                     si := st.si + (segValue st.search).length,
                     arr := st.arr.set st.pi (segValue st.search),
                     pi := st.pi + 1, plen := st.pi + 1,
                     tsr := st.tsr || ((segRest st.search).isEmpty && tsrChild child) }
    | _, _ => .next .any st

/-- the `Any:` block and the backtracking behind it -/
def stepAny (path : Bytes) (unesc : Bool) (st : St) : Step :=
  match st.stack with
  | [] => .done (.panic .nilNode)
  | cn :: rest =>
    match cn.anyChild with
    | some child =>
      if st.pi + 1 > st.arr.length then .done (.panic .paramsCap)
      else if child.pnames.length = 0 || child.pnames.length - 1 ≥ st.pi + 1 then .done (.panic .anyIndex)
      else
        .done (post unesc
          { stack := child :: cn :: rest, search := [], si := st.si + st.search.length,
            arr := st.arr.set (child.pnames.length - 1) (unescapeVal unesc st.search),
            pi := st.pi + 1, plen := st.pi + 1, tsr := st.tsr }
          child.handlers)
    | none => afterBack false (backtrack path false st)

def step (path : Bytes) (unesc : Bool) : Pc → St → Step
  | .top, st => stepTop path st
  | .body, st => stepBody unesc st
  | .param, st => stepParam st
  | .any, st => stepAny path unesc st

/-- the `for { … }` of `find`; `none` = the fuel ran out -/
def run (path : Bytes) (unesc : Bool) : Nat → Pc → St → Option Out
  | 0, _, _ => none
  | f + 1, pc, st =>
    match step path unesc pc st with
    | .done o => some o
    | .next pc' st' => run path unesc f pc' st'

mutual
/-- number of nodes -/
def size : Node → Nat
  | .mk _ _ _ cs _ _ _ pc ac => 1 + sizeL cs + sizeO pc + sizeO ac
def sizeL : List Node → Nat
  | [] => 0
  | c :: r => size c + sizeL r
def sizeO : Option Node → Nat
  | none => 0
  | some c => size c
end

/-- every node is entered at most once and left after at most four program points -/
def fuelFor (root : Node) : Nat := 4 * size root

def initSt (root : Node) (path : Bytes) (arr : List Bytes) (plen : Nat) : St :=
  { stack := [root], search := path, si := 0, arr := arr, pi := 0, plen := plen, tsr := false }

/-- `(*router).find(path, paramsPointer, unescape)` with `*paramsPointer` = `arr[:plen]` -/
def findIter (root : Node) (path : Bytes) (arr : List Bytes) (plen : Nat) (unesc : Bool) : Option Out :=
  run path unesc (fuelFor root) .top (initSt root path arr plen)

/-- the recursive `find`'s answer in the vocabulary of the iterative one (tsr not compared) -/
def agrees (r : Res) (o : Option Out) : Bool :=
  match r, o with
  | .hit f, some (.value (some h) fp ps _ _ _) => f.handlers == h && f.fullPath == fp && f.params == ps
  | .miss, some (.value none _ _ _ _ _) => true
  | .stop, some (.value none _ _ _ _ _) => true
  | .panic _, some (.panic _) => true
  | _, _ => false

/-! ## Engine.ServeHTTP behind `rPath` -/

structure Opts where
  redirectTrailingSlash : Bool := true
  handleMethodNotAllowed : Bool := false
  /-- `UseRawPath && UnescapePathValues` -/
  unescape : Bool := false
  deriving Repr

inductive ServedI where
  | handler (f : Found)
  | redirect (code : Nat)    -- `redirectTrailingSlash`: 301 for GET, 307 otherwise
  | notAllowed               -- 405, `allNoMethod`
  | notFound                 -- 404, `allNoRoute`
  | badRequest               -- 400 (`rPath == "" || rPath[0] != '/'`)
  | panic (s : ISite)
  | outOfFuel
  deriving DecidableEq, Repr

def mGET : Bytes := [71, 69, 84]
def mCONNECT : Bytes := [67, 79, 78, 78, 69, 67, 84]

/-- the `HandleMethodNotAllowed` loop: the other method trees, with the `*paramsPointer` the
previous lookups left -/
def notAllowedLoop : List Router → Bytes → Bytes → List Bytes → Nat → Bool → ServedI
  | [], _, _, _, _, _ => .notFound
  | t :: r, method, rPath, arr, plen, unesc =>
    if t.method = method then notAllowedLoop r method rPath arr plen unesc
    else match findIter t.root rPath arr plen unesc with
      | none => .outOfFuel
      | some (.panic s) => .panic s
      | some (.value (some _) _ _ _ _ _) => .notAllowed
      | some (.value none _ _ _ arr' plen') => notAllowedLoop r method rPath arr' plen' unesc

/-- `Engine.ServeHTTP` from `rPath` on (Host check, `UseRawPath`/`RemoveExtraSlash` rewriting of
`rPath` are done by the caller; `RedirectFixedPath` off), on a context whose `Params` is empty with
capacity `maxParams`. -/
def Engine.serveIter (e : Engine) (o : Opts) (method rPath : Bytes) : ServedI :=
  match rPath with
  | [] => .badRequest
  | c :: _ =>
    if c ≠ 47 then .badRequest
    else
      let arr0 : List Bytes := List.replicate e.maxParams []
      let tail := fun (arr : List Bytes) (plen : Nat) =>
        if o.handleMethodNotAllowed then notAllowedLoop e.trees method rPath arr plen o.unescape else ServedI.notFound
      match treesGet e.trees method with
      | none => tail arr0 0
      | some t =>
        match findIter t.root rPath arr0 0 o.unescape with
        | none => .outOfFuel
        | some (.panic s) => .panic s
        | some (.value (some h) fp ps _ _ _) => .handler ⟨h, fp, ps⟩
        | some (.value none _ _ tsr arr plen) =>
          if method ≠ mCONNECT && rPath ≠ [47] && tsr && o.redirectTrailingSlash then
            .redirect (if method = mGET then 301 else 307)
          else tail arr plen

end Hertz.Route.Iter
