import Hertz.Model.Uri
/-!
Setter side of `pkg/protocol/args.go` (`Args.Add/Set/Del/Reset/ParseBytes` as programs over one `Args` object) and the request
cookie codec of `pkg/protocol/cookie.go` / `header.go` (`RequestHeader.SetCookie/DelCookie/DelAllCookies`,
`appendRequestCookieBytes` = the value of the `Cookie:` line, `parseRequestCookies`).

An `Args` value is modelled by the list of its visible entries (`a.args[:len]`): the slots beyond `len` that `allocArg`
recycles are overwritten field by field (`key`, `value`, `noValue`) by every writer (`appendArg`, `argsScanner.next`), which is
what the used-and-reset objects of the correspondence check exercise.  hertz has no `SetNoValue/AddNoValue`: an entry without
value can only come from `ParseBytes`.
-/
namespace Hertz
open Hertz.Uri

/-- `setArg(h, key, value, ArgsHasValue)`: the FIRST entry with that key gets the value, else a new entry is appended -/
def setArg : List ArgKV → Bytes → Bytes → List ArgKV
  | [], k, v => [{ key := k, value := v, noValue := false }]
  | kv :: t, k, v => if kv.key = k then { key := kv.key, value := v, noValue := false } :: t else kv :: setArg t k v

/-- `delAllArgs(args, key)`: every entry with that key goes, the others keep their order -/
def delArgs (l : List ArgKV) (k : Bytes) : List ArgKV := l.filter (fun kv => kv.key != k)

/-- `peekArgStr` -/
def peekArg (l : List ArgKV) (k : Bytes) : Option Bytes := (l.find? (fun kv => kv.key == k)).map (·.value)

inductive ArgOp where
  | add (k v : Bytes)      -- `Args.Add(k, v)`
  | set (k v : Bytes)      -- `Args.Set(k, v)`
  | del (k : Bytes)        -- `Args.Del(k)` / `DelBytes`
  | parse (b : Bytes)      -- `Args.ParseBytes(b)` (resets first)
  | reset                  -- `Args.Reset()`
deriving Repr, DecidableEq

def argStep (l : List ArgKV) : ArgOp → List ArgKV
  | .add k v => l ++ [{ key := k, value := v, noValue := false }]
  | .set k v => setArg l k v
  | .del k => delArgs l k
  | .parse b => parseArgs b
  | .reset => []

/-- the visible entries after running a program on a reset `Args` -/
def runArgOps (ops : List ArgOp) : List ArgKV := ops.foldl argStep []

/-! ### request cookies -/

/-- one cookie as `appendRequestCookieBytes` writes it -/
def reqCookieSeg (kv : Bytes × Bytes) : Bytes := (if kv.1.isEmpty then [] else kv.1 ++ [61]) ++ kv.2

/-- `appendRequestCookieBytes(nil, cookies)`: the value of the `Cookie:` line -/
def appendReqCookies : List (Bytes × Bytes) → Bytes
  | [] => []
  | [kv] => reqCookieSeg kv
  | kv :: t => reqCookieSeg kv ++ 59 :: 32 :: appendReqCookies t

/-- `parseRequestCookies(nil, src)`: entries with neither key nor value are dropped -/
def parseReqCookies (src : Bytes) : List (Bytes × Bytes) :=
  ((cookieSegs src).map cookieKV).filter (fun kv => !(kv.1.isEmpty && kv.2.isEmpty))

/-- The well-formedness under which a request cookie survives the `Cookie:` line: neither `;` in key or value, no `=` in the
key, key not changed by trimming blanks, value not changed by trimming blanks and stripping one pair of double quotes, and a
key-less cookie has no `=` in its value. -/
def wfReqCookie (kv : Bytes × Bytes) : Bool :=
  !kv.1.contains 59 && !kv.1.contains 61 && kv.1 == decodeCookieArg kv.1 false &&
  !kv.2.contains 59 && kv.2 == decodeCookieArg kv.2 true && !(kv.1.isEmpty && kv.2.contains 61)

inductive CookieOp where
  | set (k v : Bytes)     -- `RequestHeader.SetCookie(k, v)`
  | del (k : Bytes)       -- `RequestHeader.DelCookie(k)`
  | delAll                -- `RequestHeader.DelAllCookies()`
  | line (b : Bytes)      -- a `Cookie:` header value arrives (`Set("Cookie", b)`): parsed and APPENDED
deriving Repr, DecidableEq

def setCookieKV : List (Bytes × Bytes) → Bytes → Bytes → List (Bytes × Bytes)
  | [], k, v => [(k, v)]
  | kv :: t, k, v => if kv.1 = k then (kv.1, v) :: t else kv :: setCookieKV t k v

def cookieStep (l : List (Bytes × Bytes)) : CookieOp → List (Bytes × Bytes)
  | .set k v => setCookieKV l k v
  | .del k => l.filter (fun kv => kv.1 != k)
  | .delAll => []
  | .line b => l ++ parseReqCookies b

def runCookieOps (ops : List CookieOp) : List (Bytes × Bytes) := ops.foldl cookieStep []

end Hertz
