import Hertz.Spec.Tracer
/-!
C19 — model of the tracer-relevant part of `pkg/protocol/http1/server.go:Server.Serve`
(`traceCtl.DoStart/DoFinish`, `eventStack`, `traceStarted`, every `return`, the deferred epilogue),
of `internal/stats/tracer.go` (`Controller.DoStart/DoFinish`), `internal/stats/stats_util.go`
(`Record`) and `pkg/common/tracer/traceinfo/httpstats.go` (`httpStats.Record/GetEvent/Reset`).

Two layers:
* `serve` runs the loop over a *history* — one `Iter` per loop iteration, saying how every question
  the code asks the outside world in that iteration is answered — and emits the sequence of
  tracer-relevant actions (`Act`);
* `observe` executes such an action sequence against the per-context stats and a recording tracer and
  yields the call log (`Spec.Tracer.Call`).
-/
namespace Hertz.Tracer

/-! ### events (`pkg/common/tracer/stats/event.go`) -/

/-- exported Go name -/
def Ev.goName : Ev → String
  | .httpStart => "HTTPStart" | .httpFinish => "HTTPFinish"
  | .readHeaderStart => "ReadHeaderStart" | .readHeaderFinish => "ReadHeaderFinish"
  | .readBodyStart => "ReadBodyStart" | .readBodyFinish => "ReadBodyFinish"
  | .handleStart => "ServerHandleStart" | .handleFinish => "ServerHandleFinish"
  | .writeStart => "WriteStart" | .writeFinish => "WriteFinish"

/-- `Event.Index()`: position in `httpStats.eventMap` -/
def Ev.index : Ev → Nat
  | .handleStart => 1 | .handleFinish => 2 | .httpStart => 3 | .httpFinish => 4
  | .readHeaderStart => 5 | .readHeaderFinish => 6 | .readBodyStart => 7 | .readBodyFinish => 8
  | .writeStart => 9 | .writeFinish => 10

/-- `Event.Level()`: 1 = `LevelBase`, 2 = `LevelDetailed` -/
def Ev.level : Ev → Nat
  | .httpStart | .httpFinish => 1
  | _ => 2

/-- `stats.MaxEventNum()` without user-defined events = `predefinedEventNum` -/
def maxEventNum : Nat := 11

/-! ### actions -/

inductive Act where
  /-- `Serve` is entered: fresh `RequestContext` from the pool, `cc = c` -/
  | enter
  /-- `internalStats.Record(ti, e, err)`; `isErr` = `err != nil` -/
  | record (e : Ev) (isErr : Bool)
  /-- the registered tracers' `Start` (inside `DoStart`); `cc` becomes the context they return -/
  | start
  /-- `Stats().SetError(err)` (inside `DoFinish`) -/
  | setError
  /-- the registered tracers' `Finish(cc, ctx)` (inside `DoFinish`) -/
  | finish
  /-- `s.Core.ServeHTTP(cc, ctx)` -/
  | handle
  /-- `ctx.ResetWithoutConn()` / `ctx.Reset()`: request data gone, `traceInfo.Reset()` -/
  | reset
deriving DecidableEq, Repr

/-! ### `Server.Serve` -/

structure Cfg where
  /-- `s.EnableTrace` (a tracer is registered) -/
  enableTrace : Bool := true
  /-- `s.IdleTimeout == 0`: return to the poller after every request -/
  idleZero : Bool := false
deriving DecidableEq, Repr

/-- the values of `err` that `Serve` and `shouldRecordInTraceError` tell apart -/
inductive ErrK where
  | none | nothingRead | ioEOF | unexpectedEOF | idle | hijacked | short | other
deriving DecidableEq, Repr

/-- `shouldRecordInTraceError` -/
def shouldRecordInTraceError : ErrK → Bool
  | .none | .idle | .hijacked | .short => false
  | _ => true

/-- a failed read, as classified by `Serve` -/
inductive RdErr where
  | nothingRead   -- errors.Is(err, errs.ErrNothingRead)
  | eof           -- err == io.EOF
  | other         -- anything else: answered by writeErrorResponse
deriving DecidableEq, Repr

def RdErr.toErrK : RdErr → ErrK
  | .nothingRead => .nothingRead
  | .eof => .ioEOF
  | .other => .other

/-- what happens from `ServeHTTP` on -/
inductive Tail where
  | panic             -- the handler panics and nobody recovers: `Serve` unwinds, its deferred function runs
  | writeErr          -- writeResponse fails
  | flushErr          -- zw.Flush fails
  | releaseErr        -- ext.ReleaseBodyStream fails
  | hijackTimeoutErr  -- SetReadTimeout(0) before the hijack handler fails
  | hijacked
  | close             -- connectionClose: errShortConnection
  | next              -- keep-alive: on to the next request
deriving DecidableEq, Repr

/-- the path one loop iteration takes after the idle wait -/
inductive Outcome where
  | headerErr (e : RdErr)   -- req.ReadHeader fails
  | bodyErr (e : RdErr)     -- ReadLimitBody / ReadBodyStream fails
  | contWriteErr            -- `Expect: 100-continue`: writing or flushing the interim response fails
  | contBodyErr             -- … reading the body after it fails
  | handled (t : Tail)      -- the request reaches `ServeHTTP` (a recovered handler panic included)
deriving DecidableEq, Repr

structure Iter where
  /-- `zr.Peek(4)` of the idle wait fails (asked only when `connRequestNum > 1`) -/
  peekFails : Bool := false
  outcome : Outcome
deriving DecidableEq, Repr

/-- tracer-relevant locals of `Serve` -/
structure Loc where
  /-- `eventsToTrigger` (top first); a closure is represented by the event it records -/
  stack : List Ev := []
  /-- `traceStarted` -/
  started : Bool := false
  /-- `err` (the named result) -/
  err : ErrK := .none
deriving DecidableEq, Repr

/-- locals + actions emitted so far in this iteration -/
structure W where
  loc : Loc
  acts : List Act
deriving DecidableEq, Repr

def W.emit (w : W) (a : List Act) : W := { w with acts := w.acts ++ a }
def W.setErr (w : W) (e : ErrK) : W := { w with loc := { w.loc with err := e } }
def W.setStarted (w : W) (b : Bool) : W := { w with loc := { w.loc with started := b } }

/-- `internalStats.Record(ctx.GetTraceInfo(), e, err)` with the current `err` -/
def W.record (w : W) (e : Ev) : W := w.emit [.record e (w.loc.err != .none)]

/-- `eventsToTrigger.push(func(ti, err) { Record(ti, e, err) })` -/
def W.push (w : W) (e : Ev) : W := { w with loc := { w.loc with stack := e :: w.loc.stack } }

/-- `if last := eventsToTrigger.pop(); last != nil { last(ti, err) }` -/
def W.pop (w : W) : W :=
  match w.loc.stack with
  | [] => w
  | e :: t => W.record { w with loc := { w.loc with stack := t } } e

/-- `for last := pop(); last != nil; last = pop() { last(ti, err) }` -/
def popAllAux : List Ev → W → W
  | [], w => w
  | e :: t, w => popAllAux t (w.record e)

def W.popAll (w : W) : W :=
  let w' := popAllAux w.loc.stack w
  { w' with loc := { w'.loc with stack := [] } }

/-- `Controller.DoStart`: `Record(HTTPStart, nil)`, then every tracer's `Start` -/
def W.doStart (w : W) : W := w.emit [.record .httpStart false, .start]

/-- `Controller.DoFinish(cc, ctx, err)` -/
def W.doFinish (w : W) (e : ErrK) : W :=
  w.emit ([.record .httpFinish (e != .none)] ++ (if e != .none then [.setError] else []) ++ [.finish])

/-- `if shouldRecordInTraceError(err) { DoFinish(cc, ctx, err) } else { DoFinish(cc, ctx, nil) }` -/
def W.finishFiltered (w : W) : W :=
  if shouldRecordInTraceError w.loc.err then w.doFinish w.loc.err else w.doFinish .none

/-- from `ServeHTTP` to the end of the loop body; `.error` = `return` (or unwinding panic) -/
def afterRead (cfg : Cfg) (t : Tail) (w : W) : Except W W :=
  -- if s.EnableTrace { Record(ServerHandleStart, err); push(ServerHandleFinish) }
  let w := if cfg.enableTrace then (w.record .handleStart).push .handleFinish else w
  -- s.Core.ServeHTTP(cc, ctx)
  let w := w.emit [.handle]
  if t = .panic then .error w else
  -- if s.EnableTrace { pop }
  let w := if cfg.enableTrace then w.pop else w
  -- if s.EnableTrace { Record(WriteStart, err); push(WriteFinish) }
  let w := if cfg.enableTrace then (w.record .writeStart).push .writeFinish else w
  -- if err = writeResponse(ctx, zw); err != nil { return }
  if t = .writeErr then .error (w.setErr .other) else
  -- if err = zw.Flush(); err != nil { return }
  if t = .flushErr then .error (w.setErr .other) else
  -- if s.EnableTrace { pop }
  let w := if cfg.enableTrace then w.pop else w
  -- if ctx.Request.IsBodyStream() { err = ReleaseBodyStream(…); if err != nil { return } }
  if t = .releaseErr then .error (w.setErr .other) else
  -- if hijackHandler != nil { err = SetReadTimeout(0); if err != nil { return }; …; err = errHijacked; return }
  if t = .hijackTimeoutErr then .error (w.setErr .other) else
  if t = .hijacked then .error (w.setErr .hijacked) else
  -- if connectionClose { return errShortConnection }
  if t = .close then .error (w.setErr .short) else
  -- if s.IdleTimeout == 0 { return }
  if cfg.idleZero then .error w else
  -- if s.EnableTrace { DoFinish(…); traceStarted = false }
  let w := if cfg.enableTrace then w.finishFiltered.setStarted false else w
  -- ctx.ResetWithoutConn()
  .ok (w.emit [.reset])

/-- one pass through the body of the `for` loop; `first` ⇔ `connRequestNum == 1` -/
def iter (cfg : Cfg) (first : Bool) (it : Iter) (l : Loc) : Except W W :=
  let w : W := ⟨l, []⟩
  -- if connRequestNum > 1 { _, err = zr.Peek(4); if err != nil { err = errIdleTimeout; return } }
  if !first && it.peekFails then .error (w.setErr .idle) else
  let w := if first then w else w.setErr .none
  -- if s.EnableTrace { cc = DoStart(c, ctx); traceStarted = true; Record(ReadHeaderStart, err); push(ReadHeaderFinish) }
  let w := if cfg.enableTrace then
      (((w.doStart).setStarted true).record .readHeaderStart).push .readHeaderFinish else w
  -- if err = req.ReadHeader(…); err == nil { if s.EnableTrace { pop; Record(ReadBodyStart, err); push(ReadBodyFinish) }; err = ReadBody… }
  let w := match it.outcome with
    | .headerErr e => w.setErr e.toErrK
    | o =>
      let w := w.setErr .none
      let w := if cfg.enableTrace then ((w.pop).record .readBodyStart).push .readBodyFinish else w
      match o with
      | .bodyErr e => w.setErr e.toErrK
      | _ => w
  -- if s.EnableTrace { SetRecvSize(…); pop }
  let w := if cfg.enableTrace then w.pop else w
  -- if err != nil { ErrNothingRead ⇒ return nil; io.EOF ⇒ return errUnexpectedEOF; writeErrorResponse; return }
  match w.loc.err with
  | .nothingRead => .error (w.setErr .none)
  | .ioEOF => .error (w.setErr .unexpectedEOF)
  | .none =>
    match it.outcome with
    -- if ctx.Request.MayContinue() { … WriteBinary / Flush: if err != nil { return } … ContinueReadBody: if err != nil { writeErrorResponse; return } }
    | .contWriteErr => .error (w.setErr .other)
    | .contBodyErr => .error (w.setErr .other)
    | .handled t => afterRead cfg t w
    | _ => .error w      -- not reachable: a read error leaves `err` set
  | _ => .error w

/-- the deferred function of `Serve` -/
def epilogue (cfg : Cfg) (w : W) : W :=
  let w := if cfg.enableTrace then
      -- if eventsToTrigger != nil { for last := pop(); … { last(ti, err) } }
      let w := w.popAll
      -- if traceStarted { DoFinish(…) }
      if w.loc.started then w.finishFiltered else w
    else w
  -- s.putRequestContext(ctx) ⇒ ctx.Reset()  (an exiled context is abandoned instead; either way the
  -- next `Serve` starts from a context without request data and with empty stats)
  w.emit [.reset]

/-- the `for` loop over a history; a history that runs out leaves the loop blocked in a read -/
def serveLoop (cfg : Cfg) : Bool → List Iter → Loc → List Act
  | _, [], _ => []
  | first, it :: rest, l =>
    match iter cfg first it l with
    | .error w => (epilogue cfg w).acts
    | .ok w => w.acts ++ serveLoop cfg false rest w.loc

/-- one call of `Server.Serve` -/
def serve (cfg : Cfg) (hist : List Iter) : List Act := .enter :: serveLoop cfg true hist {}

/-- one connection: `Serve` is entered once (in-loop idle handling) or once per batch of input
(return-to-poller transports) -/
def connection (cfg : Cfg) (hists : List (List Iter)) : List Act := hists.flatMap (serve cfg)

/-! ### stats and the recording tracer -/

/-- `httpStats` + what else the callees can see -/
structure Obs where
  /-- `httpStats.level` -/
  level : Level
  /-- `time.Now()`: advances with every `Record` -/
  clock : Nat := 0
  /-- `httpStats.eventMap`, indexed by `Event.Index()` -/
  eventMap : List (Option Rec) := List.replicate maxEventNum none
  /-- `httpStats.err != nil` -/
  hasErr : Bool := false
  /-- running number of the handled request whose data the `RequestContext` holds -/
  data : Option Nat := none
  handled : Nat := 0
  starts : Nat := 0
  /-- the id carried by `cc` -/
  cc : Option Nat := none
deriving DecidableEq, Repr

/-- `Stats().GetEvent(e)` for the ten events in causal order -/
def Obs.snap (o : Obs) : Snap := Ev.all.map (fun e => (o.eventMap.getD e.index none))

/-- `httpStats.Record`: events above the configured level are dropped; `eventMap[idx] = eve` -/
def Obs.record (o : Obs) (e : Ev) (isErr : Bool) : Obs :=
  if e.level > o.level then { o with clock := o.clock + 1 }
  else { o with clock := o.clock + 1, eventMap := o.eventMap.set e.index (some ⟨o.clock, isErr⟩) }

def Obs.step (o : Obs) : Act → Obs × List Call
  | .enter => ({ o with cc := none }, [])
  | .record e isErr => (o.record e isErr, [])
  | .start => ({ o with starts := o.starts + 1, cc := some (o.starts + 1) }, [.start (o.starts + 1) o.snap])
  | .setError => ({ o with hasErr := true }, [])
  | .finish => (o, [.finish o.cc o.data o.hasErr o.snap])
  | .handle => ({ o with handled := o.handled + 1, data := some (o.handled + 1) }, [.handle o.cc (o.handled + 1)])
  | .reset => ({ o with eventMap := List.replicate maxEventNum none, hasErr := false, data := none }, [])

def Obs.run (o : Obs) : List Act → Obs × List Call
  | [] => (o, [])
  | a :: t =>
    let r := o.step a
    let r' := Obs.run r.1 t
    (r'.1, r.2 ++ r'.2)

/-- the call log of an action sequence at trace level `lv` -/
def observe (lv : Level) (acts : List Act) : List Call := (Obs.run { level := lv } acts).2

end Hertz.Tracer
