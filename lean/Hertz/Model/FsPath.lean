import Hertz.Model.Uri
/-!
Model of the path pipeline of the static file handler, `pkg/app/fs.go`:

* `stripLeadingSlashes`, `stripTrailingSlashes`,
* the two stock `PathRewriteFunc`s `NewPathSlashesStripper(n)` and `NewVHostPathRewriter(n)` (the latter
  rewrites the request URI through `URI.SetPathBytes` as a side effect, so the URI is part of the result),
* the head of `fsHandler.handleRequest`: rewrite → `stripTrailingSlashes` → NUL test (400) → guard against
  `/../`, a trailing `/..` and a missing leading slash (500, only with a rewriter) → the string `root + path` that is handed to `os.Open`,
* `openFSFile` / `openIndexFile` over an abstract directory tree: the operating system's path resolution is
  modelled component by component (`walk`: empty and `.` components stay, `..` goes to the parent, a
  component below a non-directory fails), so a path that still contains `..` *does* leave the root in the
  model, exactly as it would on disk.

Request side: the URI is `Uri.parse hostHeader requestTarget` (`Request.URI()`), `ctx.Host()` is its host
(lower-cased, userinfo cut, taken from an absolute-form target when there is one), `ctx.Path()` its
normalised path.
-/
namespace Hertz.FsPath
open Hertz Hertz.Uri

/-- `strInvalidHost` -/
def strInvalidHost : Bytes := [105, 110, 118, 97, 108, 105, 100, 45, 104, 111, 115, 116]

/-- `stripLeadingSlashes(path, n)`; `none` = `panic("BUG: path must start with slash")` -/
def stripLeadingSlashes : Nat → Bytes → Option Bytes
  | 0, p => some p
  | _ + 1, [] => some []
  | k + 1, c :: t =>
    if c ≠ 47 then none
    else
      let r := t.dropWhile (· != 47)
      if r.isEmpty then some [] else stripLeadingSlashes k r

/-- `stripTrailingSlashes(path)` -/
def stripTrailingSlashes (p : Bytes) : Bytes := (p.reverse.dropWhile (· == 47)).reverse

/-- `FS.PathRewrite`: nil, `NewPathSlashesStripper(n)`, `NewVHostPathRewriter(n)`, or an application
function that returns the bytes `p` -/
inductive Rewriter where
  | none
  | stripper (n : Nat)
  | vhost (n : Nat)
  | custom (p : Bytes)
deriving Repr, DecidableEq

/-- `URI.SetPathBytes(p)` -/
def setPathBytes (u : URI) (p : Bytes) : URI := { u with pathOriginal := p, path := normalizePath p }

/-- `h.pathRewrite(ctx)` (or `ctx.Path()` without a rewriter): the path handed to the file handler and the
request URI afterwards; `none` = panic -/
def rewrite (rw : Rewriter) (u : URI) : Option (Bytes × URI) :=
  match rw with
  | .none => some (u.pathOrSlash, u)
  | .stripper n => (stripLeadingSlashes n u.pathOrSlash).map (fun p => (p, u))
  | .custom p => some (p, u)
  | .vhost n =>
    (stripLeadingSlashes n u.pathOrSlash).map (fun path =>
      let host := if u.host.contains 47 then [] else u.host
      let host := if host.isEmpty then strInvalidHost else host
      let u' := setPathBytes u (47 :: (host ++ path))
      (u'.pathOrSlash, u'))

/-- what `handleRequest` does before it touches the file system -/
inductive Decision where
  | badRequest                 -- NUL byte in the path: 400
  | guard                      -- `/../` in, `/..` at the end of, or no leading slash on a rewritten path: 500
  | openPath (p : Bytes)       -- `os.Open(root + p)`
deriving Repr, DecidableEq

/-- the tests on a rewritten path (trailing slashes already stripped): `/../` inside, `/..` at the end, or a
non-empty path that does not start with a slash (it is appended to the root as it is) -/
def refused (p : Bytes) : Bool :=
  containsSub Hertz.Gen.Str.strSlashDotDotSlash p || [47, 46, 46].isSuffixOf p || (!p.isEmpty && p.head? != some 47)

def decision (rw : Rewriter) (u : URI) : Option (Decision × URI) :=
  (rewrite rw u).map (fun (p, u') =>
    let p := stripTrailingSlashes p
    if p.contains 0 then (.badRequest, u')
    else if rw != .none && refused p then (.guard, u')
    else (.openPath p, u'))

/-! ### the file system -/

/-- a directory tree below some base directory: paths are lists of names from the base (`[]` = the base) -/
structure Tree where
  dirs : List (List Bytes)
  files : List (List Bytes)

def Tree.isDir (t : Tree) (p : List Bytes) : Bool := p.isEmpty || t.dirs.contains p
def Tree.isFile (t : Tree) (p : List Bytes) : Bool := t.files.contains p

inductive Found where
  | file (p : List Bytes)
  | dir (p : List Bytes)
  | missing
deriving Repr, DecidableEq

def splitSlash : Bytes → List Bytes
  | [] => [[]]
  | c :: t =>
    if c = 47 then [] :: splitSlash t
    else match splitSlash t with
      | [] => [[c]]
      | s :: r => (c :: s) :: r

/-- the kernel's path resolution starting in directory `cur`.  Leaving the base directory upwards is not
modelled (`missing`); the base is chosen one level above the root that is served. -/
def walk (t : Tree) : List Bytes → List Bytes → Found
  | cur, [] => if t.isDir cur then .dir cur else if t.isFile cur then .file cur else .missing
  | cur, c :: rest =>
    if !t.isDir cur then .missing
    else if c.isEmpty || c == [46] then walk t cur rest
    else if c == [46, 46] then (if cur.isEmpty then .missing else walk t cur.dropLast rest)
    else walk t (cur ++ [c]) rest

/-- `os.Open(name)` + `Stat` for a name relative to the base directory -/
def osOpen (t : Tree) (name : Bytes) : Found := walk t [] (splitSlash name)

structure FsCfg where
  /-- `FS.Root` relative to the base directory (one name, no slash) -/
  root : Bytes
  indexNames : List Bytes
  genIndex : Bool

inductive Served where
  | file (p : List Bytes)        -- 200, the bytes of this file
  | listing (p : List Bytes)     -- 200, generated index of this directory
  | status (code : Nat)
deriving Repr, DecidableEq

/-- `openIndexFile(ctx, dirPath, false)` -/
def openIndex (t : Tree) (cfg : FsCfg) (dirPath : Bytes) : List Bytes → Served
  | [] =>
    if cfg.genIndex then
      match osOpen t dirPath with
      | .dir d => .listing d
      | _ => .status 403
    else .status 403
  | name :: rest =>
    match osOpen t (dirPath ++ 47 :: name) with
    | .file f => .file f
    | .dir _ => .status 403           -- errDirIndexRequired is not IsNotExist
    | .missing => openIndex t cfg dirPath rest

/-- the rest of `handleRequest` for `os.Open(root + p)` (no compression, no range, cold or warm cache) -/
def openServe (t : Tree) (cfg : FsCfg) (p : Bytes) : Served :=
  let filePath := cfg.root ++ p
  match osOpen t filePath with
  | .file f => .file f
  | .dir _ => openIndex t cfg filePath cfg.indexNames
  | .missing => .status 404

/-- one request through `fsHandler.handleRequest`; `none` = panic -/
def serve (t : Tree) (cfg : FsCfg) (rw : Rewriter) (u : URI) : Option (Served × URI) :=
  (decision rw u).map (fun (d, u') =>
    match d with
    | .badRequest => (.status 400, u')
    | .guard => (.status 500, u')
    | .openPath p => (openServe t cfg p, u'))

/-! ### the tree the correspondence check builds on disk (`harness/c07fs.go` emits the same lists) -/

def bs (s : String) : Bytes := s.toUTF8.toList

def pathOf (s : String) : List Bytes := if s.isEmpty then [] else splitSlash (bs s)

def testDirs : List String :=
  ["a", "root", "root/a", "root/a/a", "root/h.com", "root/invalid-host", "root/...", "root/%2e%2e", "root/a.", "root/..a"]

/-- every directory (the base included) also holds a marker file `id-<path with ~ for />` -/
def markerOf (d : String) : String := (if d.isEmpty then "" else d ++ "/") ++ "id-" ++ d.replace "/" "~"

def testFiles : List String :=
  ["index.html", "f", "rootx", "a/index.html", "a/f", "root/index.html", "root/f", "root/a/index.html", "root/a/f",
   "root/a/a/f", "root/h.com/f", "root/invalid-host/index.html", "root/.../index.html", "root/.../f",
   "root/%2e%2e/f", "root/a./f", "root/..a/index.html"] ++ ("" :: testDirs).map markerOf

def testTree : Tree := { dirs := testDirs.map pathOf, files := testFiles.map pathOf }

def testRoot : Bytes := bs "root"

end Hertz.FsPath
