import Hertz.Model.NoFaultPath
import Hertz.Model.Http1.ReqHead
import Hertz.Model.Fs
/-!
Checked re-statement (see `Model/NoFault.lean`) of `utils.NextLine` (`b[n-1]`, `b[:n]`, `b[nNext+1:]`) and of the request
line parser `http1/req/header.go:parseFirstLine` (`b[:n]`, `b[n+1:]`, `b[n+1:]` after `LastIndexByte`, `b[:n]`).
Result of the parser: `(method, requestURI, isHTTP11, bytes consumed)` or the Go error class.
-/
namespace Hertz.NF
open Hertz Hertz.Gen.Str

/-- `utils.NextLine(b)`: inner `none` = `errNeedMore` -/
def nextLine (b : Bytes) : Option (Option (Bytes × Bytes)) :=
  let nNext := indexByte 10 b
  if nNext < 0 then some none else
  (if nNext > 0 then (ix b (nNext - 1)).bind fun c => some (if c = 13 then nNext - 1 else nNext) else some nNext).bind fun n =>
  (slTo b n).bind fun line => (slFrom b (nNext + 1)).bind fun rest => some (some (line, rest))

/-- `for len(b) == 0 { b, bNext, err = utils.NextLine(bNext) }` -/
def firstLineLoop : Nat → Bytes → Option (Option (Bytes × Bytes))
  | 0, _ => none
  | f + 1, bNext =>
    (nextLine bNext).bind fun r =>
    match r with
    | none => some none
    | some lr => if len lr.1 = 0 then firstLineLoop f lr.2 else some (some lr)

/-- `parseFirstLine(h, buf)` -/
def parseFirstLine (buf : Bytes) : Option (Except H1.HeadErr (Bytes × Bytes × Bool × Nat)) :=
  (firstLineLoop (buf.length + 1) buf).bind fun r =>
  match r with
  | none => some (.error .needMore)
  | some lr =>
    let b := lr.1
    let consumed := (len buf - len lr.2).toNat
    let n := indexByte 32 b
    if n ≤ 0 then some (.error .bad) else
    (slTo b n).bind fun method => (slFrom b (n + 1)).bind fun b =>
    let m := lastIndexByte 32 b
    if m < 0 then (slTo b (len b)).bind fun uri => some (.ok (method, uri, false, consumed))
    else if m = 0 then some (.error .bad)
    else (slFrom b (m + 1)).bind fun proto => (slTo b m).bind fun uri =>
      some (.ok (method, uri, proto == strHTTP11, consumed))

/-- `http1/resp/header.go:parseFirstLine(h, buf)`: `b[:n]`, `b[n+1:]`, `ParseUintBuf`, `b[n]` behind `len(b) > n`;
result `(status, isHTTP11, bytes consumed)` -/
def parseStatusLine (buf : Bytes) : Option (Except H1.HeadErr (Int × Bool × Nat)) :=
  (firstLineLoop (buf.length + 1) buf).bind fun r =>
  match r with
  | none => some (.error .needMore)
  | some lr =>
    let b := lr.1
    let consumed := (len buf - len lr.2).toNat
    let n := indexByte 32 b
    if n < 0 then some (.error .bad) else
    (slTo b n).bind fun proto => (slFrom b (n + 1)).bind fun b =>
    let r := FS.parseUintBuf b
    if r.2.2.isSome then some (.error .bad) else
    if len b > (r.2.1 : Int) then
      (ix b (r.2.1 : Int)).bind fun c => if c ≠ 32 then some (.error .bad) else some (.ok (r.1, proto == strHTTP11, consumed))
    else some (.ok (r.1, proto == strHTTP11, consumed))

end Hertz.NF
