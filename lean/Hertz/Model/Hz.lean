import Hertz.Basic
/-!
Model of the router part of the `hz` code generator (module `cmd/hz`), function by function:

* `util/data.go`      : `ToVarName` (with `url.PathEscape`), `ToGoFuncName`, `getUniqueName`
* `generator/router.go`: `RouterNode.Update / FindNearest / Insert`, `childrenRouterInfo.Less` + `sort.Sort`,
                         `DyeGroupName` (DFS hook with the `groups` stack), the snake-style pass of `genRouter`
                         (`appendMw`), the middleware list of `updateMiddlewareReg`
* `generator/package_tpl.go`: the *denotation* of the `router.go` template (`G`/`g` definitions) as a list of
                         abstract statements and of the `middleware.go` template (`M`) as a list of function names.

Strings are byte lists.  The model is exact for ASCII input (`unicode.IsLetter/IsDigit` in
`removeNonLetterPrefix` are modelled on ASCII only).  `sort.Sort` is Go's insertion sort, which is what
`sort.Sort` runs for at most 12 elements; the theorems about the route set hold for *any* sorting function
that permutes its input (`Proofs/Hz.lean`), so they do not depend on this.
-/
namespace Hertz.Hz

/-! ## small string helpers -/

def sl : UInt8 := 47   -- '/'
def us : UInt8 := 95   -- '_'

def isDigit (c : UInt8) : Bool := 48 ≤ c && c ≤ 57
def isLower (c : UInt8) : Bool := 97 ≤ c && c ≤ 122
def isUpper (c : UInt8) : Bool := 65 ≤ c && c ≤ 90
def isAlnum (c : UInt8) : Bool := isDigit c || isLower c || isUpper c

def toLower (b : Bytes) : Bytes := b.map (fun c => if isUpper c then c + 32 else c)

/-- Go's `<` on strings (byte-wise lexicographic). -/
def bytesLt : Bytes → Bytes → Bool
  | [], [] => false
  | [], _ :: _ => true
  | _ :: _, [] => false
  | a :: s, b :: t => if a < b then true else if b < a then false else bytesLt s t

/-- `strings.Split(s, "/")` -/
def splitSlash : Bytes → List Bytes
  | [] => [[]]
  | c :: t =>
    if c = sl then [] :: splitSlash t
    else match splitSlash t with
      | h :: r => (c :: h) :: r
      | [] => [[c]]

/-- `strings.Join(l, sep)` -/
def joinWith (sep : Bytes) : List Bytes → Bytes
  | [] => []
  | [a] => a
  | a :: b :: r => a ++ sep ++ joinWith sep (b :: r)

/-- decimal digits of `n`, least significant first (`fuel` ≥ number of digits) -/
def decRev : Nat → Nat → Bytes
  | 0, _ => []
  | fuel + 1, n => (48 + (n % 10).toUInt8) :: (if n / 10 = 0 then [] else decRev fuel (n / 10))

/-- `strconv.Itoa(n)` / `fmt.Sprintf("%d", n)` for `n ≥ 0` -/
def itoa (n : Nat) : Bytes := (decRev (n + 1) n).reverse

def upperHex (n : UInt8) : UInt8 := if n < 10 then 48 + n else 55 + n

/-- `url.shouldEscape(c, encodePathSegment)` -/
def shouldEscapeSeg (c : UInt8) : Bool :=
  if isAlnum c then false
  else if c = 45 || c = 95 || c = 46 || c = 126 then false            -- - _ . ~
  else if c = 36 || c = 38 || c = 43 || c = 58 || c = 61 || c = 64 then false   -- $ & + : = @
  else true                                                          -- incl. , / ; ?

/-- `url.PathEscape` -/
def pathEscape : Bytes → Bytes
  | [] => []
  | c :: t => if shouldEscapeSeg c then 37 :: upperHex (c >>> 4) :: upperHex (c &&& 15) :: pathEscape t
              else c :: pathEscape t

/-- loop of `util.ToVarName`; `first` says whether the byte is at index 0 of the escaped input -/
def varNameLoop : Bool → Bytes → Bytes
  | _, [] => []
  | first, c :: t =>
    if c = 58 || c = 42 then varNameLoop false t
    else if (isDigit c && !first) || isLower c || isUpper c || c = us then c :: varNameLoop false t
    else us :: varNameLoop false t

/-- `util.ToVarName(paths)` -/
def toVarName (paths : List Bytes) : Bytes := varNameLoop true (pathEscape (joinWith [us, us] paths))

/-- `util.ToGoFuncName` -/
def toGoFuncName (s : Bytes) : Bytes := s.map (fun c => if isAlnum c || c = us then c else us)

/-- `convertToMiddlewareName` -/
def convertToMiddlewareName (p : Bytes) : Bytes := toLower (toVarName [p])

def dropNonAlnum : Bytes → Bytes
  | [] => []
  | c :: t => if isAlnum c then c :: t else dropNonAlnum t

/-- ASCII model of `removeNonLetterPrefix`: the suffix starting at the first letter or digit; the string
itself if there is none -/
def removeNonLetterPrefix (s : Bytes) : Bytes :=
  if s.any isAlnum then dropNonAlnum s else s

/-- the part after the last `.` (`RawHandlerName`) -/
def afterLastDot (b : Bytes) : Bytes :=
  let rec go : Bytes → Bytes → Bytes
    | acc, [] => acc
    | acc, c :: t => if c = 46 then go t t else go acc t
  go b b

/-- last element of `strings.Split(p, "/")` (`filepath.Base` on a clean path) -/
def baseName (p : Bytes) : Bytes := (splitSlash p).getLast?.getD []

/-! ## `getUniqueName` -/

inductive Err where
  | emptyPath            -- "empty path for method"
  | registered           -- "path has been registered"
  | unique               -- getUniqueName gave up after 10000 tries
  | panicIndex           -- an index expression of the Go code would panic
  | loop                 -- a loop of the Go code would not terminate within the model's fuel
  deriving DecidableEq, Repr

/-- the `for i := 0; i < 10000; i++` probe of `getUniqueName`; `none` = all candidates taken -/
def probeName (name : Bytes) (used : List Bytes) : Nat → Nat → Option Bytes
  | 0, _ => none
  | fuel + 1, i => if used.contains (name ++ itoa i) then probeName name used fuel (i + 1) else some (name ++ itoa i)

/-- `for i := 0; i < 10000; i++` -/
def probeLimit : Nat := 10000

/-- `getUniqueName(name, set)`: the chosen name and the new set -/
def getUniqueName (name : Bytes) (used : List Bytes) : Except Err (Bytes × List Bytes) :=
  if used.contains name then
    match probeName name used probeLimit 0 with
    | some u => .ok (u, u :: used)
    | none => .error .unique
  else .ok (name, name :: used)

/-! ## the tree -/

structure Method where
  verb : Bytes
  path : Bytes
  name : Bytes
  outDir : Bytes := []
  deriving DecidableEq, Repr

/-- fields of `RouterNode` other than `Children` / `Parent` -/
structure Info where
  path : Bytes
  httpMethod : Bytes := []
  handler : Bytes := []
  handlerPackage : Bytes := []
  handlerAlias : Bytes := []
  groupName : Bytes := []
  middleWare : Bytes := []
  handlerMw : Bytes := []
  groupMw : Bytes := []
  pathPrefix : Bytes := []
  deriving DecidableEq, Repr, Inhabited

inductive Node where
  | mk (info : Info) (children : List Node)
  deriving Repr, Inhabited

namespace Node
def info : Node → Info | .mk i _ => i
def children : Node → List Node | .mk _ c => c
end Node

def rootName : Bytes := [114, 111, 111, 116]  -- "root"

/-- `NewRouterTree()` -/
def newRouterTree : Node :=
  .mk { path := [sl], groupName := rootName, middleWare := rootName, groupMw := rootName } []

/-- `getHttpMethod` -/
def getHttpMethod (m : Bytes) : Bytes :=
  if toLower m = [97, 110, 121] then [65, 110, 121] else m.map (fun c => if isLower c then c - 32 else c)

/-! ### sorting: `childrenRouterInfo.Less` and `sort.Sort` (insertion sort) -/

def less (a b : Node) : Bool :=
  let ma := a.info.httpMethod
  let mb := b.info.httpMethod
  if ma.isEmpty && !mb.isEmpty then false
  else if !ma.isEmpty && mb.isEmpty then true
  else
    let ci := removeNonLetterPrefix a.info.path
    let cj := removeNonLetterPrefix b.info.path
    if ci = cj then bytesLt ma mb else bytesLt ci cj

/-- inner loop of `insertionSort`: `x` is moved left while `less x pred`; `revPrefix` is the already
sorted prefix in reverse order -/
def sinkLeft (x : Node) : List Node → List Node
  | [] => [x]
  | p :: r => if less x p then p :: sinkLeft x r else x :: p :: r

def insertionSortAux : List Node → List Node → List Node
  | revSorted, [] => revSorted.reverse
  | revSorted, x :: t => insertionSortAux (sinkLeft x revSorted) t

/-- `sort.Sort(children)` for `len ≤ 12` -/
def goSort (l : List Node) : List Node := insertionSortAux [] l

/-! ### `FindNearest` -/

/-- first child `c` with `"/"+seg == c.Path` (and, with sort-router, no HTTP method), with its index -/
def firstMatch (sortRouter : Bool) (seg : Bytes) : List Node → Nat → Option (Nat × Node)
  | [], _ => none
  | c :: r, k =>
    if c.info.path = sl :: seg && !(sortRouter && !c.info.httpMethod.isEmpty) then some (k, c)
    else firstMatch sortRouter seg r (k + 1)

/-- `FindNearest(paths, method, sortRouter)`: the address of the returned node (child indices from the
receiver) and the number of path elements consumed (`last`).  `paths = []` is `paths[0]` panicking. -/
def findNearest (sortRouter : Bool) : Node → List Bytes → Except Err (List Nat × Nat)
  | _, [] => .error .panicIndex
  | .mk _ cs, p :: rest =>
    match firstMatch sortRouter p cs 0 with
    | none => .ok ([], 0)
    | some (k, c) =>
      match rest with
      | [] => .ok ([], 0)        -- `i == ns`: `return cur, i - 1`
      | q :: rest' =>
        match findNearest sortRouter c (q :: rest') with
        | .ok (a, n) => .ok (k :: a, n + 1)
        | .error e => .error e

/-! ### `Insert` -/

/-- state of the package-level maps used by `Insert` (handler-by-method) -/
structure PkgSt where
  pkgMap : List (Bytes × Bytes) := []     -- handlerPkgMap
  aliasUsed : List Bytes := []            -- util.uniqueHandlerPackageName
  deriving Repr

structure Cfg where
  sortRouter : Bool := false
  snake : Bool := false
  byMethod : Bool := false
  /-- `handler.PackageName` / `RefPackageAlias` and `RefPackage` in handler-by-service mode -/
  svcAlias : Bytes := [112]                                   -- "p"
  svcPkg : Bytes := []
  /-- `ProjPackage + "/" + HandlerDir` (handler-by-method: the directory `OutputDir` is joined to) -/
  handlerBase : Bytes := []
  deriving Repr

/-- handler-by-method: `SubPackage(ProjPackage, filepath.Join(handlerDir, m.OutputDir))` for a clean `OutputDir` -/
def singleHandlerPackage (cfg : Cfg) (m : Method) : Bytes :=
  if m.outDir.isEmpty then cfg.handlerBase else cfg.handlerBase ++ [sl] ++ m.outDir

/-- package alias, package and new package-level state computed in the `i == len(paths)-1` branch of `Insert` -/
def leafAlias (cfg : Cfg) (m : Method) (st : PkgSt) : Bytes × Bytes × PkgSt :=
  if cfg.byMethod && !(singleHandlerPackage cfg m).isEmpty then
    let pkg := singleHandlerPackage cfg m
    let alias0 := toVarName [baseName pkg]
    match st.pkgMap.lookup pkg with
    | some a => (a, pkg, st)
    | none =>
      -- `pkgAlias, _ = util.GetHandlerPackageUniqueName(pkgAlias)`: the error is dropped, the name is then ""
      match getUniqueName alias0 st.aliasUsed with
      | .ok (a, used) => (a, pkg, { pkgMap := (pkg, a) :: st.pkgMap, aliasUsed := used })
      | .error _ => ([], pkg, { pkgMap := (pkg, []) :: st.pkgMap, aliasUsed := st.aliasUsed })
  else
    -- handler by service: `method.RefPackage` / `RefPackageAlias` were set by genHandler
    (cfg.svcAlias, cfg.svcPkg, st)

/-- the leaf node's fields -/
def leafInfo (cfg : Cfg) (m : Method) (seg : Bytes) (st : PkgSt) : Info × PkgSt :=
  ({ path := sl :: seg, httpMethod := getHttpMethod m.verb, handler := (leafAlias cfg m st).1 ++ [46] ++ m.name,
     handlerPackage := (leafAlias cfg m st).2.1, handlerAlias := (leafAlias cfg m st).1 }, (leafAlias cfg m st).2.2)

/-- the chain of new nodes `Insert` hangs below the parent: one node per remaining path element, the last
one carrying the handler; `none` for an empty list (the loop body never runs) -/
def chain (leaf : Bytes → Info) : List Bytes → Option Node
  | [] => none
  | [p] => some (.mk (leaf p) [])
  | p :: q :: r =>
    match chain leaf (q :: r) with
    | some c => some (.mk { path := sl :: p } [c])
    | none => none

def modNth (f : Node → Node) : List Node → Nat → List Node
  | [], _ => []
  | c :: r, 0 => f c :: r
  | c :: r, k + 1 => c :: modNth f r k

/-- append `c` to the children of the node at address `addr` and sort them with `srt`
(`Insert` + `parent.Sort()`) -/
def insertAt (srt : List Node → List Node) (c : Node) : List Nat → Node → Node
  | [], .mk i cs => .mk i (srt (cs ++ [c]))
  | k :: a, .mk i cs => .mk i (modNth (insertAt srt c a) cs k)

/-- what `Insert` (with its `sort.Sort` per appended child) followed by `parent.Sort()` does to the
parent's children -/
def updSort (sortRouter : Bool) (l : List Node) : List Node :=
  if sortRouter then goSort (goSort l) else goSort l

/-- `RouterNode.Update` with an arbitrary sorting function -/
def updateWith (srt : List Node → List Node) (cfg : Cfg) (root : Node) (st : PkgSt) (m : Method) :
    Except Err (Node × PkgSt) :=
  if m.path.isEmpty then .error .emptyPath
  else
    let paths0 := splitSlash m.path
    let paths := match paths0 with
      | [] :: r => r
      | l => l
    match findNearest cfg.sortRouter root paths with
    | .error e => .error e
    | .ok (addr, last) =>
      if last = paths.length then .error .registered
      else
        let rest := paths.drop last
        let seg := rest.getLast?.getD []
        let (li, st') := leafInfo cfg m seg st
        match chain (fun _ => li) rest with
        | none => .ok (root, st)
        | some c => .ok (insertAt srt c addr root, st')

def update (cfg : Cfg) := updateWith (updSort cfg.sortRouter) cfg

/-- `processHandler`'s loop: `root.Update(m, …)` for every method, stopping at the first error -/
def buildWith (srt : List Node → List Node) (cfg : Cfg) : Node → PkgSt → List Method → Except Err (Node × PkgSt)
  | root, st, [] => .ok (root, st)
  | root, st, m :: ms =>
    match updateWith srt cfg root st m with
    | .error e => .error e
    | .ok (root', st') => buildWith srt cfg root' st' ms

def build (cfg : Cfg) (ms : List Method) : Except Err (Node × PkgSt) :=
  buildWith (updSort cfg.sortRouter) cfg newRouterTree {} ms

/-! ## `DyeGroupName` -/

structure DyeSt where
  groups : List Bytes
  used : List Bytes          -- util.uniqueMiddlewareName
  deriving Repr

def setNth (l : List Bytes) (k : Nat) (v : Bytes) : List Bytes :=
  match l, k with
  | [], _ => []
  | _ :: r, 0 => v :: r
  | a :: r, k + 1 => a :: setNth r k v

/-- the names the hook of `DyeGroupName` chooses for a node that has none yet:
(PathPrefix, MiddleWare, HandlerMiddleware, GroupMiddleware) and the new set of taken names
(`parentPrefix` = `node.Parent.PathPrefix`, `none` for the root) -/
def dyeNames (snake : Bool) (parentPrefix : Option Bytes) (i : Info) (hasChildren : Bool) (used : List Bytes) :
    Except Err ((Bytes × Bytes × Bytes × Bytes) × List Bytes) :=
  let pname0 := match i.path with
    | c :: d :: r => if c = sl then d :: r else c :: d :: r
    | p => p
  let prefix_ := (parentPrefix.getD []) ++ [us] ++ toGoFuncName pname0
  let raw := afterLastDot i.handler
  let isLeaf := !i.handler.isEmpty && !hasChildren
  let hm0 := if i.handler.isEmpty then [] else raw
  let pname1 := if isLeaf then hm0 else pname0
  let pname2 := convertToMiddlewareName pname1
  let hm1 := convertToMiddlewareName hm0
  let names : Except Err (Bytes × Bytes × List Bytes) :=
    if isLeaf then
      match getUniqueName pname2 used with
      | .ok (n, u) => .ok (n, n, u)
      | .error e => .error e
    else
      match getUniqueName pname2 used with
      | .error e => .error e
      | .ok (n, u) =>
        match getUniqueName hm1 u with
        | .error e => .error e
        | .ok (h, u') => .ok (n, h, u')
  match names with
  | .error e => .error e
  | .ok (pn, hn, used') =>
    let mw := us :: pn
    let hmw := if i.handler.isEmpty then i.handlerMw else if snake then us :: raw else us :: hn
    let gmw := if snake then prefix_ else mw
    .ok ((prefix_, mw, hmw, gmw), used')

/-- the hook of `DyeGroupName` on one node -/
def dyeHook (snake : Bool) (layer : Nat) (parentPrefix : Option Bytes) (i : Info) (hasChildren : Bool)
    (st : DyeSt) : Except Err (Info × DyeSt) :=
  match st.groups[layer]? with
  | none => .error .panicIndex
  | some gname =>
    match (if i.middleWare.isEmpty then dyeNames snake parentPrefix i hasChildren st.used
           else .ok ((i.pathPrefix, i.middleWare, i.handlerMw, i.groupMw), st.used)) with
    | .error e => .error e
    | .ok (nm, used') =>
      .ok ({ i with groupName := gname, pathPrefix := nm.1, middleWare := nm.2.1, handlerMw := nm.2.2.1,
                    groupMw := nm.2.2.2 },
           { groups := if layer + 1 ≥ st.groups.length then st.groups ++ [nm.2.1]
                       else setNth st.groups (layer + 1) nm.2.1,
             used := used' })

mutual
/-- `DFS(layer, hook)` with the hook of `DyeGroupName` -/
def dye (snake : Bool) : Nat → Option Bytes → Node → DyeSt → Except Err (Node × DyeSt)
  | layer, pp, .mk i cs, st =>
    match dyeHook snake layer pp i (!cs.isEmpty) st with
    | .error e => .error e
    | .ok (i', st') =>
      match dyeL snake (layer + 1) (some i'.pathPrefix) cs st' with
      | .error e => .error e
      | .ok (cs', st'') => .ok (.mk i' cs', st'')
def dyeL (snake : Bool) : Nat → Option Bytes → List Node → DyeSt → Except Err (List Node × DyeSt)
  | _, _, [], st => .ok ([], st)
  | layer, pp, c :: r, st =>
    match dye snake layer pp c st with
    | .error e => .error e
    | .ok (c', st') =>
      match dyeL snake layer pp r st' with
      | .error e => .error e
      | .ok (r', st'') => .ok (c' :: r', st'')
end

/-- `root.DyeGroupName(snake)` starting from the set `used` of names taken earlier in the process -/
def dyeGroupName (snake : Bool) (root : Node) (used : List Bytes) : Except Err (Node × List Bytes) :=
  match dye snake 0 none root { groups := [rootName], used := used } with
  | .error e => .error e
  | .ok (r, st) => .ok (r, st.used)

/-! ## the snake-style pass of `genRouter` -/

/-- `appendMw(mws, mw)`; the Go loop runs until the name is free, which takes at most `len(mws)+1` rounds -/
def appendMw : Nat → Nat → List Bytes → Bytes → Except Err (List Bytes × Bytes)
  | 0, _, _, _ => .error .loop
  | fuel + 1, i, mws, mw =>
    if mws.contains mw then appendMw fuel (i + 1) mws (mw ++ itoa i) else .ok (mws ++ [mw], mw)

/-- the hook of the snake-style pass on a node with children: the final (GroupMiddleware, HandlerMiddleware) -/
def snakeNames (i : Info) (mws : List Bytes) : Except Err (Bytes × Bytes × List Bytes) :=
  let r1 : Except Err (List Bytes × Bytes) :=
    if i.groupMw.isEmpty then .ok (mws, i.groupMw) else appendMw (mws.length + 1) 0 mws i.groupMw
  match r1 with
  | .error e => .error e
  | .ok (mws1, g) =>
    let r2 : Except Err (List Bytes × Bytes) :=
      if i.handlerMw.isEmpty then .ok (mws1, i.handlerMw) else appendMw (mws1.length + 1) 0 mws1 i.handlerMw
    match r2 with
    | .error e => .error e
    | .ok (mws2, h) => .ok (g, h, mws2)

mutual
def snakePass : Node → List Bytes → Except Err (Node × List Bytes)
  | .mk i cs, mws =>
    if cs.isEmpty then .ok (.mk i cs, mws)
    else
      match snakeNames i mws with
      | .error e => .error e
      | .ok (g, h, mws2) =>
        match snakePassL cs mws2 with
        | .error e => .error e
        | .ok (cs', mws3) => .ok (.mk { i with groupMw := g, handlerMw := h } cs', mws3)
def snakePassL : List Node → List Bytes → Except Err (List Node × List Bytes)
  | [], mws => .ok ([], mws)
  | c :: r, mws =>
    match snakePass c mws with
    | .error e => .error e
    | .ok (c', mws') =>
      match snakePassL r mws' with
      | .error e => .error e
      | .ok (r', mws'') => .ok (c' :: r', mws'')
end

/-! ## denotation of the templates -/

inductive Stmt where
  /-- `v := g.Group("path", mw()...)` -/
  | group (v g path mw : Bytes)
  /-- `g.VERB("path", append(mw(), handler)...)` -/
  | route (g verb path mw handler : Bytes)
  | open_
  | close
  deriving DecidableEq, Repr

def mwSuffix : Bytes := [77, 119]  -- "Mw"

mutual
/-- template `G` of router.go -/
def stmts : Node → List Stmt
  | .mk i cs =>
    (if i.handler.isEmpty then [] else [Stmt.route i.groupName i.httpMethod i.path (i.handlerMw ++ mwSuffix) i.handler])
    ++ (if cs.isEmpty then [] else
          [Stmt.group i.middleWare (if i.path = [sl] then [114] else i.groupName) i.path (i.groupMw ++ mwSuffix)])
    ++ stmtsL cs
def stmtsL : List Node → List Stmt
  | [] => []
  | .mk i cs :: r =>
    (if i.handler.isEmpty then [Stmt.open_] ++ stmts (.mk i cs) ++ [Stmt.close] else stmts (.mk i cs)) ++ stmtsL r
end

mutual
/-- template `M` of middleware.go: the declared function names, in order -/
def mwFuncs : Node → List Bytes
  | .mk i cs =>
    (if cs.isEmpty then [] else [i.groupMw ++ mwSuffix])
    ++ (if i.handler.isEmpty then [] else [i.handlerMw ++ mwSuffix])
    ++ mwFuncsL cs
def mwFuncsL : List Node → List Bytes
  | [] => []
  | c :: r => mwFuncs c ++ mwFuncsL r
end

mutual
/-- `middlewareList` of `updateMiddlewareReg` -/
def mwList : Node → List Bytes
  | .mk i cs =>
    (if !cs.isEmpty && !i.groupMw.isEmpty then [i.groupMw] else [])
    ++ (if i.handlerMw.isEmpty then [] else [i.handlerMw])
    ++ mwListL cs
def mwListL : List Node → List Bytes
  | [] => []
  | c :: r => mwList c ++ mwListL r
end

mutual
/-- `handlerMap` of `genRouter` in DFS order: (alias, package) -/
def handlerPkgs : Node → List (Bytes × Bytes)
  | .mk i cs => (if i.handlerPackage.isEmpty then [] else [(i.handlerAlias, i.handlerPackage)]) ++ handlerPkgsL cs
def handlerPkgsL : List Node → List (Bytes × Bytes)
  | [] => []
  | c :: r => handlerPkgs c ++ handlerPkgsL r
end

/-- Go map semantics + the template's sorted iteration: last binding per alias wins, keys ascending -/
def importMap (l : List (Bytes × Bytes)) : List (Bytes × Bytes) :=
  let ins (acc : List (Bytes × Bytes)) (kv : Bytes × Bytes) : List (Bytes × Bytes) :=
    let rec go : List (Bytes × Bytes) → List (Bytes × Bytes)
      | [] => [kv]
      | x :: r => if x.1 = kv.1 then kv :: r else if bytesLt kv.1 x.1 then kv :: x :: r else x :: go r
    go acc
  l.foldl ins []

/-- `bytes.Contains(file, " "+mw+suffix)` on a middleware.go rendered from the default templates: the
pattern can only match at the start of a declared function name -/
def mwDeclared (funcs : List Bytes) (pat : Bytes) : Bool := funcs.any (fun f => pat.isPrefixOf f)

/-- the append loop of `updateMiddlewareReg` on an existing middleware.go declaring `funcs` -/
def updateMwFile (snake : Bool) : List Bytes → List Bytes → List Bytes
  | funcs, [] => funcs
  | funcs, mw :: r =>
    let pat := mw ++ (if snake then [95, 109, 119] else mwSuffix)
    if mwDeclared funcs pat then updateMwFile snake funcs r
    else updateMwFile snake (funcs ++ [mw ++ mwSuffix]) r

/-! ## the whole generation step -/

structure Output where
  tree : Node
  stmts : List Stmt
  funcs : List Bytes
  imports : List (Bytes × Bytes)
  deriving Repr

/-- `genHandler`'s tree building + `genRouter`, for a router directory whose middleware.go declares
`existing` (`none`: no middleware.go yet) and a process in which `used` middleware names are taken -/
def generate (cfg : Cfg) (ms : List Method) (used : List Bytes) (existing : Option (List Bytes)) :
    Except Err Output :=
  match build cfg ms with
  | .error e => .error e
  | .ok (t, _) =>
    match dyeGroupName cfg.snake t used with
    | .error e => .error e
    | .ok (t1, _) =>
      let t2r : Except Err Node :=
        if cfg.snake then
          match snakePass t1 [] with
          | .error e => .error e
          | .ok (t2, _) => .ok t2
        else .ok t1
      match t2r with
      | .error e => .error e
      | .ok t2 =>
        let funcs := match existing with
          | none => mwFuncs t2
          | some fs => updateMwFile cfg.snake fs (mwList t2)
        let pk := handlerPkgs t2
        let imports := if pk.isEmpty then [(cfg.svcAlias, cfg.svcPkg)] else importMap pk
        .ok { tree := t2, stmts := stmts t2, funcs := funcs, imports := imports }

end Hertz.Hz
