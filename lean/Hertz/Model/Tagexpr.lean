import Hertz.Model.TagexprTree
/-!
# internal/tagexpr — lexer, operands, evaluation, validation verdict (C20)

Executable model of the rest of the expression engine, mirroring the Go code function by function:
`tagparser.go` (`trimLeftSpace`, `readPairedSymbol`), `spec_operand.go` (operand readers,
`getBoolAndSignOpposite`, `realValue`, `toFloat64`, `toString`), `spec_selector.go`
(`findSelector`), `spec_func.go` (`parseFuncSign`, `len`, `in`, `regexp`), `expr.go`
(`parseExprNode`, `parseOperand`, `parseOperator`, `parseExpr`), `spec_operator.go` (the `Run`
methods), `tagexpr.go` (`FakeBool`, value getters) and `validator.go` (the accept/reject rule).

Not proved, only compared with the real code by the correspondence check: float64 arithmetic
(`Float` is opaque to the kernel), `strconv.ParseFloat`/`fmt.Sprint` on the small values the
generator uses, and `regexp` on a small pattern subset (`Rx`).  Anything outside the modelled
subset is reported as `unsupported`, never guessed.
-/
namespace Hertz.Tagexpr

/-- Run-time values of the engine: `float64`, `string`, `bool`, `nil`, and slice-typed field values
(kept as the printed elements; only `len`, truthiness and comparability are observable). -/
inductive Val where
  | num (f : Float)
  | str (s : String)
  | bool (b : Bool)
  | nil
  | ints (l : List Int)
  | strs (l : List String)

structure Env where
  /-- name of the field carrying the tag (`$` without a field name) -/
  cur : String
  fields : List (String × Val)

inductive PErr where
  | syntax                 -- parseExpr returns an error
  | unsupported (what : String)
  | fuel
  | fault (f : Fault)

inductive EvalErr where
  | fault (f : Fault)
  | unsupported (what : String)

abbrev EvalM := Except EvalErr

/-- An operand node: its rendering for the shape comparison and its `Run` method. -/
structure Operand where
  shape : String
  run : Env → EvalM Val

abbrev Node := Tree Operand

/-! ## values -/

/-- `FakeBool` -/
def fakeBool : Val → Bool
  | .num f => f != 0
  | .str s => s != ""
  | .bool b => b
  | .nil => false
  | .ints _ => false     -- default branch: `vv.IsValid() || vv.IsZero()` ⇒ false for every valid value
  | .strs _ => false

/-- `realValue(v, boolOpposite, signOpposite)` (values are already normalised to float64/string) -/
def realValue (v : Val) (bo so : Option Bool) : Val :=
  match bo with
  | some b => .bool (if b then !fakeBool v else fakeBool v)
  | none =>
    match so, v with
    | some true, .num f => .num (-f)
    | _, v => v

def natToFloat (n : Nat) : Float := Float.ofNat n
def intToFloat (i : Int) : Float := if i < 0 then -(Float.ofNat i.natAbs) else Float.ofNat i.natAbs

def digitsVal (ds : List Char) : Nat := ds.foldl (fun n c => n * 10 + (c.toNat - 48)) 0

/-- decimal literal `[+-]?d*(.d*)?` (at least one digit) to float64, correctly rounded -/
def decToFloat (neg : Bool) (ip fp : List Char) : Float :=
  let f := Float.ofScientific (digitsVal (ip ++ fp)) true fp.length
  if neg then -f else f

/-- `strconv.ParseFloat(s, 64)`: decimal with optional fraction and exponent, `inf`/`infinity`
(signed) and `nan` (unsigned), case-insensitive; an underscore is a syntax error outside hex.
`none` = hexadecimal float (not modelled); `some none` = syntax error. -/
def parseFloat (s : String) : Option (Option Float) :=
  let cs := s.toList
  let (neg, signed, r) : Bool × Bool × List Char := match cs with
    | '-' :: r => (true, true, r)
    | '+' :: r => (false, true, r)
    | r => (false, false, r)
  let lw := r.map Char.toLower
  if lw == "inf".toList || lw == "infinity".toList then
    some (some (if neg then -(1.0 / 0.0) else (1.0 / 0.0)))
  else if !signed && lw == "nan".toList then some (some (0.0 / 0.0))
  else if lw.take 2 == ['0', 'x'] then none
  else
    let ip := r.takeWhile Char.isDigit
    let r1 := r.dropWhile Char.isDigit
    let (fp, r2) : List Char × List Char := match r1 with
      | '.' :: t => (t.takeWhile Char.isDigit, t.dropWhile Char.isDigit)
      | t => ([], t)
    if ip.isEmpty && fp.isEmpty then some none
    else
      match r2 with
      | [] => some (some (decToFloat neg ip fp))
      | e :: t =>
        if e == 'e' || e == 'E' then
          let (eneg, t) : Bool × List Char := match t with
            | '-' :: t => (true, t)
            | '+' :: t => (false, t)
            | t => (false, t)
          let ed := t.takeWhile Char.isDigit
          if ed.isEmpty || !(t.dropWhile Char.isDigit).isEmpty then some none
          else if ed.length > 3 then none        -- range errors: not modelled
          else
            let m := digitsVal (ip ++ fp)
            let ex : Int := (if eneg then -(digitsVal ed : Int) else digitsVal ed) - fp.length
            let f := if ex < 0 then Float.ofScientific m true ex.natAbs else Float.ofScientific m false ex.natAbs
            if f.isInf then none else some (some (if neg then -f else f))
        else some none

def trimZeros (ds : List Char) : List Char := (ds.reverse.dropWhile (· == '0')).reverse

def pad4 (n : Nat) : List Char :=
  let ds := (toString n).toList
  List.replicate (4 - ds.length) '0' ++ ds

/-- `fmt.Sprint(float64)` (`%v` = shortest `%g`) on NaN, ±Inf and the values `k/10000`, `|v| < 1e6`,
for which the shortest representation is the plain decimal.  `none` = outside that subset. -/
def fmtFloat (f : Float) : Option String :=
  if f.isNaN then some "NaN"
  else if f.isInf then some (if f > 0 then "+Inf" else "-Inf")
  else
    let a := f.abs
    if a >= 1000000 then none
    else
      let k := (a * 10000).round.toUInt64.toNat
      if Float.ofScientific k true 4 != a then none
      else if k != 0 && k < 1 then none
      else
        let neg := f < 0 || (f == 0 && (1 / f) < 0)
        let ip := k / 10000
        let fp := trimZeros (pad4 (k % 10000))
        let body := toString ip ++ (if fp.isEmpty then "" else "." ++ String.ofList fp)
        some ((if neg then "-" else "") ++ body)

/-- `fmt.Sprint` of a value (for `toString(v, true)`) -/
def sprint : Val → Option String
  | .num f => fmtFloat f
  | .str s => some s
  | .bool b => some (if b then "true" else "false")
  | .nil => some "<nil>"
  | .ints l => some ("[" ++ " ".intercalate (l.map toString) ++ "]")
  | .strs l => some ("[" ++ " ".intercalate l ++ "]")

inductive Coerce (α : Type) where
  | ok (a : α)
  | no
  | unsupported

/-- `toString(i, enforce)` -/
def toStr (v : Val) (enforce : Bool) : Coerce String :=
  match v with
  | .str s => .ok s
  | .nil => .no
  | v => if enforce then (match sprint v with | some s => .ok s | none => .unsupported) else .no

/-- `toFloat64(i, tryParse)`; the float returned with `no` is what Go returns beside `ok = false` -/
def toF (v : Val) (tryParse : Bool) : Coerce Float :=
  match v with
  | .num f => .ok f
  | .nil => .no
  | .str s => if tryParse then (match parseFloat s with
      | none => .unsupported | some none => .no | some (some f) => .ok f) else .no
  | _ => .no

/-- amd64 `int64(float64)`: truncation; NaN and out-of-range give `math.MinInt64` -/
def toInt64 (f : Float) : Int :=
  if f.isNaN || f >= 9223372036854775808.0 || f < -9223372036854775808.0 then -9223372036854775808
  else
    let a := f.abs.floor.toUInt64.toNat
    if f < 0 then -(a : Int) else a

def coerceF (c : Coerce Float) (dflt : Float) : EvalM (Option Float) :=
  match c with
  | .ok f => pure (some f)
  | .no => pure none
  | .unsupported => let _ := dflt; throw (.unsupported "ParseFloat")

def coerceS (c : Coerce String) : EvalM (Option String) :=
  match c with
  | .ok f => pure (some f)
  | .no => pure none
  | .unsupported => throw (.unsupported "Sprint(float)")

/-- `interfaceEqual(a, b)` (utils.go): `a == b` on interfaces, except that two values of an
uncomparable dynamic type (the slice-typed field values) are reported as not equal; values of
different dynamic types are not equal. -/
def ifaceEq (a b : Val) : Bool :=
  match a, b with
  | .num x, .num y => x == y
  | .str x, .str y => x == y
  | .bool x, .bool y => x == y
  | .nil, .nil => true
  | _, _ => false

/-- `equalExprNode.Run` after both operands are evaluated -/
def opEq (v0 v1 : Val) : EvalM Bool := do
  if ifaceEq v0 v1 then return true
  match ← coerceF (toF v0 false) 0 with
  | some s0 =>
    match ← coerceF (toF v1 true) 0 with
    | some s1 => return s0 == s1
    | none => pure ()
  | none => pure ()
  match ← coerceS (toStr v0 false) with
  | some s0 =>
    match ← coerceS (toStr v1 true) with
    | some s1 => return s0 == s1
    | none => return false
  | none => pure ()
  return false   -- bool/bool and nil/nil were settled by `v0 == v1`

/-- the four ordering operators share one shape -/
def opCmp (fcmp : Float → Float → Bool) (scmp : String → String → Bool) (v0 v1 : Val) : EvalM Bool := do
  match ← coerceF (toF v0 false) 0 with
  | some s0 =>
    match ← coerceF (toF v1 true) 0 with
    | some s1 => return fcmp s0 s1
    | none => pure ()
  | none => pure ()
  match ← coerceS (toStr v0 false) with
  | some s0 =>
    match ← coerceS (toStr v1 true) with
    | some s1 => return scmp s0 s1
    | none => return false
  | none => pure ()
  return false

def numOr0 (c : Coerce Float) : EvalM Float :=
  match c with
  | .ok f => pure f
  | .no => pure 0
  | .unsupported => throw (.unsupported "ParseFloat")

/-- `Run` on an `ExprNode`.  Operand nodes carry their own `run`; a nil node is a method call on a
nil interface. -/
def evalTree (env : Env) : Node → EvalM Val
  | .nil => throw (.fault (.panic "nil.Run"))
  | .leaf o => o.run env
  | .node op l r =>
    match op with
    | .add => do
      let v0 ← evalTree env l
      let v1 ← evalTree env r
      match ← coerceF (toF v0 false) 0 with
      | some s0 => return .num (s0 + (← numOr0 (toF v1 true)))
      | none =>
        match ← coerceS (toStr v0 false) with
        | some s0 =>
          let s1 ← coerceS (toStr v1 true)
          return .str (s0 ++ s1.getD "")
        | none => return v0
    | .mul => do
      let v0 ← numOr0 (toF (← evalTree env l) true)
      let v1 ← numOr0 (toF (← evalTree env r) true)
      return .num (v0 * v1)
    | .sub => do
      let v0 ← numOr0 (toF (← evalTree env l) true)
      let v1 ← numOr0 (toF (← evalTree env r) true)
      return .num (v0 - v1)
    | .div => do
      let v1 ← numOr0 (toF (← evalTree env r) true)
      if v1 == 0 then return .num (0.0 / 0.0)
      let v0 ← numOr0 (toF (← evalTree env l) true)
      return .num (v0 / v1)
    | .rem => do
      let v1 ← numOr0 (toF (← evalTree env r) true)
      -- `if v1 == 0 || int64(v1) == 0 { return math.NaN() }`
      if v1 == 0 || toInt64 v1 == 0 then return .num (0.0 / 0.0)
      let v0 ← numOr0 (toF (← evalTree env l) true)
      return .num (intToFloat (Int.tmod (toInt64 v0) (toInt64 v1)))
    | .eq => do
      let v0 ← evalTree env l
      let v1 ← evalTree env r
      return .bool (← opEq v0 v1)
    | .ne => do
      let v0 ← evalTree env l
      let v1 ← evalTree env r
      return .bool (!(← opEq v0 v1))
    | .gt => do
      let v0 ← evalTree env l
      let v1 ← evalTree env r
      return .bool (← opCmp (· > ·) (· > ·) v0 v1)
    | .ge => do
      let v0 ← evalTree env l
      let v1 ← evalTree env r
      return .bool (← opCmp (· >= ·) (· >= ·) v0 v1)
    | .lt => do
      let v0 ← evalTree env l
      let v1 ← evalTree env r
      return .bool (← opCmp (· < ·) (· < ·) v0 v1)
    | .le => do
      let v0 ← evalTree env l
      let v1 ← evalTree env r
      return .bool (← opCmp (· <= ·) (· <= ·) v0 v1)
    | .and => do
      if !fakeBool (← evalTree env l) then return .bool false
      if !fakeBool (← evalTree env r) then return .bool false
      return .bool true
    | .or => do
      if fakeBool (← evalTree env l) then return .bool true
      if fakeBool (← evalTree env r) then return .bool true
      return .bool false


/-! ## lexer -/

/-- `unicode.IsSpace` on ASCII -/
def isSpace (c : Char) : Bool := c == ' ' || (9 ≤ c.toNat && c.toNat ≤ 13)

def trimLeft (s : List Char) : List Char := s.dropWhile isSpace

/-- loop of `readPairedSymbol`: `acc` is the text kept so far (reversed); an escaped delimiter
drops the backslash before it (`escapeIndexes[i-1]`) -/
def pairedLoop (left right : Char) : List Char → Char → Char → Nat → Nat → List Char → Option (List Char × List Char)
  | [], _, _, _, _, _ => none
  | r :: t, last1, last2, ll, rl, acc =>
    let real := last1 != '\\' || last2 == '\\'
    if r == right then
      if real then
        if ll == rl then some (acc.reverse, t)
        else pairedLoop left right t r last1 ll (rl + 1) (r :: acc)
      else pairedLoop left right t r last1 ll rl (r :: acc.tail)
    else if r == left then
      if real then pairedLoop left right t r last1 (ll + 1) rl (r :: acc)
      else pairedLoop left right t r last1 ll rl (r :: acc.tail)
    else pairedLoop left right t r last1 ll rl (r :: acc)

/-- `readPairedSymbol(p, left, right)`: the text between the delimiters and the rest -/
def readPaired (s : List Char) (left right : Char) : Option (List Char × List Char) :=
  match s with
  | c :: t => if c == left then pairedLoop left right t left (Char.ofNat 0) 0 0 [] else none
  | [] => none

/-- `getOpposite(expr, cutset)` for a one-character cutset -/
def getOpposite (s : List Char) (cut : Char) : List Char × Option Bool :=
  let last := s.dropWhile (· == cut)
  let n := s.length - last.length
  (last, if n == 0 then none else some (n % 2 == 1))

/-- `getBoolAndSignOpposite` -/
def getBoolSign (s : List Char) : List Char × Option Bool × Option Bool :=
  let (last, bo) := getOpposite s '!'
  let last := last.dropWhile (· == '+')
  let (last, so) := getOpposite last '-'
  (last.dropWhile (· == '+'), bo, so)

def inSet (set : String) (c : Char) : Bool := set.toList.contains c

def selDelims : String := ")[],+-*/%><|&!=^ \t\\"
def digDelims : String := ")],+-*/%><|&!=^ \t\\"
def wordDelims : String := ")],|&!= \t"

/-- `(delim|$)` at the head of the rest of the input -/
def atDelim (set : String) (s : List Char) : Bool :=
  match s with
  | [] => true
  | c :: _ => inSet set c

def isNameStart (c : Char) : Bool := c.isAlpha || c == '_'
def isNameChar (c : Char) : Bool := c.isAlphanum || c == '_' || c == '.'
def isIdentChar (c : Char) : Bool := c.isAlphanum || c == '_'

def startsWith (s : List Char) (p : String) : Bool := p.toList.isPrefixOf s

/-- `parseOperator` -/
def parseOperator (s : List Char) : Option (Op × List Char) :=
  match s with
  | a :: b :: t =>
    if a == '|' && b == '|' then some (.or, t)
    else if a == '&' && b == '&' then some (.and, t)
    else if a == '=' && b == '=' then some (.eq, t)
    else if a == '>' && b == '=' then some (.ge, t)
    else if a == '<' && b == '=' then some (.le, t)
    else if a == '!' && b == '=' then some (.ne, t)
    else if a == '+' then some (.add, b :: t)
    else if a == '-' then some (.sub, b :: t)
    else if a == '*' then some (.mul, b :: t)
    else if a == '/' then some (.div, b :: t)
    else if a == '%' then some (.rem, b :: t)
    else if a == '<' then some (.lt, b :: t)
    else if a == '>' then some (.gt, b :: t)
    else none
  | _ => none

/-! ### a small regular-expression subset for `regexp('…')` -/

inductive RxAtom where
  | any
  | set (neg : Bool) (ranges : List (Char × Char))

inductive RxQ where
  | one | star | plus | opt

structure Rx where
  bol : Bool
  items : List (RxAtom × RxQ)
  eol : Bool

def RxAtom.test (a : RxAtom) (c : Char) : Bool :=
  match a with
  | .any => c != '\n'
  | .set neg rs => (rs.any (fun r => r.1 ≤ c && c ≤ r.2)) != neg

def rxPlain (c : Char) : Bool := c.isAlphanum || c == ' ' || c == '_' || c == '-' || c == ',' || c == '@' || c == ':' || c == '/' || c == '#' || c == '=' || c == '!' || c == '<' || c == '>' || c == '%' || c == '&' || c == ';' || c == '~'

def rxClassBody : List Char → List (Char × Char) → Option (List (Char × Char) × List Char)
  | [], _ => none
  | ']' :: t, acc => some (acc.reverse, t)
  | a :: '-' :: b :: t, acc =>
    if b == ']' then (if rxPlain a || a == '.' then rxClassBody ('-' :: b :: t) ((a, a) :: acc) else none)
    else if (a.isAlphanum) && (b.isAlphanum) && a ≤ b then rxClassBody t ((a, b) :: acc) else none
  | a :: t, acc => if (rxPlain a || a == '.') && a != '-' || (a == '-' ) then rxClassBody t ((a, a) :: acc) else none

def rxQuant (s : List Char) : RxQ × List Char :=
  match s with
  | '*' :: t => (.star, t)
  | '+' :: t => (.plus, t)
  | '?' :: t => (.opt, t)
  | t => (.one, t)

/-- items up to the end; `none` = syntax outside the subset -/
def rxItems : Nat → List Char → List (RxAtom × RxQ) → Option (List (RxAtom × RxQ) × Bool)
  | 0, _, _ => none
  | _ + 1, [], acc => some (acc.reverse, false)
  | _ + 1, ['$'], acc => some (acc.reverse, true)
  | n + 1, c :: t, acc =>
    let atom : Option (RxAtom × List Char) :=
      if c == '.' then some (.any, t)
      else if c == '[' then
        (match t with
         | '^' :: t2 => (rxClassBody t2 []).bind (fun (rs, r) => if rs.isEmpty then none else some (.set true rs, r))
         | _ => (rxClassBody t []).bind (fun (rs, r) => if rs.isEmpty then none else some (.set false rs, r)))
      else if c == '\\' then
        (match t with
         | 'd' :: t2 => some (.set false [('0', '9')], t2)
         | 'w' :: t2 => some (.set false [('0', '9'), ('A', 'Z'), ('_', '_'), ('a', 'z')], t2)
         | '.' :: t2 => some (.set false [('.', '.')], t2)
         | _ => none)
      else if rxPlain c then some (.set false [(c, c)], t)
      else none
    match atom with
    | none => none
    | some (a, r) =>
      let (q, r2) := rxQuant r
      match r2 with
      | '*' :: _ | '+' :: _ | '?' :: _ => none     -- stacked / lazy quantifiers: outside the subset
      | _ => rxItems n r2 ((a, q) :: acc)

def rxParse (p : List Char) : Option Rx :=
  let (bol, r) := match p with
    | '^' :: r => (true, r)
    | r => (false, r)
  (rxItems (p.length + 1) r []).map (fun (items, eol) => { bol, items, eol })

def rxStar (p : Char → Bool) (k : List Char → Bool) : List Char → Bool
  | [] => k []
  | c :: cs => k (c :: cs) || (p c && rxStar p k cs)

def rxMatchItems : List (RxAtom × RxQ) → (List Char → Bool) → List Char → Bool
  | [], k, s => k s
  | (a, q) :: items, k, s =>
    let rest := rxMatchItems items k
    match q with
    | .one => (match s with | c :: cs => a.test c && rest cs | [] => false)
    | .opt => (match s with | c :: cs => (a.test c && rest cs) || rest s | [] => rest s)
    | .star => rxStar a.test rest s
    | .plus => (match s with | c :: cs => a.test c && rxStar a.test rest cs | [] => false)

def rxSearch (f : List Char → Bool) : List Char → Bool
  | [] => f []
  | c :: cs => f (c :: cs) || rxSearch f cs

/-- `re.MatchString(s)` -/
def Rx.matches (re : Rx) (s : String) : Bool :=
  let k : List Char → Bool := fun r => if re.eol then r.isEmpty else true
  if re.bol then rxMatchItems re.items k s.toList else rxSearch (rxMatchItems re.items k) s.toList

/-! ### operands -/

def shapeOf : Node → String
  | .nil => "~"
  | .leaf o => o.shape
  | .node op l r => "(" ++ shapeOf l ++ op.sym ++ shapeOf r ++ ")"

/-- `groupExprNode.Run`: a group with no right operand is nil whatever its prefix -/
def groupRun (sub : Node) (bo so : Option Bool) (env : Env) : EvalM Val :=
  match sub with
  | .nil => pure .nil
  | t => do return realValue (← evalTree env t) bo so

def groupNode (sub : Node) (bo so : Option Bool) : Operand :=
  { shape := "G[" ++ shapeOf sub ++ "]", run := groupRun sub bo so }

def lookupField (env : Env) (field : String) : Val :=
  match env.fields.find? (fun kv => kv.1 == (if field.isEmpty then env.cur else field)) with
  | some kv => kv.2
  | none => .nil

def selectorNode (field : String) (bo so : Option Bool) : Operand :=
  { shape := "$", run := fun env => pure (realValue (lookupField env field) bo so) }

inductive Sel where
  | found (field : String) (bo so : Option Bool) (rest : List Char)
  | notFound
  | unsupported

/-- `findSelector` (sub-selectors `$[…]` are outside the modelled subset) -/
def findSelector (s : List Char) : Sel :=
  let prefix_ := s.takeWhile (inSet "!+-")
  let r := s.dropWhile (inSet "!+-")
  let named : Option (String × List Char) :=
    match r with
    | '$' :: _ => some ("", r)
    | '(' :: r1 =>
      let r2 := r1.dropWhile (inSet " \t")
      (match r2 with
       | c :: _ =>
         if isNameStart c then
           let nm := r2.takeWhile isNameChar
           -- `[A-Za-z_]+[A-Za-z0-9_\.]*`: the whole run of name characters
           let r3 := (r2.dropWhile isNameChar).dropWhile (inSet " \t")
           (match r3 with
            | ')' :: r4 => some (String.ofList nm, r4)
            | _ => none)
         else none
       | [] => none)
    | _ => none
  match named with
  | none => .notFound
  | some (field, r) =>
    match r with
    | '$' :: rest =>
      if !atDelim selDelims rest then .notFound
      else
        match rest with
        | '[' :: _ => if (readPaired rest '[' ']').isSome then .unsupported else
            (let (_, bo, so) := getBoolSign prefix_; .found field (if prefix_.isEmpty then none else bo) (if prefix_.isEmpty then none else so) rest)
        | _ =>
          let (_, bo, so) := getBoolSign prefix_
          .found field (if prefix_.isEmpty then none else bo) (if prefix_.isEmpty then none else so) rest
    | _ => .notFound

/-- `digitalRegexp`: `^[\+\-]?\d+(\.\d+)?(delim|$)`; returns sign, digits, fraction digits, rest -/
def readDigits (s : List Char) : Option (Bool × List Char × List Char × List Char) :=
  let (neg, r) := match s with
    | '-' :: r => (true, r)
    | '+' :: r => (false, r)
    | r => (false, r)
  let ip := r.takeWhile Char.isDigit
  let r1 := r.dropWhile Char.isDigit
  if ip.isEmpty then none
  else
    match r1 with
    | '.' :: r2 =>
      let fp := r2.takeWhile Char.isDigit
      let r3 := r2.dropWhile Char.isDigit
      if !fp.isEmpty && atDelim digDelims r3 then some (neg, ip, fp, r3)
      else none     -- `1.` / `1.5x`: without the fraction the next character is `.`, not a delimiter
    | _ => if atDelim digDelims r1 then some (neg, ip, [], r1) else none

def constNode (shape : String) (v : Val) : Operand := { shape, run := fun _ => pure v }

def lenFn (args : List Val) : Val :=
  match args with
  | [.str s] => .num (natToFloat s.utf8ByteSize)
  | [.ints l] => .num (natToFloat l.length)
  | [.strs l] => .num (natToFloat l.length)
  | _ => .num 0

def inFn : List Val → Val
  | [] => .bool true
  | [_] => .bool false
  | elem :: set => .bool (set.any (fun e => ifaceEq elem e))

/-- the function body behind a `funcExprNode`: the built-ins `len` and `in`, and the two functions
the harness registers as scheduling points: `vdpt`, a validator function registered through
`ValidateConfig.MustRegValidateFunc` (it reports no error whatever its arguments are, which
`validator.RegFunc` turns into `true`), and `vdid`, registered with `tagexpr.RegFunc`, which returns
its first argument (nil without one). -/
def applyFn (name : String) (vs : List Val) : Val :=
  if name == "len" then lenFn vs else if name == "in" then inFn vs
  else if name == "vdid" then (match vs with | v :: _ => v | [] => .nil)
  else .bool true

def funcNode (name : String) (args : List Operand) (bo so : Option Bool) : Operand :=
  { shape := "F[" ++ ";".intercalate (args.map (·.shape)) ++ "]",
    run := fun env => do
      let vs ← args.mapM (fun a => a.run env)
      let r := applyFn name vs
      return realValue r bo so }

def regexpNode (re : Rx) (neg : Bool) (arg : Operand) : Operand :=
  { shape := "R[" ++ arg.shape ++ "]",
    run := fun env => do
      match ← arg.run env with
      | .str s => return .bool (re.matches s != neg)
      | _ => return .bool false }

def liftSort (t : Node) : Except PErr Node :=
  match Tree.sortPriority t with
  | .ok (some t') => .ok t'
  | .ok none => .error .fuel
  | .error f => .error (.fault f)

mutual
/-- `parseExprNode(expr, e)`; `cur` is the operator node `e` with its left operand (none: `e` is
the group holding the expression).  Returns the tree hanging under the holder and the unread rest. -/
def parseExprNode : Nat → List Char → Option (Op × Node) → Except PErr (Node × List Char)
  | 0, _, _ => .error .fuel
  | n + 1, s, cur =>
    let s := trimLeft s
    if s.isEmpty then
      .ok ((match cur with | none => .nil | some (op, l) => .node op l .nil), [])
    else
      match readOperand n s with
      | .error e => .error e
      | .ok (operand, s1) =>
        let s2 := trimLeft s1
        match parseOperator s2 with
        | none => .ok (Tree.close cur (.leaf operand), s2)
        | some (op, s3) => parseExprNode n s3 (some (op, Tree.close cur (.leaf operand)))

/-- the operand alternatives of `parseExprNode` and `parseOperand`, in source order -/
def readOperand : Nat → List Char → Except PErr (Operand × List Char)
  | 0, _ => .error .fuel
  | n + 1, s =>
    match findSelector s with
    | .unsupported => .error (.unsupported "sub-selector")
    | .found field bo so rest => .ok (selectorNode field bo so, rest)
    | .notFound =>
    if (s.dropWhile (inSet "!+-")).head? == some '#' then .error (.unsupported "range-kv") else
    let (last, bo, so) := getBoolSign s
    match readPaired last '(' ')' with
    | some (sub, rest) =>
      -- readGroupExprNode
      (match parseExprNode n sub none with
       | .error e => .error e
       | .ok (t, _) =>
         match liftSort t with
         | .error e => .error e
         | .ok t' => .ok (groupNode t' bo so, rest))
    | none =>
    -- parseOperand: registered functions first
    if startsWith s "sprintf(" || startsWith last "range(" || startsWith last "mblen(" then
      .error (.unsupported "func")
    else if startsWith last "regexp(" then
      (match readPaired (last.drop 6) '(' ')' with
       | none => .error (.unsupported "regexp-unbalanced")
       | some (sub, rest) =>
         match readPaired (trimLeft sub) '\'' '\'' with
         | none => .error (.unsupported "regexp-pattern")
         | some (pat, sub2) =>
           match rxParse pat with
           | none => .error (.unsupported "regexp-syntax")
           | some re =>
             let sub2 := trimLeft sub2
             let parsed : Except PErr (Node × List Char) :=
               match sub2 with
               | ',' :: sub3 => parseExprNode n (trimLeft sub3) none
               | _ => .ok (.leaf (selectorNode "" none none), sub2)
             match parsed with
             | .error .syntax => .error (.unsupported "regexp-arg")
             | .error e => .error e
             | .ok (t, sub4) =>
               if !(trimLeft sub4).isEmpty then .error (.unsupported "regexp-trailing")
               else
                 match liftSort t with
                 | .error e => .error e
                 | .ok t' => .ok (regexpNode re (bo == some true) (groupNode t' none none), rest))
    else if startsWith last "len(" || startsWith last "in(" || startsWith last "vdpt(" || startsWith last "vdid(" then
      let name := if startsWith last "len(" then "len" else if startsWith last "in(" then "in"
        else if startsWith last "vdpt(" then "vdpt" else "vdid"
      (match readPaired (last.drop name.length) '(' ')' with
       | none => .error (.unsupported "func-unbalanced")
       | some (sub, rest) =>
         match parseArgs n (',' :: sub) [] with
         | .error .syntax => .error (.unsupported "func-arg")
         | .error e => .error e
         | .ok args => .ok (funcNode name args bo so, rest))
    else
    -- readStringExprNode
    match readPaired last '\'' '\'' with
    | some (str, rest) => .ok (constNode "s" (realValue (.str (String.ofList str)) bo none), rest)
    | none =>
    -- readDigitalExprNode
    let (lastB, boB) := getOpposite s '!'
    match readDigits lastB with
    | some (neg, ip, fp, rest) => .ok (constNode "n" (realValue (.num (decToFloat neg ip fp)) boB none), rest)
    | none =>
    -- readBoolExprNode: `^!*(true|false)(delim|$)`
    if startsWith lastB "true" && atDelim wordDelims (lastB.drop 4) then
      .ok (constNode "b" (.bool ((s.length - lastB.length) % 2 == 0)), lastB.drop 4)
    else if startsWith lastB "false" && atDelim wordDelims (lastB.drop 5) then
      .ok (constNode "b" (.bool ((s.length - lastB.length) % 2 == 1)), lastB.drop 5)
    -- readNilExprNode
    else if startsWith lastB "nil" && atDelim wordDelims (lastB.drop 3) then
      .ok (constNode "z" (realValue .nil boB none), lastB.drop 3)
    -- readVariableExprNode: no environment is ever supplied by the validator, so the value is nil
    else
      match lastB with
      | c :: _ =>
        if isNameStart c && c != '.' then .ok (constNode "v" .nil, lastB.dropWhile isIdentChar)
        else .error .syntax
      | [] => .error .syntax

/-- the argument loop of `parseFuncSign`; the input starts with the `,` Go prepends -/
def parseArgs : Nat → List Char → List Operand → Except PErr (List Operand)
  | 0, _, _ => .error .fuel
  | n + 1, s, acc =>
    match s with
    | ',' :: s1 =>
      (match parseExprNode n (trimLeft s1) none with
       | .error e => .error e
       | .ok (t, s2) =>
         match liftSort t with
         | .error e => .error e
         | .ok t' =>
           let acc := groupNode t' none none :: acc
           let s3 := trimLeft s2
           if s3.isEmpty then .ok acc.reverse else parseArgs n s3 acc)
    | _ => .error (.unsupported "func-args")
end

/-- `parseExpr`: the sorted tree under the root group -/
def parseExpr (s : List Char) : Except PErr Node :=
  match parseExprNode (4 * s.length + 8) s none with
  | .error e => .error e
  | .ok (t, _) => liftSort t

inductive Verdict where
  | accept | reject | compileError | panic (site : String) | unsupported (what : String)

/-- what `Validator.Validate` makes of one `vd` expression: nil result or truthy ⇒ accepted -/
def validate (expr : List Char) (env : Env) : Verdict × Option Val :=
  match parseExpr expr with
  | .error .syntax => (.compileError, none)
  | .error (.unsupported w) => (.unsupported w, none)
  | .error .fuel => (.unsupported "fuel", none)
  | .error (.fault (.panic s)) => (.panic s, none)
  | .ok t =>
    match groupRun t none none env with
    | .error (.fault (.panic s)) => (.panic s, none)
    | .error (.unsupported w) => (.unsupported w, none)
    | .ok .nil => (.accept, some .nil)
    | .ok v => (if fakeBool v then .accept else .reject, some v)

end Hertz.Tagexpr
