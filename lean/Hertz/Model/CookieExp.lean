import Hertz.Model.Uri
import Hertz.Model.HttpDate
/-!
`pkg/protocol/cookie.go` with the `expires` attribute: `Cookie.AppendBytes` and `Cookie.ParseBytes` in full.
Extends `Model/Uri.lean` (`Cookie`, `appendCookie`, `parseCookie`, which leave `expires` out) without changing it.

What the Go code does with the expiry:
* `SetExpire(t)` stores the `time.Time` as it is (any location, any nanosecond).  `Expire()` returns it; a zero `Time`
  (`time.Time{}`, `= CookieExpireUnlimited`) means "no expiry".  `Reset` sets it to the zero `Time`.
* `AppendBytes` writes `; max-age=N` when `maxAge > 0` and ONLY OTHERWISE, when `!expire.IsZero()`,
  `; expires=` + `AppendHTTPDate(expire)` (`expire.UTC()` formatted to whole seconds).  So a positive max-age suppresses
  the expiry ("takes precedence", documented at `SetMaxAge`), and location and sub-second part are not written.
* `ParseBytes` on `expires=v`: `time.ParseInLocation(time.RFC1123, v, time.UTC)`, on error
  `time.Parse("Mon, 02-Jan-2006 15:04:05 MST", v)`, on error again the whole `ParseBytes` fails.

Only the INSTANT of a `time.Time` is modelled (`Instant`: Unix seconds, nanoseconds): the location cannot survive
(`AppendHTTPDate` converts to UTC; the parsed time carries a fabricated zone named `GMT`).
-/
namespace Hertz.Uri
open Hertz Hertz.Gen.Str Hertz.HttpDate

/-- the instant a `time.Time` denotes -/
structure Instant where
  sec : Int
  nsec : Nat
deriving DecidableEq, Repr

/-- `time.Time{}`: January 1, year 1, 00:00:00.000000000 UTC -/
def zeroInstant : Instant := ⟨-62135596800, 0⟩

/-- `Time.IsZero` -/
def Instant.isZero (i : Instant) : Bool := i == zeroInstant

/-- a response cookie with all ten attributes -/
structure CookieE where
  c : Cookie := {}
  expire : Instant := zeroInstant
deriving DecidableEq, Repr

/-- `Cookie.AppendBytes(nil)` -/
def appendCookieE (x : CookieE) : Bytes :=
  let c := x.c
  (if c.key.isEmpty then [] else c.key ++ [61]) ++ c.value ++
  (if c.maxAge > 0 then [59, 32] ++ strCookieMaxAge ++ [61] ++ appendUintDec c.maxAge
   else if !x.expire.isZero then [59, 32] ++ strCookieExpires ++ [61] ++ formatHTTPDate x.expire.sec else []) ++
  (if c.domain.isEmpty then [] else [59, 32] ++ strCookieDomain ++ [61] ++ c.domain) ++
  (if c.path.isEmpty then [] else [59, 32] ++ strCookiePath ++ [61] ++ c.path) ++
  (if c.httpOnly then [59, 32] ++ strCookieHTTPOnly else []) ++
  (if c.secure then [59, 32] ++ strCookieSecure else []) ++
  (match c.sameSite with
   | .disabled => []
   | .default => [59, 32] ++ strCookieSameSite
   | .lax => [59, 32] ++ strCookieSameSite ++ [61] ++ strCookieSameSiteLax
   | .strict => [59, 32] ++ strCookieSameSite ++ [61] ++ strCookieSameSiteStrict
   | .none => [59, 32] ++ strCookieSameSite ++ [61] ++ strCookieSameSiteNone) ++
  (if c.partitioned then [59, 32] ++ strCookiePartitioned else [])

/-- the `case 'e'` test of `ParseBytes`: first byte `e`/`E` and the key equals `expires` ignoring case -/
def isExpiresKey (k : Bytes) : Bool :=
  match k with
  | k0 :: _ => (k0 ||| 0x20) == 101 && ciEq' strCookieExpires k
  | [] => false

/-- attribute step of `Cookie.ParseBytes`; `none` = `ParseBytes` returns an error (bad max-age, bad date) -/
def applyAttrE (x : CookieE) (kv : Bytes × Bytes) : Option CookieE :=
  if isExpiresKey kv.1 then (parseCookieDate kv.2).map (fun p => { x with expire := ⟨p.sec, p.nsec⟩ })
  else (applyAttr x.c kv).map (fun c => { x with c := c })

/-- `Cookie.ParseBytes` on a reset cookie; `none` = error -/
def parseCookieE (src : Bytes) : Option CookieE :=
  match cookieSegs src with
  | [] => none
  | first :: rest =>
    let (k, v) := cookieKV first
    rest.foldlM (fun x seg => applyAttrE x (cookieKV seg)) { c := { key := k, value := v } }

/-- what can come back: no expiry next to a positive max-age, whole seconds -/
def canonE (x : CookieE) : CookieE :=
  { x with expire := if x.c.maxAge > 0 then zeroInstant else ⟨x.expire.sec, 0⟩ }

end Hertz.Uri
