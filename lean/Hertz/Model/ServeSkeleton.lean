import Hertz.Model.Tracer
/-!
C19 — the tracer-relevant control-flow skeleton of `Server.Serve`, written out by hand as a tree
(`serveSk`) and pinned to the token list the translator `/verif/gen/c19.go` extracts from the Go source
(`Hertz.Gen.ServeSkeleton.tokens`) by `Props.C19.model_matches_gen`.  `iterPaths` enumerates every
control-flow path through one loop iteration (deferred function included when the path returns), with
the bookkeeping needed to say "every push has its pop" and "Start and Finish alternate".
-/
namespace Hertz.Tracer

inductive Cond where
  | enableTrace    -- `s.EnableTrace`
  | traceStarted   -- `traceStarted`
  | hasStack       -- `eventsToTrigger != nil`
  | other          -- anything else (opaque)
deriving DecidableEq, Repr

inductive RetK where
  | bare | nil | unexpectedEOF | shortConnection
deriving DecidableEq, Repr

inductive Atom where
  | doStart | doFinishErr | doFinishNil
  | record (e : Ev) | push (e : Ev) | pop | popAll
  | setStarted (b : Bool) | getStack
  | serveHTTP | reset | putCtx
  | ret (k : RetK)
deriving DecidableEq, Repr

/-- statement lists: `next` is the rest of the enclosing block -/
inductive Sk where
  | nil
  | atom (a : Atom) (next : Sk)
  | iff (c : Cond) (thn els : Sk) (next : Sk)
  | loop (body : Sk) (next : Sk)
  | defer (body : Sk) (next : Sk)
deriving Repr

def Cond.tok : Cond → String
  | .enableTrace => "if EnableTrace{"
  | .traceStarted => "if traceStarted{"
  | .hasStack => "if hasStack{"
  | .other => "if ?{"

def recordTok : Ev → String
  | .httpStart => "Record HTTPStart" | .httpFinish => "Record HTTPFinish"
  | .readHeaderStart => "Record ReadHeaderStart" | .readHeaderFinish => "Record ReadHeaderFinish"
  | .readBodyStart => "Record ReadBodyStart" | .readBodyFinish => "Record ReadBodyFinish"
  | .handleStart => "Record ServerHandleStart" | .handleFinish => "Record ServerHandleFinish"
  | .writeStart => "Record WriteStart" | .writeFinish => "Record WriteFinish"

def pushTok : Ev → String
  | .httpStart => "push HTTPStart" | .httpFinish => "push HTTPFinish"
  | .readHeaderStart => "push ReadHeaderStart" | .readHeaderFinish => "push ReadHeaderFinish"
  | .readBodyStart => "push ReadBodyStart" | .readBodyFinish => "push ReadBodyFinish"
  | .handleStart => "push ServerHandleStart" | .handleFinish => "push ServerHandleFinish"
  | .writeStart => "push WriteStart" | .writeFinish => "push WriteFinish"

def Atom.tok : Atom → String
  | .doStart => "DoStart" | .doFinishErr => "DoFinish err" | .doFinishNil => "DoFinish nil"
  | .record e => recordTok e | .push e => pushTok e | .pop => "pop" | .popAll => "popAll"
  | .setStarted true => "traceStarted=true" | .setStarted false => "traceStarted=false"
  | .getStack => "getStack"
  | .serveHTTP => "ServeHTTP" | .reset => "reset" | .putCtx => "putCtx"
  | .ret .bare => "return" | .ret .nil => "return nil"
  | .ret .unexpectedEOF => "return errUnexpectedEOF" | .ret .shortConnection => "return errShortConnection"

/-- the token list the translator prints for this tree -/
def Sk.flatten : Sk → List String
  | .nil => []
  | .atom a n => a.tok :: n.flatten
  | .iff c t e n => c.tok :: (t.flatten ++ "}else{" :: (e.flatten ++ "}" :: n.flatten))
  | .loop b n => "for{" :: (b.flatten ++ "}" :: n.flatten)
  | .defer b n => "defer{" :: (b.flatten ++ "}" :: n.flatten)

/-! ### the skeleton of `Server.Serve` -/

private abbrev ret (k : RetK) : Sk := .atom (.ret k) .nil
/-- `if cond { return }` -/
private abbrev ifRet (n : Sk) : Sk := .iff .other (ret .bare) .nil n
private abbrev ifTrace (t : Sk) (n : Sk) : Sk := .iff .enableTrace t .nil n
/-- `if shouldRecordInTraceError(err) { DoFinish(cc, ctx, err) } else { DoFinish(cc, ctx, nil) }` -/
private abbrev finishFiltered (n : Sk) : Sk := .iff .other (.atom .doFinishErr .nil) (.atom .doFinishNil .nil) n

/-- the deferred function -/
def deferSk : Sk :=
  ifTrace
    (.iff .hasStack (.atom .popAll .nil) .nil <|
     .iff .traceStarted (finishFiltered .nil) .nil .nil) <|
  ifRet <|                      -- if ctx.IsExiled() { return }
  .atom .putCtx .nil

/-- the body of the `for` loop -/
def bodySk : Sk :=
  -- if connRequestNum > 1 { …; if err != nil { err = errIdleTimeout; return } … }
  .iff .other (ifRet .nil) .nil <|
  ifTrace (.atom .doStart <| .atom (.setStarted true) <| .atom (.record .readHeaderStart) <|
           .atom (.push .readHeaderFinish) .nil) <|
  -- if err = req.ReadHeader(…); err == nil { if s.EnableTrace { … } … }
  .iff .other (ifTrace (.atom .pop <| .atom (.record .readBodyStart) <| .atom (.push .readBodyFinish) .nil) .nil) .nil <|
  ifTrace (.atom .pop .nil) <|
  -- if err != nil { if ErrNothingRead { return nil }; if io.EOF { return errUnexpectedEOF }; …; return }
  .iff .other (.iff .other (ret .nil) .nil <| .iff .other (ret .unexpectedEOF) .nil <| ret .bare) .nil <|
  -- if ctx.Request.MayContinue() { if continueReadingRequest { three error returns } }
  .iff .other (.iff .other (ifRet <| ifRet <| ifRet .nil) .nil .nil) .nil <|
  ifTrace (.atom (.record .handleStart) <| .atom (.push .handleFinish) .nil) <|
  .atom .serveHTTP <|
  ifTrace (.atom .pop .nil) <|
  ifTrace (.atom (.record .writeStart) <| .atom (.push .writeFinish) .nil) <|
  ifRet <|                      -- writeResponse fails
  ifRet <|                      -- Flush fails
  ifTrace (.atom .pop .nil) <|
  .iff .other (ifRet .nil) .nil <|          -- body stream release fails
  .iff .other (ifRet <| ret .bare) .nil <|  -- hijack
  .iff .other (ret .shortConnection) .nil <|
  ifRet <|                      -- s.IdleTimeout == 0
  ifTrace (finishFiltered <| .atom (.setStarted false) .nil) <|
  .atom .reset .nil

def serveSk : Sk :=
  ifTrace (.atom .getStack .nil) <| .defer deferSk <| .loop bodySk .nil

/-! ### paths -/

/-- bookkeeping along a path -/
structure PSt where
  /-- `eventsToTrigger` -/
  stack : List Ev := []
  /-- the variable `traceStarted` -/
  started : Bool := false
  hasStack : Bool := false
  /-- a `Start` has been delivered and its `Finish` not yet -/
  opened : Bool := false
  /-- discipline so far: no `Start` while one is open, no `Finish` without an open `Start`, push/pop only on
  an allocated stack, no pop from an empty stack -/
  ok : Bool := true
  /-- tracer-relevant actions so far (statuses erased) -/
  acts : List Act := []
deriving DecidableEq, Repr

def PSt.emit (s : PSt) (a : List Act) : PSt := { s with acts := s.acts ++ a }

def PSt.step (s : PSt) : Atom → PSt
  | .doStart => { s.emit [.record .httpStart false, .start] with ok := s.ok && !s.opened, opened := true }
  | .doFinishErr | .doFinishNil =>
    { s.emit [.record .httpFinish false, .finish] with ok := s.ok && s.opened, opened := false }
  | .record e => s.emit [.record e false]
  | .push e => { s with stack := e :: s.stack, ok := s.ok && s.hasStack }
  | .pop =>
    match s.stack with
    | [] => { s with ok := false }
    | e :: t => { s.emit [.record e false] with stack := t, ok := s.ok && s.hasStack }
  | .popAll => { s.emit (s.stack.map (fun e => .record e false)) with stack := [] }
  | .setStarted b => { s with started := b }
  | .getStack => { s with hasStack := true }
  | .serveHTTP => s.emit [.handle]
  | .reset | .putCtx => s.emit [.reset]
  | .ret _ => s

/-- all paths through a statement list; the flag says the path left through `return` (or, at `ServeHTTP`,
through an unwinding panic).  `en` fixes `s.EnableTrace` for the whole run; `traceStarted` and
`eventsToTrigger != nil` are read from the bookkeeping; opaque conditions fork. -/
def Sk.exec (en : Bool) : Sk → PSt → List (PSt × Bool)
  | .nil, s => [(s, false)]
  | .atom a n, s =>
    match a with
    | .ret _ => [(s, true)]
    | .serveHTTP => (s.step a, true) :: n.exec en (s.step a)
    | _ => n.exec en (s.step a)
  | .iff c t e n, s =>
    let bs := match c with
      | .enableTrace => if en then t.exec en s else e.exec en s
      | .traceStarted => if s.started then t.exec en s else e.exec en s
      | .hasStack => if s.hasStack then t.exec en s else e.exec en s
      | .other => t.exec en s ++ e.exec en s
    bs.flatMap (fun r => if r.2 then [r] else n.exec en r.1)
  | .loop b _, s => b.exec en s          -- one iteration; the caller closes the loop
  | .defer _ n, s => n.exec en s         -- registration only; the caller runs the body at exit

/-- state at the loop head (what the statements before the loop leave behind) -/
def headState (en : Bool) : PSt := { hasStack := en }

/-- every path through one loop iteration started at the loop head: those that fall through to the
loop end (`false`) and those that leave `Serve`, continued through the deferred function (`true`) -/
def iterPaths (en : Bool) : List (PSt × Bool) :=
  (serveSk.exec en {}).flatMap (fun r =>
    if r.2 then (deferSk.exec en r.1).map (fun d => (d.1, true)) else [r])

/-- what the functional model's action lists are compared with: statuses and `SetError` dropped -/
def eraseActs : List Act → List Act
  | [] => []
  | .record e _ :: t => .record e false :: eraseActs t
  | .setError :: t => eraseActs t
  | a :: t => a :: eraseActs t

end Hertz.Tracer
