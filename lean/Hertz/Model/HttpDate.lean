import Hertz.Basic
/-!
The RFC 1123 date codec as hertz uses it (`internal/bytesconv`: `AppendHTTPDate`, `ParseHTTPDate`; `pkg/protocol/cookie.go`:
the `expires` attribute).

hertz has no date code of its own: `AppendHTTPDate(dst, t) = t.UTC().AppendFormat(dst, "Mon, 02 Jan 2006 15:04:05 GMT")`,
`ParseHTTPDate(b) = time.Parse(time.RFC1123, b)`, and `Cookie.ParseBytes` calls `time.ParseInLocation(time.RFC1123, v, time.UTC)`
and, if that fails, `time.Parse("Mon, 02-Jan-2006 15:04:05 MST", v)`.  What is modelled here is therefore the behaviour of Go's
`time` package (go1.23 `src/time/format.go`) **on these three layouts** - TRUSTED stdlib, tied by the correspondence ops
`httpdatefmt` / `httpdateparse` against the real `time` package on every case:

* formatting: proleptic Gregorian civil date of `⌊t / 86400⌋` (`absDate`), weekday, English 3-letter names, `appendInt` with
  width 2 / 4 (a year above 9999 is written with all its digits, a negative year as `-` + at least four digits), literal `GMT`;
* parsing (`time.parse` walked along the layout): weekday name checked for syntax only (case-insensitively, never against the
  date), `", "` / `" "` separators match one or more blanks (or the end of the input), two-digit day / minute / second,
  ONE- or two-digit hour, exactly four year digits, an optional fractional second `[.,]d+` after the seconds although the
  layout has none (truncated to nanoseconds), a zone that is `UTC`, `GMT`, `GMT±h` (h ≤ 23), three upper-case letters, four or
  five ending in `T`, `WITA`, `ChST`, `MeST` or `±h`; nothing may follow; day within the month of that year.
* the zone: with `ParseInLocation(…, time.UTC)` (and with `time.Parse` when `time.Local` knows no zone of that abbreviation -
  the harness pins `time.Local = time.UTC`) an abbreviation is NOT applied to the instant: the civil time is read as UTC and
  only the location of the result is a fabricated zone (offset `±h` hours for `GMT±h`, else 0).

The calendar arithmetic (`civilFromDays`, `daysFromCivil`) is the classical 400/100/4/1-year decomposition on a March-based
year; it is not Go's code (`absDate` works on an unsigned absolute second count), only required to compute the same function.
Core Lean only.
-/
namespace Hertz.HttpDate
open Hertz

/-! ### calendar -/

/-- `time.isLeap` -/
def isLeap (y : Int) : Bool := y % 4 == 0 && (y % 100 != 0 || y % 400 == 0)

/-- `time.daysIn(m, year)` for `1 ≤ m ≤ 12` -/
def daysIn (m y : Int) : Int :=
  if m = 2 then (if isLeap y then 29 else 28)
  else if m = 4 ∨ m = 6 ∨ m = 9 ∨ m = 11 then 30 else 31

/-- civil date `(year, month 1..12, day 1..31)` of the day number `z` (days since 1970-01-01), any `z`. -/
def civilFromDays (z : Int) : Int × Int × Int :=
  let z' := z + 719468                     -- days since 0000-03-01
  let era := z' / 146097
  let doe := z' % 146097                   -- day of the 400-year era, 0..146096
  let n100 := min (doe / 36524) 3
  let r2 := doe - n100 * 36524
  let n4 := r2 / 1461
  let r3 := r2 % 1461
  let n1 := min (r3 / 365) 3
  let doy := r3 - n1 * 365                 -- day of the March-based year, 0..365
  let yoe := 100 * n100 + 4 * n4 + n1
  let mp := (5 * doy + 2) / 153            -- March = 0
  let d := doy - (153 * mp + 2) / 5 + 1
  let m := if mp < 10 then mp + 3 else mp - 9
  (yoe + era * 400 + (if m ≤ 2 then 1 else 0), m, d)

/-- day number of a civil date (`time.Date(y, m, d, 0, 0, 0, 0, UTC).Unix() / 86400` for a valid date) -/
def daysFromCivil (y m d : Int) : Int :=
  let y' := if m ≤ 2 then y - 1 else y
  let era := y' / 400
  let yoe := y' % 400
  let mp := if m > 2 then m - 3 else m + 9
  let doy := (153 * mp + 2) / 5 + d - 1
  let doe := yoe * 365 + yoe / 4 - yoe / 100 + doy
  era * 146097 + doe - 719468

/-- `Weekday` of the day number: 0 = Sunday (1970-01-01 was a Thursday) -/
def weekday (z : Int) : Nat := ((z + 4) % 7).toNat

/-! ### names and digits -/

/-- `shortDayNames` -/
def dayTab : List (UInt8 × UInt8 × UInt8) :=
  [(83, 117, 110), (77, 111, 110), (84, 117, 101), (87, 101, 100), (84, 104, 117), (70, 114, 105), (83, 97, 116)]

/-- `shortMonthNames` -/
def monthTab : List (UInt8 × UInt8 × UInt8) :=
  [(74, 97, 110), (70, 101, 98), (77, 97, 114), (65, 112, 114), (77, 97, 121), (74, 117, 110),
   (74, 117, 108), (65, 117, 103), (83, 101, 112), (79, 99, 116), (78, 111, 118), (68, 101, 99)]

def name3 (tab : List (UInt8 × UInt8 × UInt8)) (i : Nat) : Bytes :=
  match tab[i]? with
  | some (a, b, c) => [a, b, c]
  | none => [63, 63, 63]      -- not reached for a weekday / month number in range

def dig (d : Nat) : UInt8 := UInt8.ofNat (48 + d)

/-- `appendInt(b, n, 2)` for `0 ≤ n < 100` -/
def pad2 (n : Nat) : Bytes := [dig (n / 10 % 10), dig (n % 10)]

/-- `appendInt(b, n, 4)` for `0 ≤ n < 10000` -/
def pad4 (n : Nat) : Bytes := [dig (n / 1000 % 10), dig (n / 100 % 10), dig (n / 10 % 10), dig (n % 10)]

/-- decimal digits of `n` (fuel `n + 1` suffices) -/
def decDigits : Nat → Nat → Bytes
  | 0, _ => []
  | f + 1, n => if n < 10 then [dig n] else decDigits f (n / 10) ++ [dig (n % 10)]

/-- `appendInt(b, year, 4)`: sign, then at least four digits -/
def yearBytes (y : Int) : Bytes :=
  let u := y.natAbs
  (if y < 0 then [45] else []) ++ (if u < 10000 then pad4 u else decDigits (u + 1) u)

/-! ### formatting -/

/-- `bytesconv.AppendHTTPDate(nil, time.Unix(t, ns))` for any `ns` in `[0, 1e9)`: the fraction is not written. -/
def formatHTTPDate (t : Int) : Bytes :=
  let z := t / 86400
  let s := (t % 86400).toNat
  let c := civilFromDays z
  name3 dayTab (weekday z) ++ (44 :: 32 :: (pad2 c.2.2.toNat ++ (32 :: (name3 monthTab (c.2.1.toNat - 1) ++ (32 ::
    (yearBytes c.1 ++ (32 :: (pad2 (s / 3600) ++ (58 :: (pad2 (s % 3600 / 60) ++ (58 :: (pad2 (s % 60) ++
      [32, 71, 77, 84]))))))))))))

/-! ### parsing -/

/-- `time.match` on one byte pair: equal, or equal ASCII letters up to case -/
def foldEq (c1 c2 : UInt8) : Bool :=
  c1 == c2 || ((c1 ||| 32) == (c2 ||| 32) && 97 ≤ (c1 ||| 32) && (c1 ||| 32) ≤ 122)

/-- `time.lookup(tab, val)` on the first three bytes: index of the first entry that matches -/
def lookup3 (tab : List (UInt8 × UInt8 × UInt8)) (a b c : UInt8) : Option Nat :=
  tab.findIdx? (fun e => foldEq a e.1 && foldEq b e.2.1 && foldEq c e.2.2)

def isDig (c : UInt8) : Bool := 48 ≤ c && c ≤ 57
def dv (c : UInt8) : Nat := (c - 48).toNat

/-- `getnum(s, true)`: exactly two digits -/
def getnum2 : Bytes → Option (Nat × Bytes)
  | a :: b :: r => if isDig a && isDig b then some (dv a * 10 + dv b, r) else none
  | _ => none

/-- `getnum(s, false)`: one or two digits -/
def getnum12 : Bytes → Option (Nat × Bytes)
  | a :: b :: r => if !isDig a then none else if isDig b then some (dv a * 10 + dv b, r) else some (dv a, b :: r)
  | [a] => if isDig a then some (dv a, []) else none
  | [] => none

/-- `stdLongYear`: exactly four digits -/
def getYear4 : Bytes → Option (Nat × Bytes)
  | a :: b :: c :: d :: r =>
    if isDig a && isDig b && isDig c && isDig d then some (dv a * 1000 + dv b * 100 + dv c * 10 + dv d, r) else none
  | _ => none

/-- `skip(value, " ")`: one or more blanks, or the end of the input -/
def skipSp : Bytes → Option Bytes
  | [] => some []
  | c :: t => if c = 32 then some (t.dropWhile (· == 32)) else none

/-- `skip(value, lit)` for a one-byte literal -/
def skipLit (lit : UInt8) : Bytes → Option Bytes
  | c :: t => if c = lit then some t else none
  | [] => none

def natOfDigits (ds : Bytes) : Nat := ds.foldl (fun n c => n * 10 + dv c) 0

/-- the optional fractional second after `05`: `(nanoseconds, rest)` -/
def fracPart : Bytes → Nat × Bytes
  | c :: d :: r =>
    if (c == 46 || c == 44) && isDig d then
      let ds := (d :: r).takeWhile isDig
      let ds9 := ds.take 9
      (natOfDigits ds9 * 10 ^ (9 - ds9.length), (d :: r).dropWhile isDig)
    else (0, c :: d :: r)
  | s => (0, s)

/-- `parseSignedOffset`: length of `±digits` with value ≤ 23, else 0 -/
def signedOffsetLen : Bytes → Nat
  | c :: t =>
    if c = 43 ∨ c = 45 then
      let ds := t.takeWhile isDig
      if ds.isEmpty || natOfDigits ds > 23 then 0 else 1 + ds.length
    else 0
  | [] => 0

def isUpperB (c : UInt8) : Bool := 65 ≤ c && c ≤ 90

/-- `parseTimeZone`: length of the zone abbreviation at the start of `s` -/
def timeZoneLen (s : Bytes) : Option Nat :=
  if s.length < 3 then none
  else if s.take 4 = [67, 104, 83, 84] ∨ s.take 4 = [77, 101, 83, 84] then some 4          -- ChST, MeST
  else if s.take 3 = [71, 77, 84] then some (3 + signedOffsetLen (s.drop 3))                -- GMT, GMT+h
  else if s.head? = some 43 ∨ s.head? = some 45 then
    (if signedOffsetLen s > 0 then some (signedOffsetLen s) else none)
  else
    let n := ((s.take 6).takeWhile isUpperB).length
    if n = 3 then some 3
    else if n = 4 then (if s[3]? = some 84 ∨ s.take 4 = [87, 73, 84, 65] then some 4 else none)
    else if n = 5 then (if s[4]? = some 84 then some 5 else none)
    else none

/-- `atoi` of `+h` / `-h` -/
def signedVal : Bytes → Int
  | c :: t => if c = 45 then - (natOfDigits t : Int) else natOfDigits t
  | [] => 0

structure Parsed where
  /-- Unix seconds of the instant -/
  sec : Int
  nsec : Nat
  /-- name and offset (seconds east) of the location of the result, as `Time.Zone()` reports them -/
  zone : Bytes
  zoneOff : Int
deriving Repr, DecidableEq

/-- `(zone name, offset, rest)` of the `MST` element -/
def parseZone (s : Bytes) : Option (Bytes × Int × Bytes) :=
  if s.take 3 = [85, 84, 67] then some ([85, 84, 67], 0, s.drop 3)
  else match timeZoneLen s with
    | none => none
    | some n =>
      let name := s.take n
      let off : Int := if name.length > 3 ∧ name.take 3 = [71, 77, 84] then signedVal (name.drop 3) * 3600 else 0
      some (name, off, s.drop n)

/-- `time.ParseInLocation(layout, s, time.UTC)` for `layout = time.RFC1123` (`dash = false`) or
`"Mon, 02-Jan-2006 15:04:05 MST"` (`dash = true`); `none` = error. -/
def parseLayout (dash : Bool) (s : Bytes) : Option Parsed :=
  match s with
  | a :: b :: c :: s =>
    match lookup3 dayTab a b c with
    | none => none
    | some _ =>
    match (skipLit 44 s).bind skipSp with
    | none => none
    | some s =>
    match getnum2 s with
    | none => none
    | some (day, s) =>
    match (if dash then skipLit 45 s else skipSp s) with
    | none => none
    | some s =>
    match s with
    | ma :: mb :: mc :: s =>
      match lookup3 monthTab ma mb mc with
      | none => none
      | some mi =>
      match (if dash then skipLit 45 s else skipSp s) with
      | none => none
      | some s =>
      match getYear4 s with
      | none => none
      | some (year, s) =>
      match (skipSp s).bind getnum12 with
      | none => none
      | some (hour, s) =>
      match (skipLit 58 s).bind getnum2 with
      | none => none
      | some (mi', s) =>
      match (skipLit 58 s).bind getnum2 with
      | none => none
      | some (sec, s) =>
      if hour ≥ 24 ∨ mi' ≥ 60 ∨ sec ≥ 60 then none else
      let (nsec, s) := fracPart s
      match (skipSp s).bind parseZone with
      | none => none
      | some (zone, zoneOff, rest) =>
        if !rest.isEmpty then none
        else if day < 1 ∨ (day : Int) > daysIn (mi + 1 : Nat) year then none
        else some { sec := daysFromCivil year (mi + 1 : Nat) day * 86400 + hour * 3600 + mi' * 60 + sec,
                    nsec, zone, zoneOff }
    | _ => none
  | _ => none

/-- `time.ParseInLocation(time.RFC1123, s, time.UTC)` -/
def parseRFC1123 (s : Bytes) : Option Parsed := parseLayout false s

/-- `bytesconv.ParseHTTPDate(s)` as Unix seconds (with `time.Local` free of zone abbreviations, e.g. UTC) -/
def parseHTTPDate (s : Bytes) : Option Int := (parseRFC1123 s).map (·.sec)

/-- the two attempts of `Cookie.ParseBytes` on the value of `expires` -/
def parseCookieDate (s : Bytes) : Option Parsed :=
  match parseLayout false s with
  | some p => some p
  | none => parseLayout true s

/-- first second of year 0 / of year 10000: the range in which the year has four digits -/
def minSec : Int := -62167219200
def maxSec : Int := 253402300800

end Hertz.HttpDate
