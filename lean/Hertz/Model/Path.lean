import Hertz.Model.Bytesconv
/-!
Model of `pkg/protocol/uri.go:normalizePath` (unix build: `filepath.Separator = '/'`) and of
`pkg/common/utils/path.go:CleanPath`.
-/
namespace Hertz

/-- `addLeadingSlash(dst, src)` followed by `decodeArgAppendNoPlus(dst, src)` -/
def slashDecode (src : Bytes) : Bytes :=
  (match src with
   | [] => [47]
   | c :: _ => if c = 47 then [] else [47]) ++ decodeArgNoPlus src

/-- first loop: while `bytes.Index(b, "//") >= 0` delete the first slash of the pair. -/
def collapseSlashes : Bytes → Bytes
  | [] => []
  | [c] => [c]
  | c :: d :: t => if c = 47 ∧ d = 47 then collapseSlashes (d :: t) else c :: collapseSlashes (d :: t)
termination_by structural x => x

/-- second loop: while `bytes.Index(b, "/./") >= 0` replace the leftmost occurrence by `/`. -/
def cutDotSlash : Bytes → Bytes
  | c :: d :: e :: t =>
    if c = 47 ∧ d = 46 ∧ e = 47 then cutDotSlash (e :: t) else c :: cutDotSlash (d :: e :: t)
  | l => l
termination_by structural x => x

/-- Leftmost occurrence of `/../`: the text before it and the text from its last slash on. -/
def splitDDS : Bytes → Option (Bytes × Bytes)
  | c :: d :: e :: f :: t =>
    if c = 47 ∧ d = 46 ∧ e = 46 ∧ f = 47 then some ([], f :: t)
    else (splitDDS (d :: e :: f :: t)).map (fun pr => (c :: pr.1, pr.2))
  | _ => none
termination_by structural x => x

/-- `b[:nn]` with `nn = bytes.LastIndexByte(b, '/')`, or `b[:0]` when there is no slash. -/
def beforeLastSlash (b : Bytes) : Bytes :=
  ((b.reverse.dropWhile (· != 47)).drop 1).reverse

/-- one iteration of the third loop -/
def stepDDS (b : Bytes) : Option Bytes :=
  (splitDDS b).map (fun pr => beforeLastSlash pr.1 ++ pr.2)

/-- third loop; `fuel` bounds the number of iterations (`b.length` always suffices: `loopDDS_fuel`). -/
def loopDDS : Nat → Bytes → Bytes
  | 0, b => b
  | f + 1, b =>
    match stepDDS b with
    | none => b
    | some b' => loopDDS f b'

/-- last step: a trailing `/..` removes the segment before it. -/
def cutTrailingDD (b : Bytes) : Bytes :=
  match b.reverse with
  | 46 :: 46 :: 47 :: revBefore =>
    let r := revBefore.dropWhile (· != 47)
    if r.isEmpty then [47] else r.reverse
  | _ => b

/-- `normalizePath(nil, src)` -/
def normalizePath (src : Bytes) : Bytes :=
  let b := cutDotSlash (collapseSlashes (slashDecode src))
  cutTrailingDD (loopDDS b.length b)

/-! ### CleanPath -/

/-- the `..` case: `w--` then back to the previous slash, never below index 1 -/
def cleanPop (out : Bytes) : Bytes :=
  if out.length > 1 then
    let r := (out.dropLast.reverse.dropWhile (· != 47)).reverse   -- keeps the slash found
    -- the loop stops with `buf[w] = '/'`, i.e. `out = buf[:w]` excludes that slash, but never below w = 1
    if r.length ≤ 1 then out.take 1 else r.dropLast
  else out

def cleanPush (out : Bytes) : Bytes := if out.length > 1 then out ++ [47] else out

/-- main loop of `CleanPath`; `inSeg` = inside the `default` case's inner copy loop. -/
def cleanLoop : Bool → Bytes → Bytes → Bool → Bytes × Bool
  | _, [], out, tr => (out, tr)
  | true, c :: t, out, tr =>
    if c = 47 then cleanLoop false t out tr else cleanLoop true t (out ++ [c]) tr
  | false, [c], out, tr =>
    if c = 47 then (out, tr) else if c = 46 then (out, true) else (cleanPush out ++ [c], tr)
  | false, [c, d], out, tr =>
    if c = 47 then cleanLoop false [d] out tr
    else if c = 46 ∧ d = 47 then (out, tr)
    else if c = 46 ∧ d = 46 then (cleanPop out, tr)
    else cleanLoop true [d] (cleanPush out ++ [c]) tr
  | false, c :: d :: e :: t, out, tr =>
    if c = 47 then cleanLoop false (d :: e :: t) out tr
    else if c = 46 ∧ d = 47 then cleanLoop false (e :: t) out tr
    else if c = 46 ∧ d = 46 ∧ e = 47 then cleanLoop false t (cleanPop out) tr
    else cleanLoop true (d :: e :: t) (cleanPush out ++ [c]) tr
termination_by structural _ x => x

/-- `utils.CleanPath(p)` -/
def cleanPath (p : Bytes) : Bytes :=
  match p with
  | [] => [47]
  | c :: t =>
    let trailing := p.length > 1 && p.getLast? == some 47
    let (out, tr) := if c = 47 then cleanLoop false t [47] trailing else cleanLoop false p [47] trailing
    if tr && out.length > 1 then out ++ [47] else out

end Hertz
