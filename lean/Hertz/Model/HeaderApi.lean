import Hertz.Model.HeaderWrite
import Hertz.Model.Http1.Scan
import Hertz.Model.CookieExp
/-!
# The public header mutators as programs (C05, extension X05)

`Model/HeaderWrite.lean` models the three serialisers over an arbitrary STATE of the header objects.  This file models
the step from what the application CALLS to that state: the public mutators of `pkg/protocol/header.go`, `trailer.go`,
`cookie.go` and the `RequestContext` helpers of `pkg/app/context.go`, statement by statement, as functions on the fields
the serialisers read (`ReqSt`, `RespSt`).  A program is a list of calls; `runReq` / `runResp` fold it over the zero
object; `ReqSt.toHdr` / `RespSt.toHdr` give the state records of `HeaderWrite`, so everything proved there for ALL states
applies to every reachable one.

Helpers reused (unchanged): `H1.ciEq` (`utils.CaseInsensitiveCompare`), `H1.normalizeKey` (`utils.NormalizeHeaderKey`),
`H1.isBadTrailer`, `H1.setTrailers`, `H1.parseUint` (`ParseContentLength`), `Uri.cookieSegs/cookieKV/decodeCookieArg`
(`cookieScanner`), `Uri.appendCookieE` (`Cookie.AppendBytes`, all ten attributes), `normalizePath`, `quotePath`, `appendArgs`.

Not modelled: `SetContentRange`/`SetByteRange` (C08; `AppendUint` panics on a negative argument - never reached by a call of
this file: `setContentLength` guards it), `Reset`/`CopyTo`, `DelClientCookie` (fixed date), peek/visit (read only).
-/
namespace Hertz.HA
open Hertz Hertz.Gen.Str Hertz.HW

abbrev KV := Bytes × Bytes

/-! ### `args.go` helpers on `[]argsKV` -/

/-- `setArg` / `setArgBytes`: the FIRST entry with the key gets the value, else append -/
def setArg : List KV → Bytes → Bytes → List KV
  | [], k, v => [(k, v)]
  | (k', v') :: t, k, v => if k' = k then (k', v) :: t else (k', v') :: setArg t k v

/-- `appendArg` / `appendArgBytes` -/
def appendArg (h : List KV) (k v : Bytes) : List KV := h ++ [(k, v)]

/-- `delAllArgs` / `delAllArgsBytes` (order of the others kept) -/
def delAll (h : List KV) (k : Bytes) : List KV := h.filter (fun kv => kv.1 != k)

/-- `bytesconv.AppendUint(nil, n)` for `n ≥ 0` -/
def appendUint (n : Nat) : Bytes := Uri.appendUintDec n

/-- `parseRequestCookies(cookies, src)`: every scanned pair that is not empty-empty is appended -/
def parseRequestCookies (cookies : List KV) (src : Bytes) : List KV :=
  cookies ++ ((Uri.cookieSegs src).map Uri.cookieKV).filter (fun kv => !kv.1.isEmpty || !kv.2.isEmpty)

/-- `getCookieKey(nil, src)` -/
def getCookieKey (src : Bytes) : Bytes :=
  Uri.decodeCookieArg (match Uri.indexOf 61 src with | some n => src.take n | none => src) false

/-- `ParseContentLength(value)`: `none` = error -/
def parseContentLength (v : Bytes) : Option Nat := H1.parseUint v

/-! ### `Trailer` (the object behind `Header.Trailer()`) -/

/-- `Trailer.Set(key, value)`; an error (forbidden name) changes nothing -/
def trailerSet (dn : Bool) (t : List KV) (k v : Bytes) : List KV :=
  let k' := H1.normalizeKey dn k
  if H1.isBadTrailer k' then t else setArg t k' v

/-- `Trailer.Add(key, value)` -/
def trailerAdd (dn : Bool) (t : List KV) (k v : Bytes) : List KV :=
  let k' := H1.normalizeKey dn k
  if H1.isBadTrailer k' then t else appendArg t k' v

/-- `Trailer.SetTrailers(value)`: reset, then one value-less entry per accepted name -/
def setTrailers (dn : Bool) (v : Bytes) : List KV := (H1.setTrailers dn v).1.map (fun k => (k, []))

/-! ### request header -/

structure ReqSt where
  disableNorm : Bool := false
  connClose : Bool := false
  noDefaultCT : Bool := false
  cookiesCollected : Bool := false
  contentLength : Int := 0
  clBytes : Bytes := []
  method : Bytes := []
  uri : Bytes := []
  host : Bytes := []
  contentType : Bytes := []
  userAgent : Bytes := []
  protocol : Bytes := []
  h : List KV := []
  trailer : List KV := []
  cookies : List KV := []
deriving Repr, DecidableEq

inductive ReqCall where
  /-- `Set(key, value)`, `SetBytesKV`, `SetBytesV…` (normalise the key, then `SetCanonical`) -/
  | set (k v : Bytes)
  /-- `Add(key, value)` -/
  | add (k v : Bytes)
  /-- `SetCanonical(key, value)` -/
  | setCanonical (k v : Bytes)
  /-- `Del(key)` / `DelBytes` -/
  | del (k : Bytes)
  | setHost (v : Bytes)
  | setUserAgent (v : Bytes)
  | setContentType (v : Bytes)
  | setContentLength (n : Int)
  | setContentLengthBytes (v : Bytes)
  | setCookie (k v : Bytes)
  | delCookie (k : Bytes)
  | delAllCookies
  | setMethod (v : Bytes)
  | setRequestURI (v : Bytes)
  | setProtocol (v : Bytes)
  /-- `SetArgBytes(key, value, noValue)` -/
  | setArgBytes (k v : Bytes) (nv : Bool)
  /-- `AddArgBytes(key, value, noValue)` -/
  | addArgBytes (k v : Bytes) (nv : Bool)
  | setConnClose (b : Bool)
  | resetConnClose
  | setNoDefaultCT (b : Bool)
  | disableNormalizing
  /-- `Trailer().Set(key, value)` -/
  | trailerSet (k v : Bytes)
  /-- `Trailer().Add(key, value)` -/
  | trailerAdd (k v : Bytes)
  /-- `SetMultipartFormBoundary(boundary)` -/
  | setMultipartBoundary (b : Bytes)
deriving Repr, DecidableEq

/-- `RequestHeader.collectCookies` -/
def ReqSt.collectCookies (s : ReqSt) : ReqSt :=
  if s.cookiesCollected then s else
  { s with cookies := (s.h.filter (fun kv => kv.1 == strCookie)).foldl (fun c kv => parseRequestCookies c kv.2) s.cookies,
           h := s.h.filter (fun kv => !(kv.1 == strCookie)),
           cookiesCollected := true }

/-- `RequestHeader.ResetConnectionClose` -/
def ReqSt.resetConnClose (s : ReqSt) : ReqSt :=
  if s.connClose then { s with connClose := false, h := delAll s.h strConnection } else s

/-- `RequestHeader.setSpecialHeader(key, value)`: `none` = not a special header (returns false) -/
def ReqSt.setSpecial (s : ReqSt) (key value : Bytes) : Option ReqSt :=
  match key with
  | [] => none
  | k0 :: _ =>
    let d := k0 ||| 0x20
    if d = 99 then
      if H1.ciEq strContentType key then some { s with contentType := value }
      else if H1.ciEq strContentLength key then
        match parseContentLength value with
        | some n => some { s with contentLength := n, clBytes := value, h := delAll s.h strTransferEncoding }
        | none => some s
      else if H1.ciEq strConnection key then
        if H1.ciEq strClose value then some { s with connClose := true }   -- any letter case (9dcdbe5)
        else let s := s.resetConnClose; some { s with h := setArg s.h key value }
      else if H1.ciEq strCookie key then
        let s := s.collectCookies; some { s with cookies := parseRequestCookies s.cookies value }
      else none
    else if d = 116 then
      if H1.ciEq strTransferEncoding key then some s
      else if H1.ciEq strTrailer key then some { s with trailer := setTrailers s.disableNorm value }
      else none
    else if d = 104 then
      if H1.ciEq strHost key then some { s with host := value } else none
    else if d = 117 then
      if H1.ciEq strUserAgent key then some { s with userAgent := value } else none
    else none

/-- `RequestHeader.SetCanonical(key, value)` -/
def ReqSt.setCanonical (s : ReqSt) (k v : Bytes) : ReqSt :=
  match s.setSpecial k v with
  | some s' => s'
  | none => { s with h := setArg s.h k v }

/-- `RequestHeader.del(key)` (key already normalised) -/
def ReqSt.del (s : ReqSt) (k : Bytes) : ReqSt :=
  let s :=
    if k = strHost then { s with host := [] }
    else if k = strContentType then { s with contentType := [] }
    else if k = strUserAgent then { s with userAgent := [] }
    else if k = strCookie then { s with cookies := [] }
    else if k = strContentLength then { s with contentLength := 0, clBytes := [] }
    else if k = strConnection then { s with connClose := false }
    else if k = strTrailer then { s with trailer := [] }
    else s
  { s with h := delAll s.h k }

def mimeFormData : Bytes := [109, 117, 108, 116, 105, 112, 97, 114, 116, 47, 102, 111, 114, 109, 45, 100, 97, 116, 97]
def strBoundary : Bytes := [98, 111, 117, 110, 100, 97, 114, 121]

def stepReq (s : ReqSt) : ReqCall → ReqSt
  | .set k v => s.setCanonical (H1.normalizeKey s.disableNorm k) v
  | .add k v =>
    match s.setSpecial k v with
    | some s' => s'
    | none => { s with h := appendArg s.h (H1.normalizeKey s.disableNorm k) v }
  | .setCanonical k v => s.setCanonical k v
  | .del k => s.del (H1.normalizeKey s.disableNorm k)
  | .setHost v => { s with host := v }
  | .setUserAgent v => { s with userAgent := v }
  | .setContentType v => { s with contentType := v }
  | .setContentLength n =>
    if n ≥ 0 then { s with contentLength := n, clBytes := appendUint n.toNat, h := delAll s.h strTransferEncoding }
    else { s with contentLength := n, clBytes := [], h := setArg s.h strTransferEncoding strChunked }
  | .setContentLengthBytes v => { s with clBytes := v }
  | .setCookie k v => let s := s.collectCookies; { s with cookies := setArg s.cookies k v }
  | .delCookie k => let s := s.collectCookies; { s with cookies := delAll s.cookies k }
  | .delAllCookies => let s := s.collectCookies; { s with cookies := [] }
  | .setMethod v => { s with method := v }
  | .setRequestURI v => { s with uri := v }
  | .setProtocol v => { s with protocol := v }
  | .setArgBytes k v nv => { s with h := setArg s.h k (if nv then [] else v) }
  | .addArgBytes k v nv => { s with h := appendArg s.h k (if nv then [] else v) }
  | .setConnClose b => { s with connClose := b }
  | .resetConnClose => s.resetConnClose
  | .setNoDefaultCT b => { s with noDefaultCT := b }
  | .disableNormalizing => { s with disableNorm := true }
  | .trailerSet k v => { s with trailer := trailerSet s.disableNorm s.trailer k v }
  | .trailerAdd k v => { s with trailer := trailerAdd s.disableNorm s.trailer k v }
  | .setMultipartBoundary b => { s with contentType := mimeFormData ++ [59, 32] ++ strBoundary ++ [61] ++ b }

def runReqFrom (s : ReqSt) (p : List ReqCall) : ReqSt := p.foldl stepReq s
/-- the program on a zero `RequestHeader` -/
def runReq (p : List ReqCall) : ReqSt := runReqFrom {} p

/-- what `RequestHeader.AppendBytes` reads -/
def ReqSt.toHdr (s : ReqSt) : ReqHdr :=
  { method := s.method, uri := s.uri, userAgent := s.userAgent, host := s.host, contentType := s.contentType,
    noDefaultContentType := s.noDefaultCT, clBytes := s.clBytes, h := s.h, trailer := s.trailer.map (·.1),
    cookies := s.cookies, connClose := s.connClose }

/-- `RequestHeader.Header()` after the program -/
def reqWire (p : List ReqCall) : Bytes := (runReq p).toHdr.bytes
/-- the request line (without CRLF) after the program -/
def reqStartLine (p : List ReqCall) : Bytes := (runReq p).toHdr.startLine
/-- the fields a strict reader must find after the request line: defined from the program alone -/
def expectedReqFields (p : List ReqCall) : List KV := kept (runReq p).toHdr.fields

/-! ### response header and the `RequestContext` helpers -/

structure RespSt where
  disableNorm : Bool := false
  connClose : Bool := false
  noDefaultCT : Bool := false
  noDefaultDate : Bool := false
  statusCode : Int := 0
  contentLength : Int := 0
  clBytes : Bytes := []
  contentEncoding : Bytes := []
  contentType : Bytes := []
  server : Bytes := []
  protocol : Bytes := []
  h : List KV := []
  trailer : List KV := []
  /-- `(cookie key, full Set-Cookie value)` -/
  cookies : List KV := []
deriving Repr, DecidableEq

inductive RespCall where
  /-- `Set(key, value)`, `SetBytesV` -/
  | set (k v : Bytes)
  | add (k v : Bytes)
  | setCanonical (k v : Bytes)
  | del (k : Bytes)
  | setContentType (v : Bytes)
  | setContentLength (n : Int)
  | setContentLengthBytes (v : Bytes)
  | setServer (v : Bytes)
  | setContentEncoding (v : Bytes)
  /-- `SetCookie(&cookie)` for a cookie object in the given state -/
  | setCookie (c : Uri.CookieE)
  | delCookie (k : Bytes)
  | delAllCookies
  | setStatusCode (n : Int)
  | setProtocol (v : Bytes)
  | setNoDefaultCT (b : Bool)
  | setNoDefaultDate (b : Bool)
  | setArgBytes (k v : Bytes) (nv : Bool)
  | addArgBytes (k v : Bytes) (nv : Bool)
  | setConnClose (b : Bool)
  | resetConnClose
  | disableNormalizing
  | trailerSet (k v : Bytes)
  | trailerAdd (k v : Bytes)
  /-- `RequestContext.Header(key, value)` -/
  | ctxHeader (k v : Bytes)
  /-- `RequestContext.Redirect(statusCode, uri)` -/
  | ctxRedirect (code : Int) (uri : Bytes)
  /-- `RequestContext.SetCookie(name, value, maxAge, path, domain, sameSite, secure, httpOnly)`
  (`partitioned = true`: `SetPartitionedCookie`) -/
  | ctxSetCookie (name value : Bytes) (maxAge : Int) (path domain : Bytes) (sameSite : Uri.SameSite) (secure httpOnly partitioned : Bool)
  /-- `RequestContext.SetContentType` -/
  | ctxSetContentType (v : Bytes)
deriving Repr, DecidableEq

def RespSt.resetConnClose (s : RespSt) : RespSt :=
  if s.connClose then { s with connClose := false, h := delAll s.h strConnection } else s

/-- `ResponseHeader.setSpecialHeader(key, value)`: `none` = returns false -/
def RespSt.setSpecial (s : RespSt) (key value : Bytes) : Option RespSt :=
  match key with
  | [] => none
  | k0 :: _ =>
    let d := k0 ||| 0x20
    if d = 99 then
      if H1.ciEq strContentType key then some { s with contentType := value }
      else if H1.ciEq strContentLength key then
        match parseContentLength value with
        | some n => some { s with contentLength := n, clBytes := value, h := delAll s.h strTransferEncoding }
        | none => some s
      else if H1.ciEq strContentEncoding key then some { s with contentEncoding := value }
      else if H1.ciEq strConnection key then
        if H1.ciEq strClose value then some { s with connClose := true }   -- any letter case (9dcdbe5)
        else let s := s.resetConnClose; some { s with h := setArg s.h key value }
      else none
    else if d = 115 then
      if H1.ciEq strServer key then some { s with server := value }
      else if H1.ciEq strSetCookie key then some { s with cookies := appendArg s.cookies (getCookieKey value) value }
      else none
    else if d = 116 then
      if H1.ciEq strTransferEncoding key then some s
      else if H1.ciEq strTrailer key then some { s with trailer := setTrailers s.disableNorm value }
      else none
    else if d = 100 then
      if H1.ciEq strDate key then some s else none
    else none

def RespSt.setCanonical (s : RespSt) (k v : Bytes) : RespSt :=
  match s.setSpecial k v with
  | some s' => s'
  | none => { s with h := setArg s.h k v }

/-- `ResponseHeader.del(key)` -/
def RespSt.del (s : RespSt) (k : Bytes) : RespSt :=
  let s :=
    if k = strContentType then { s with contentType := [] }
    else if k = strContentEncoding then { s with contentEncoding := [] }
    else if k = strServer then { s with server := [] }
    else if k = strSetCookie then { s with cookies := [] }
    else if k = strContentLength then { s with contentLength := 0, clBytes := [] }
    else if k = strConnection then { s with connClose := false }
    else if k = strTrailer then { s with trailer := [] }
    else s
  { s with h := delAll s.h k }

/-- `ResponseHeader.StatusCode()` -/
def RespSt.status (s : RespSt) : Int := if s.statusCode = 0 then 200 else s.statusCode

/-- `ResponseHeader.MustSkipContentLength()` -/
def RespSt.mustSkipCL (s : RespSt) : Bool :=
  let c := s.status
  if c < 100 ∨ c = 200 then false else c = 304 ∨ c = 204 ∨ c < 200

def strIdentity : Bytes := [105, 100, 101, 110, 116, 105, 116, 121]

/-- `ResponseHeader.SetContentLength(n)` -/
def RespSt.setContentLength (s : RespSt) (n : Int) : RespSt :=
  if s.mustSkipCL then s
  else if n ≥ 0 then { s with contentLength := n, clBytes := appendUint n.toNat, h := delAll s.h strTransferEncoding }
  else
    let s := { s with contentLength := n, clBytes := [] }
    if n = -2 then { s with connClose := true, h := setArg s.h strTransferEncoding strIdentity }
    else { s with h := setArg s.h strTransferEncoding strChunked }

/-- Go's `url.QueryEscape` -/
def goQueryEscape : Bytes → Bytes
  | [] => []
  | c :: t =>
    (if (48 ≤ c && c ≤ 57) || (65 ≤ c && c ≤ 90) || (97 ≤ c && c ≤ 122) || c == 45 || c == 95 || c == 46 || c == 126 then [c]
     else if c = 32 then [43] else [37, upperhex (c >>> 4), upperhex (c &&& 15)]) ++ goQueryEscape t

/-- `getRedirectStatusCode` -/
def redirectStatus (c : Int) : Int := if c = 301 ∨ c = 302 ∨ c = 303 ∨ c = 307 ∨ c = 308 then c else 302

/-- the cookie object `RequestContext.setCookie` builds -/
def ctxCookie (name value : Bytes) (maxAge : Int) (path domain : Bytes) (sameSite : Uri.SameSite) (secure httpOnly partitioned : Bool) : Uri.CookieE :=
  { c := { key := name, value := goQueryEscape value, maxAge := maxAge.toNat,
           path := normalizePath (if path.isEmpty then strSlash else path), domain := domain,
           secure := secure || sameSite == .none || partitioned, httpOnly := httpOnly, sameSite := sameSite,
           partitioned := partitioned } }

/-- `ResponseHeader.SetCookie(cookie)` -/
def RespSt.setCookie (s : RespSt) (c : Uri.CookieE) : RespSt :=
  { s with cookies := setArg s.cookies c.c.key (Uri.appendCookieE c) }

def stepResp (s : RespSt) : RespCall → RespSt
  | .set k v => s.setCanonical (H1.normalizeKey s.disableNorm k) v
  | .add k v =>
    match s.setSpecial k v with
    | some s' => s'
    | none => { s with h := appendArg s.h (H1.normalizeKey s.disableNorm k) v }
  | .setCanonical k v => s.setCanonical k v
  | .del k => s.del (H1.normalizeKey s.disableNorm k)
  | .setContentType v => { s with contentType := v }
  | .setContentLength n => s.setContentLength n
  | .setContentLengthBytes v => { s with clBytes := v }
  | .setServer v => { s with server := v }
  | .setContentEncoding v => { s with contentEncoding := v }
  | .setCookie c => s.setCookie c
  | .delCookie k => { s with cookies := delAll s.cookies k }
  | .delAllCookies => { s with cookies := [] }
  | .setStatusCode n => { s with statusCode := n }
  | .setProtocol v => { s with protocol := v }
  | .setNoDefaultCT b => { s with noDefaultCT := b }
  | .setNoDefaultDate b => { s with noDefaultDate := b }
  | .setArgBytes k v nv => { s with h := setArg s.h k (if nv then [] else v) }
  | .addArgBytes k v nv => { s with h := appendArg s.h k (if nv then [] else v) }
  | .setConnClose b => { s with connClose := b }
  | .resetConnClose => s.resetConnClose
  | .disableNormalizing => { s with disableNorm := true }
  | .trailerSet k v => { s with trailer := trailerSet s.disableNorm s.trailer k v }
  | .trailerAdd k v => { s with trailer := trailerAdd s.disableNorm s.trailer k v }
  | .ctxHeader k v =>
    if v.isEmpty then s.del (H1.normalizeKey s.disableNorm k)
    else s.setCanonical (H1.normalizeKey s.disableNorm k) v
  | .ctxRedirect code uri =>
    let s := s.setCanonical strLocation uri
    { s with statusCode := redirectStatus code }
  | .ctxSetCookie n v ma p d ss sec ho part => s.setCookie (ctxCookie n v ma p d ss sec ho part)
  | .ctxSetContentType v => { s with contentType := v }

def runRespFrom (s : RespSt) (p : List RespCall) : RespSt := p.foldl stepResp s
def runResp (p : List RespCall) : RespSt := runRespFrom {} p

/-- `ResponseHeader.ContentType()` -/
def RespSt.contentTypeEff (s : RespSt) : Bytes :=
  if !s.noDefaultCT && s.contentType.isEmpty then Gen.Str.defaultContentType else s.contentType

/-- what `ResponseHeader.AppendBytes` reads; `statusLine` = `consts.StatusLine(code)` without CRLF, `date` = the server
date value (both are not set through a header API) -/
def RespSt.toHdr (s : RespSt) (statusLine : Int → Bytes) (date : Bytes) : RespHdr :=
  { statusLine := statusLine s.status, server := s.server,
    date := if s.noDefaultDate then none else some date,
    contentType := if s.contentLength != 0 || !s.contentType.isEmpty then s.contentTypeEff else [],
    contentLength := s.contentLength, contentEncoding := s.contentEncoding, clBytes := s.clBytes, h := s.h,
    trailer := s.trailer.map (·.1), cookies := s.cookies.map (·.2), connClose := s.connClose }

def respWire (statusLine : Int → Bytes) (date : Bytes) (p : List RespCall) : Bytes := ((runResp p).toHdr statusLine date).bytes
def expectedRespFields (statusLine : Int → Bytes) (date : Bytes) (p : List RespCall) : List KV :=
  kept ((runResp p).toHdr statusLine date).fields

/-! ### where a field name on the wire can come from -/

/-- the key arguments of a call, as given and normalised -/
def reqCallKeys : ReqCall → List Bytes
  | .set k _ | .add k _ | .setCanonical k _ | .setArgBytes k _ _ | .addArgBytes k _ _ => [k, H1.normalizeKey false k]
  | _ => []

def respCallKeys : RespCall → List Bytes
  | .set k _ | .add k _ | .setCanonical k _ | .setArgBytes k _ _ | .addArgBytes k _ _ | .ctxHeader k _ => [k, H1.normalizeKey false k]
  | _ => []

/-- the names `RequestHeader.AppendBytes` / the setters write by themselves -/
def reqFixedNames : List Bytes :=
  [strUserAgent, strHost, strContentType, strContentLength, strTrailer, strCookie, strConnection, strTransferEncoding]
def respFixedNames : List Bytes :=
  [strServer, strDate, strContentType, strContentEncoding, strContentLength, strTrailer, strSetCookie, strConnection,
   strTransferEncoding, strLocation]

/-! ### the request target written by `req.Write`: `URI.RequestURI()` -/

/-- the fields of a `URI` that `RequestURI()` reads -/
structure Target where
  disablePathNormalizing : Bool := false
  pathOriginal : Bytes := []
  path : Bytes := []
  queryString : Bytes := []
  parsedQueryArgs : Bool := false
  queryArgs : List ArgKV := []

/-- `URI.RequestURI()` -/
def Target.requestURI (u : Target) : Bytes :=
  (if u.disablePathNormalizing then (if u.pathOriginal.isEmpty then [47] else u.pathOriginal)
   else quotePath (if u.path.isEmpty then strSlash else u.path)) ++
  (if u.parsedQueryArgs then (if u.queryArgs.isEmpty then [] else 63 :: appendArgs u.queryArgs)
   else if u.queryString.isEmpty then [] else 63 :: u.queryString)

/-- `method SP target SP HTTP/1.1` as `RequestHeader.AppendBytes` writes it: both parts through `appendRequestLinePart` -/
def requestLine (method target : Bytes) : Bytes :=
  reqLinePart (if method.isEmpty then strGet else method) ++ [32] ++ reqLinePart (if target.isEmpty then strSlash else target) ++
    [32] ++ strHTTP11

/-! ### the header work of `req.Write` / `resp.Write` for a message whose body is a byte slice -/

/-- `http1/req.write(req, w, false)` for a request without user-info, multipart form or post args whose URI (not yet taken
through `req.URI()`) parses to host `uriHost` and target `target`, with a body of `bodyLen` bytes: the header state that is
serialised -/
def reqWriteState (s : ReqSt) (uriHost target : Bytes) (bodyLen : Nat) : ReqSt :=
  let s := if s.host.isEmpty then
      let s := { s with host := uriHost }
      { s with uri := if s.toHdr.methodOrGet = strConnect then uriHost else target }
    else s
  if bodyLen != 0 || !s.toHdr.ignoreBody then stepReq s (.setContentLength bodyLen) else s

/-- `http1/resp.Write(resp, w)` for a response whose body is `bodyLen` bytes of a slice (`SkipBody` not set): the header state
that is serialised and whether the body follows -/
def respWriteState (s : RespSt) (bodyLen : Nat) : RespSt × Bool :=
  let sendBody := !s.mustSkipCL
  ((if sendBody || bodyLen > 0 then s.setContentLength bodyLen else s), sendBody && bodyLen > 0)

end Hertz.HA
