import Hertz.Model.Uri
import Hertz.Model.Http1.Scan
/-!
# Checked re-statement of the public parsers of untrusted data (property C03)

The models in `Model/Uri`, `Model/Args`, `Model/Bytesconv`, `Model/Http1/Scan` are written over lists with
`take`/`drop`/pattern matching: they are total by construction, so "never panics" would be true of them for the
wrong reason.  Here the same Go functions are written again *with the index and slice expressions of the Go
source*: every `b[i]`, `b[lo:hi]`, `tbl[c]` goes through a checked operation that yields `none` exactly where the
Go run time would panic (index out of range, slice bounds out of range — bounds are taken against `len`, which is
never laxer than Go's `cap` rule for the upper bound of a slice expression).  Indices are `Int`, as the Go code
stores `-1` from `bytes.IndexByte` in them.  Loops carry a fuel argument; running out of fuel is also `none`
(so a totality theorem is at the same time a termination proof).

`Proofs/NoFault*.lean` prove for ALL inputs that the result is `some _` (and, where cheap, that it equals the
list-based model that C07/C17/C11 reason about).
-/
namespace Hertz.NF
open Hertz Hertz.Gen.Str

/-- `len(b)` as a Go `int` -/
abbrev len (b : Bytes) : Int := (b.length : Int)

/-- `b[i]` -/
def ix (b : Bytes) (i : Int) : Option UInt8 := if i < 0 then none else b[i.toNat]?

/-- `b[lo:hi]` -/
def sl (b : Bytes) (lo hi : Int) : Option Bytes :=
  if 0 ≤ lo ∧ lo ≤ hi ∧ hi ≤ len b then some ((b.take hi.toNat).drop lo.toNat) else none

/-- `b[lo:]` -/
def slFrom (b : Bytes) (lo : Int) : Option Bytes := sl b lo (len b)

/-- `b[:hi]` -/
def slTo (b : Bytes) (hi : Int) : Option Bytes := sl b 0 hi

/-- `bytes.IndexByte(b, c)` (`-1` when absent) -/
def indexByte (c : UInt8) (b : Bytes) : Int :=
  match Uri.indexOf c b with
  | some n => (n : Int)
  | none => -1

/-- `tbl[c]` on one of the 256-byte string constants of `bytesconv` (a shorter table would panic) -/
def tbl (t : Array UInt8) (c : UInt8) : Option UInt8 := t[c.toNat]?

/-! ### `RequestHeader.MultipartFormBoundary` (pkg/protocol/header.go) -/

/-- `for len(b) > n && b[n] == ' ' { n++ }` -/
def skipSp (b : Bytes) : Nat → Int → Option Int
  | 0, _ => none
  | f + 1, n =>
    if len b > n then
      (ix b n).bind fun c => if c = 32 then skipSp b f (n + 1) else some n
    else some n

/-- the tail of the loop body once `boundary` was seen: `b = b[len("boundary"):]` … `return b` -/
def mfbValue (b : Bytes) : Option Bytes :=
  (slFrom b (len strBoundary)).bind fun b =>
  if len b = 0 then some [] else
  (ix b 0).bind fun c =>
  if c ≠ 61 then some [] else
  (slFrom b 1).bind fun b =>
  let n := indexByte 59 b
  (if n ≥ 0 then slTo b n else some b).bind fun b =>
  if len b > 1 then
    (ix b 0).bind fun c0 =>
    if c0 = 34 then
      (ix b (len b - 1)).bind fun cl =>
      if cl = 34 then sl b 1 (len b - 1) else some b
    else some b
  else some b

/-- `for len(b) > 0 { n++; …; b = b[n:]; … continue / return }`; result `[]` stands for `nil` too -/
def mfbLoop : Nat → Bytes → Int → Option Bytes
  | 0, _, _ => none
  | f + 1, b, n =>
    if len b > 0 then
      (skipSp b (b.length + 1) (n + 1)).bind fun n =>
      (slFrom b n).bind fun b =>
      if !strBoundary.isPrefixOf b then
        let n := indexByte 59 b
        if n < 0 then some [] else mfbLoop f b n
      else mfbValue b
    else some []

/-- `RequestHeader.MultipartFormBoundary()` as a function of the stored Content-Type value -/
def multipartFormBoundary (ct : Bytes) : Option Bytes :=
  if !mIMEFormData.isPrefixOf ct then some [] else
  (slFrom ct (len mIMEFormData)).bind fun b =>
  if len b = 0 then some [] else
  (ix b 0).bind fun c =>
  if c ≠ 59 then some [] else mfbLoop (b.length + 1) b 0

/-! ### `protocol.IsBadTrailer` (pkg/protocol/trailer.go) -/

/-- `IsBadTrailer(key)`: `key[0]`, `key[:8]`, `key[8:]`, `key[:6]`, `key[6:]` checked; the constants'
`StrContentType[:8]`, `StrContentEncoding[8:]` … are slices of fixed strings (checked too). -/
def isBadTrailer (key : Bytes) : Option Bool :=
  if len key = 0 then some true else
  (ix key 0).bind fun k0 =>
  let c := k0 ||| 0x20
  if c = 97 then some (H1.ciEq key strAuthorization)
  else if c = 99 then
    if len key ≥ 12 then
      (slTo key 8).bind fun k8 => (slTo strContentType 8).bind fun c8 =>
      if H1.ciEq k8 c8 then
        (slFrom key 8).bind fun r =>
        (slFrom strContentEncoding 8).bind fun a1 => (slFrom strContentLength 8).bind fun a2 =>
        (slFrom strContentType 8).bind fun a3 => (slFrom strContentRange 8).bind fun a4 =>
        some (H1.ciEq r a1 || H1.ciEq r a2 || H1.ciEq r a3 || H1.ciEq r a4)
      else some (H1.ciEq key strConnection)
    else some (H1.ciEq key strConnection)
  else if c = 101 then some (H1.ciEq key strExpect)
  else if c = 104 then some (H1.ciEq key strHost)
  else if c = 107 then some (H1.ciEq key strKeepAlive)
  else if c = 109 then some (H1.ciEq key strMaxForwards)
  else if c = 112 then
    if len key ≥ 16 then
      (slTo key 6).bind fun k6 => (slTo strProxyConnection 6).bind fun c6 =>
      if H1.ciEq k6 c6 then
        (slFrom key 6).bind fun r =>
        (slFrom strProxyConnection 6).bind fun a1 => (slFrom strProxyAuthenticate 6).bind fun a2 =>
        (slFrom strProxyAuthorization 6).bind fun a3 =>
        some (H1.ciEq r a1 || H1.ciEq r a2 || H1.ciEq r a3)
      else some false
    else some false
  else if c = 114 then some (H1.ciEq key strRange)
  else if c = 116 then some (H1.ciEq key strTE || H1.ciEq key strTrailer || H1.ciEq key strTransferEncoding)
  else if c = 119 then some (H1.ciEq key strWWWAuthenticate)
  else some false

end Hertz.NF
