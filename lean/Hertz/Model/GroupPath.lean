import Hertz.Model.Route
/-!
`RouterGroup` path assembly (`pkg/route/routergroup.go`: `Group`, `handle`, `calculateAbsolutePath`,
`joinPaths`, `lastChar`) and the standard-library functions it calls, `path.Join` and `path.Clean`
(NOT hertz's `utils.CleanPath`, which is `Model/Path.lean:cleanPath`).

`path.Clean` is modelled on the elements of the path (maximal runs of non-`/` bytes): the Go loop is at the
start of an element whenever it inspects `path[r]`, its first case skips `/`, its second the element `.`,
its third handles `..`, the default case copies an element.  `out` is kept reversed (`rout`, head = last
byte written), `dd` is `dotdot`.  Held to the real `path.Clean` / `path.Join` by ops `pclean` / `pjoin`.
-/
namespace Hertz.Route.GroupPath
open Hertz.Route

/-- the non-empty elements between slashes -/
def elemsGo : Bytes → Bytes → List Bytes
  | cur, [] => if cur.isEmpty then [] else [cur]
  | cur, c :: r => if c = 47 then (if cur.isEmpty then elemsGo [] r else cur :: elemsGo [] r) else elemsGo (cur ++ [c]) r

def elems (p : Bytes) : List Bytes := elemsGo [] p

structure CS where
  rout : Bytes
  dd : Nat
  deriving Repr, DecidableEq

/-- `out.w--; for out.w > dotdot && out.index(out.w) != '/' { out.w-- }` continued: `last` = `out.index(out.w)` -/
def popGo : Bytes → Nat → UInt8 → Bytes
  | [], _, _ => []
  | c :: r, dd, last => if (c :: r).length > dd && last != 47 then popGo r dd c else c :: r

def pop (rout : Bytes) (dd : Nat) : Bytes :=
  match rout with
  | [] => []
  | c :: r => popGo r dd c

/-- one element of the `for r < n` loop of `path.Clean` -/
def cleanStep (rooted : Bool) (st : CS) (e : Bytes) : CS :=
  if e = [46] then st
  else if e = [46, 46] then
    if st.rout.length > st.dd then { st with rout := pop st.rout st.dd }
    else if !rooted then
      let r2 : Bytes := 46 :: 46 :: (if st.rout.length > 0 then 47 :: st.rout else st.rout)
      { rout := r2, dd := r2.length }
    else st
  else
    { st with rout := e.reverse ++
        (if (rooted && st.rout.length != 1) || (!rooted && st.rout.length != 0) then 47 :: st.rout else st.rout) }

/-- `path.Clean` -/
def pathClean (p : Bytes) : Bytes :=
  match p with
  | [] => [46]
  | c :: _ =>
    let rooted := c == 47
    let st0 : CS := if rooted then ⟨[47], 1⟩ else ⟨[], 0⟩
    let st := (elems p).foldl (cleanStep rooted) st0
    if st.rout.isEmpty then [46] else st.rout.reverse

/-- `path.Join(a, b)` -/
def pathJoin2 (a b : Bytes) : Bytes :=
  if a.length + b.length = 0 then []
  else
    let buf1 : Bytes := if a ≠ [] then a else []
    let buf2 : Bytes := if buf1.length > 0 || b ≠ [] then (if buf1.length > 0 then buf1 ++ [47] else buf1) ++ b else buf1
    pathClean buf2

/-- `lastChar` (panics on the empty string) -/
def lastChar (s : Bytes) : Except Fault UInt8 :=
  match s.getLast? with
  | none => .error .assert
  | some c => .ok c

/-- `joinPaths(absolutePath, relativePath)` -/
def joinPaths (abs rel : Bytes) : Except Fault Bytes :=
  if rel = [] then .ok abs
  else
    let final := pathJoin2 abs rel
    match lastChar rel, lastChar final with
    | .ok a, .ok b => .ok (if a = 47 && b != 47 then final ++ [47] else final)
    | .error f, _ => .error f
    | _, .error f => .error f

/-- `basePath` of `engine.Group(p1).Group(p2)…`; the engine's own group has `opt.BasePath` = "/" -/
def groupBase : Bytes → List Bytes → Except Fault Bytes
  | base, [] => .ok base
  | base, p :: r =>
    match joinPaths base p with
    | .error f => .error f
    | .ok b => groupBase b r

/-- the path `RouterGroup.handle` passes to `engine.addRoute` -/
def absPattern (prefixes : List Bytes) (rel : Bytes) : Except Fault Bytes :=
  match groupBase [47] prefixes with
  | .error f => .error f
  | .ok b => joinPaths b rel

/-- registrations through groups: (prefixes of the nested groups, method, relative path, handler) -/
def addGroupRoutes : Engine → List (List Bytes × Bytes × Bytes × Nat) → Except Fault Engine
  | e, [] => .ok e
  | e, (pre, m, rel, h) :: r =>
    match absPattern pre rel with
    | .error f => .error f
    | .ok p =>
      match e.addRoute m p h with
      | .error f => .error f
      | .ok e' => addGroupRoutes e' r

/-- the flat list of absolute registrations (`none` when a path computation faults) -/
def flatten : List (List Bytes × Bytes × Bytes × Nat) → Option (List (Bytes × Bytes × Nat))
  | [] => some []
  | (pre, m, rel, h) :: r =>
    match absPattern pre rel, flatten r with
    | .ok p, some l => some ((m, p, h) :: l)
    | _, _ => none

end Hertz.Route.GroupPath
