import Hertz.Basic
/-!
# internal/tagexpr — the tree algebra of the expression compiler (C20)

Mirrors, function by function, `internal/tagexpr/expr.go`:

* `parseExprNode` builds a *left-leaning chain*: every new operator adopts the tree built so far as
  its left operand (`close`, `chainAux`);
* `sortPriority` repeats `subSortPriority` (one post-order pass) until a pass rotates nothing;
* `leftOperandToParent` is a right rotation, done when a node binds tighter than its left child
  (`getPriority(e) > getPriority(e.LeftOperand())`);
* `getPriority` gives 7 to every operand (and to a nil interface), 6…1 to the operators.

The Go code works on a doubly linked mutable tree (`parent`, `leftOperand`, `rightOperand`); the
model is the pure tree, a function returning the new subtree where Go re-links the parent.
`le.RightOperand().SetParent(e)` in `leftOperandToParent` is a method call on a nil interface when
the left child has no right operand; that panic is kept as `Fault.panic`.

The operand type `α` is abstract here: the lexer and the evaluator live in `Model/Tagexpr.lean`.
-/
namespace Hertz.Tagexpr

inductive Fault where
  /-- a run-time panic of the Go code (method call on a nil operand); the string names the site -/
  | panic (site : String)
  deriving DecidableEq, Repr

/-- The thirteen binary operators of `parseOperator`. -/
inductive Op where
  | mul | div | rem | add | sub | lt | le | gt | ge | eq | ne | and | or
  deriving DecidableEq, Repr

def Op.all : List Op := [.mul, .div, .rem, .add, .sub, .lt, .le, .gt, .ge, .eq, .ne, .and, .or]

/-- Name of the Go node type `newXxxExprNode` returns (used to tie `prio` to the source). -/
def Op.goType : Op → String
  | .mul => "multiplicationExprNode" | .div => "divisionExprNode" | .rem => "remainderExprNode"
  | .add => "additionExprNode" | .sub => "subtractionExprNode"
  | .lt => "lessExprNode" | .le => "lessEqualExprNode" | .gt => "greaterExprNode" | .ge => "greaterEqualExprNode"
  | .eq => "equalExprNode" | .ne => "notEqualExprNode" | .and => "andExprNode" | .or => "orExprNode"

/-- The text `String()` prints for the node (also the token `parseOperator` reads). -/
def Op.sym : Op → String
  | .mul => "*" | .div => "/" | .rem => "%" | .add => "+" | .sub => "-"
  | .lt => "<" | .le => "<=" | .gt => ">" | .ge => ">=" | .eq => "==" | .ne => "!=" | .and => "&&" | .or => "||"

/-- `getPriority` on operator nodes. -/
def Op.prio : Op → Nat
  | .mul | .div | .rem => 6
  | .add | .sub => 5
  | .lt | .le | .gt | .ge => 4
  | .eq | .ne => 3
  | .and => 2
  | .or => 1

/-- `getPriority`'s `default:` branch: operands, groups, functions and the nil interface. -/
def operandPrio : Nat := 7

inductive Tree (α : Type) where
  /-- a nil `ExprNode` (operand missing: empty group, trailing operator) -/
  | nil : Tree α
  /-- any operand node (literal, selector, group, function call) -/
  | leaf : α → Tree α
  | node : Op → Tree α → Tree α → Tree α
  deriving Repr

namespace Tree
variable {α : Type}

/-- `getPriority(e)` -/
def prio : Tree α → Nat
  | node op _ _ => op.prio
  | _ => operandPrio

def isNil : Tree α → Bool
  | nil => true
  | _ => false

/-- `parseExprNode`, the step taken when an operand `x` has been read and the operator seen before
it (if any) is `cur = (op, left)`: the operand becomes the right operand of that operator. -/
def close (cur : Option (Op × Tree α)) (x : Tree α) : Tree α :=
  match cur with
  | none => x
  | some (op, l) => node op l x

/-- The chain `parseExprNode` has built after reading `first op₁ x₁ op₂ x₂ …`: each operator takes
everything before it as its left operand. -/
def chainAux (acc : Tree α) : List (Op × α) → Tree α
  | [] => acc
  | (o, x) :: t => chainAux (node o acc (leaf x)) t

def chain (first : α) (rest : List (Op × α)) : Tree α := chainAux (leaf first) rest

/-- `leftOperandToParent(e)` for `e = node op l r`; the result is the subtree that takes `e`'s place
under `e`'s parent. -/
def rotate (op : Op) (l r : Tree α) : Except Fault (Tree α) :=
  match l with
  | nil => .ok (node op nil r)                       -- `if le == nil { return }`
  | leaf _ => .error (.panic "leftOperandToParent")   -- le.RightOperand() is nil
  | node lo ll lr =>
    if lr.isNil then .error (.panic "leftOperandToParent")  -- le.RightOperand().SetParent(e)
    else .ok (node lo ll (node op lr r))

/-- `subSortPriority(e, isLeft)`: the new subtree and the `bool` it returns. -/
def subSort : Tree α → Except Fault (Tree α × Bool)
  | nil => .ok (nil, false)
  | leaf a => .ok (leaf a, false)
  | node op l r =>
    match subSort l with
    | .error e => .error e
    | .ok (l', cl) =>
      match subSort r with
      | .error e => .error e
      | .ok (r', cr) =>
        if l'.prio < op.prio then
          match rotate op l' r' with
          | .error e => .error e
          | .ok t => .ok (t, true)
        else .ok (node op l' r', cl || cr)

/-- number of operator nodes -/
def size : Tree α → Nat
  | node _ l r => size l + size r + 1
  | _ => 0

/-- Σ over operator nodes of the number of operators in the left subtree: every rotation lowers it,
so `mu t + 1` passes are enough. -/
def mu : Tree α → Nat
  | node _ l r => mu l + mu r + size l
  | _ => 0

/-- `for subSortPriority(e.RightOperand(), false) {}` with the loop counter made explicit;
`none` = fuel exhausted (shown impossible for `fuel = mu t + 1`). -/
def sortLoop : Nat → Tree α → Except Fault (Option (Tree α))
  | 0, _ => .ok none
  | n + 1, t =>
    match subSort t with
    | .error e => .error e
    | .ok (t', c) => if c then sortLoop n t' else .ok (some t')

/-- `sortPriority(e)` applied to the holder's right operand. -/
def sortPriority (t : Tree α) : Except Fault (Option (Tree α)) := sortLoop (mu t + 1) t

/-- in-order token sequence: operands (`none` for nil) and operators -/
def inorder : Tree α → List (Sum (Option α) Op)
  | nil => [.inl none]
  | leaf a => [.inl (some a)]
  | node op l r => inorder l ++ .inr op :: inorder r

/-- The same as a first operand and `(operator, operand)` pairs. -/
def flat : Tree α → Option α × List (Op × Option α)
  | nil => (none, [])
  | leaf a => (some a, [])
  | node op l r => ((flat l).1, (flat l).2 ++ (op, (flat r).1) :: (flat r).2)

end Tree
end Hertz.Tagexpr
