/-!
C10 — the convenience layer of the client (`pkg/protocol/client/client.go`): `GetURLTimeout` / `GetURLDeadline`
(and through them `Client.GetTimeout`, `GetDeadline`).

```go
chv := clientURLResponseChPool.Get(); if chv == nil { chv = make(chan clientURLResponse, 1) }
go func() { …doRequestFollowRedirectsBuffer…; ch <- clientURLResponse{…} }()
select {
case resp := <-ch:  ReleaseRequest(req); clientURLResponseChPool.Put(chv); return resp…
case <-tc.C:        return errTimeout            // the channel is NOT put back: the goroutine will still send on it
}
```

The part of the property this layer can break: "the response returned to a caller is the response to that caller's
request".  Model: calls and channels are identities; `sync.Pool` is a multiset from which `Get` takes ANY element or
none; the goroutine of a call sends the result OF THAT CALL on the channel it was started with; a run is any list of
events (any number of calls, any interleaving; an event that is not enabled is a no-op).  `putOnTimeout` is the
variant in which the timeout branch also returns the channel to the pool (what a "tidy-up" of the code would do):
`Props/C10.lean` proves the property without it and refutes it with it.
-/
namespace Hertz.ClientHelper

abbrev Chan := Nat
abbrev Call := Nat

inductive Phase where
  | idle                 -- not started yet
  | waiting (ch : Chan)  -- inside the `select`
  | got (v : Call)       -- returned the result of call `v`
  | timedOut             -- returned `errTimeout`
deriving DecidableEq, Repr

structure St where
  /-- `clientURLResponseChPool` -/
  pool : List Chan := []
  /-- channels made so far -/
  next : Chan := 0
  /-- content of the one-element buffer of a channel: whose result it holds -/
  buf : Chan → Option Call := fun _ => none
  phase : Call → Phase := fun _ => .idle
  /-- the goroutine of call `i` has not sent yet: the channel it will send on -/
  worker : Call → Option Chan := fun _ => none

inductive Ev where
  /-- call `i` enters `GetURLDeadline`; `k` selects the pooled channel `Get` returns (`k ≥ length`: nil, `make`) -/
  | start (i : Call) (k : Nat)
  /-- the goroutine of call `i` has its result and sends it -/
  | send (i : Call)
  /-- `case resp := <-ch` -/
  | recv (i : Call)
  /-- `case <-tc.C` -/
  | timeout (i : Call)
deriving DecidableEq, Repr

def step (putOnTimeout : Bool) (s : St) : Ev → St
  | .start i k =>
    match s.phase i with
    | .idle =>
      if h : k < s.pool.length then
        let c := s.pool[k]
        { s with pool := s.pool.eraseIdx k,
                 phase := fun j => if j = i then .waiting c else s.phase j,
                 worker := fun j => if j = i then some c else s.worker j }
      else
        let c := s.next
        { s with next := s.next + 1,
                 phase := fun j => if j = i then .waiting c else s.phase j,
                 worker := fun j => if j = i then some c else s.worker j }
    | _ => s
  | .send i =>
    match s.worker i with
    | some c =>
      (match s.buf c with
       | none => { s with buf := fun d => if d = c then some i else s.buf d,
                          worker := fun j => if j = i then none else s.worker j }
       | some _ => s)     -- the buffer is full: the send blocks
    | none => s
  | .recv i =>
    match s.phase i with
    | .waiting c =>
      (match s.buf c with
       | some v => { s with buf := fun d => if d = c then none else s.buf d,
                            pool := c :: s.pool,
                            phase := fun j => if j = i then .got v else s.phase j }
       | none => s)
    | _ => s
  | .timeout i =>
    match s.phase i with
    | .waiting c =>
      { s with phase := fun j => if j = i then .timedOut else s.phase j,
               pool := if putOnTimeout then c :: s.pool else s.pool }
    | _ => s

def run (putOnTimeout : Bool) (s : St) (es : List Ev) : St := es.foldl (step putOnTimeout) s

def init : St := {}

end Hertz.ClientHelper
