import Hertz.Basic
import Hertz.Gen.Tables
/-!
Model of `internal/bytesconv` (quoting, integer codecs) and of the two percent-decoders of
`pkg/protocol/args.go`.  Tables come from `Hertz.Gen.Tables`, regenerated from the Go source.
-/
namespace Hertz

def hex2int (c : UInt8) : UInt8 := tget Gen.hex2intTable c
def toLower (c : UInt8) : UInt8 := tget Gen.toLowerTable c
def toUpper (c : UInt8) : UInt8 := tget Gen.toUpperTable c
def upperhex (n : UInt8) : UInt8 := tget Gen.upperhex n
def lowerhex (n : UInt8) : UInt8 := tget Gen.lowerhex n
def argShouldEscape (c : UInt8) : Bool := tget Gen.quotedArgShouldEscapeTable c != 0
def pathShouldEscape (c : UInt8) : Bool := tget Gen.quotedPathShouldEscapeTable c != 0

/-- The three bytes `%XY` (upper-case hex) that both quoting functions emit for an escaped byte. -/
def pctEnc (c : UInt8) : Bytes := [37, upperhex (c >>> 4), upperhex (c &&& 15)]

/-- `bytesconv.AppendQuotedArg(nil, src)` -/
def quoteArg : Bytes → Bytes
  | [] => []
  | c :: t =>
    (if c = 32 then [43] else if argShouldEscape c then pctEnc c else [c]) ++ quoteArg t

def quotePathBody : Bytes → Bytes
  | [] => []
  | c :: t => (if pathShouldEscape c then pctEnc c else [c]) ++ quotePathBody t

/-- `bytesconv.AppendQuotedPath(nil, src)` -/
def quotePath (src : Bytes) : Bytes :=
  if src = [42] then [42] else quotePathBody src

/-- Slow path of `decodeArgAppend` (`plus = true`) / `decodeArgAppendNoPlus` (`plus = false`). -/
def decodeSlow (plus : Bool) : Bytes → Bytes
  | [] => []
  | [c] => if plus && c == 43 then [32] else [c]
  | c :: d :: [] => if c = 37 then [c, d] else (if plus && c == 43 then 32 else c) :: decodeSlow plus (d :: [])
  | c :: a :: b :: rest =>
    if c = 37 then
      if hex2int a = 16 ∨ hex2int b = 16 then 37 :: decodeSlow plus (a :: b :: rest)
      else (hex2int a <<< 4 ||| hex2int b) :: decodeSlow plus rest
    else (if plus && c == 43 then 32 else c) :: decodeSlow plus (a :: b :: rest)
termination_by structural x => x

/-- `decodeArgAppend(nil, src)`: fast path when there is neither `%` nor `+`. -/
def decodeArg (src : Bytes) : Bytes :=
  if !src.contains 37 && !src.contains 43 then src else decodeSlow true src

/-- `decodeArgAppendNoPlus(nil, src)` -/
def decodeArgNoPlus (src : Bytes) : Bytes :=
  if !src.contains 37 then src else decodeSlow false src

end Hertz
