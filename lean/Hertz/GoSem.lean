import Hertz.Basic
/-!
Target language of the mechanical Go → Lean translator `gen/funcs.go` (see `gen/FUNCS.md`).

A translated Go function is a Lean term of type `Go.G ρ = Except Go.Fault ρ`:
* `Fault.panic` — Go would panic here (index / slice out of range, explicit `panic`, `make` with a negative length);
* `Fault.fuel`  — a translated loop ran out of its fuel.  No hand model ever produces this outcome, so a theorem
  `Gen.Funcs.f … = (model …)` also proves that the fuel chosen by the translator suffices (the fuel is not trusted).

Go `int` is `Int` with two's-complement 64-bit wrap-around on `+ - *` (`Go.add/sub/mul`); `/` truncates toward zero and is
only translated for a non-zero constant divisor.  `byte` is `UInt8` (native wrap-around).  `[]byte` and `string` are
`Bytes = List UInt8`; slices do not alias (the same assumption the hand models make).
Core Lean only.  This file is in the trusted base: keep it small.
-/
namespace Hertz.Go

inductive Fault where
  | panic
  | fuel
deriving DecidableEq, Repr

abbrev G := Except Fault

/-- what the translator emits for a function outside its subset: any theorem about the function stops building -/
structure Untranslated where
  reason : String
def untranslated (reason : String) : Untranslated := ⟨reason⟩

/-- what a loop body hands back: go on with the next iteration, `break`, or `return r` from the function -/
inductive Ctl (σ ρ : Type) where
  | next (s : σ)
  | brk (s : σ)
  | ret (r : ρ)

def maxInt : Int := 9223372036854775807

/-- two's-complement wrap of a mathematical integer into Go's 64-bit `int` -/
def wrap (x : Int) : Int := (x + 9223372036854775808) % 18446744073709551616 - 9223372036854775808

def add (a b : Int) : Int := wrap (a + b)
def sub (a b : Int) : Int := wrap (a - b)
def mul (a b : Int) : Int := wrap (a * b)
/-- `a / b` for a non-zero constant `b` (Go truncates toward zero; `minInt / -1` wraps) -/
def quo (a b : Int) : Int := wrap (Int.tdiv a b)

/-- `len(b)` -/
def len (b : Bytes) : Int := (b.length : Int)
/-- `int(c)` for a `byte` -/
def intOfByte (c : UInt8) : Int := (c.toNat : Int)
/-- `byte(n)` for an `int` (keeps the low 8 bits) -/
def byteOfInt (n : Int) : UInt8 := (n % 256).toNat.toUInt8

/-- `b[i]` -/
def idx (b : Bytes) (i : Int) : G UInt8 :=
  if i < 0 then .error .panic else
  match b[i.toNat]? with
  | some c => .ok c
  | none => .error .panic

/-- `b[i] = v` (the new content of `b`) -/
def setIdx (b : Bytes) (i : Int) (v : UInt8) : G Bytes :=
  if i < 0 then .error .panic
  else if i.toNat < b.length then .ok (b.set i.toNat v) else .error .panic

/-- `b[lo:hi]` (capacity is not modelled: `hi ≤ len b` is required) -/
def slice (b : Bytes) (lo hi : Int) : G Bytes :=
  if 0 ≤ lo ∧ lo ≤ hi ∧ hi ≤ len b then .ok ((b.take hi.toNat).drop lo.toNat) else .error .panic
/-- `b[lo:]` -/
def sliceFrom (b : Bytes) (lo : Int) : G Bytes := slice b lo (len b)
/-- `b[:hi]` -/
def sliceTo (b : Bytes) (hi : Int) : G Bytes := slice b 0 hi

/-- `make([]byte, n)` -/
def make (n : Int) : G Bytes := if n < 0 then .error .panic else .ok (List.replicate n.toNat 0)
/-- `copy(dst, src)` (the new content of `dst`) -/
def copy (dst src : Bytes) : Bytes := src.take dst.length ++ dst.drop src.length

def indexByteNat (c : UInt8) : Bytes → Option Nat
  | [] => none
  | x :: t => if x = c then some 0 else (indexByteNat c t).map (· + 1)
/-- `bytes.IndexByte(b, c)` -/
def indexByte (b : Bytes) (c : UInt8) : Int :=
  match indexByteNat c b with
  | some n => (n : Int)
  | none => -1
/-- `bytes.HasPrefix(b, p)` -/
def hasPrefix (b p : Bytes) : Bool := p.isPrefixOf b

/-- `for _, c := range src { body }` with loop-carried variables `σ`.  Result: `.next s` = the loop is over
(ran out or `break`), `.ret r` = the body returned `r` from the function. -/
def rangeLoop {σ ρ : Type} (body : UInt8 → σ → G (Ctl σ ρ)) : Bytes → σ → G (Ctl σ ρ)
  | [], s => .ok (.next s)
  | c :: t, s =>
    match body c s with
    | .error e => .error e
    | .ok (.next s') => rangeLoop body t s'
    | .ok (.brk s') => .ok (.next s')
    | .ok (.ret r) => .ok (.ret r)

/-- `for ; cond; post { body }` with loop-carried variables `σ` (the loop variable is one of them).
`continue` is `.next` (the post statement still runs).  Out of fuel is the distinct outcome `Fault.fuel`. -/
def forLoop {σ ρ : Type} (cond : σ → G Bool) (body : σ → G (Ctl σ ρ)) (post : σ → G σ) : Nat → σ → G (Ctl σ ρ)
  | 0, _ => .error .fuel
  | f + 1, s =>
    match cond s with
    | .error e => .error e
    | .ok false => .ok (.next s)
    | .ok true =>
      match body s with
      | .error e => .error e
      | .ok (.next s') =>
        (match post s' with
         | .error e => .error e
         | .ok s'' => forLoop cond body post f s'')
      | .ok (.brk s') => .ok (.next s')
      | .ok (.ret r) => .ok (.ret r)

/-- fuel for `for i := a; i < n; i++`-shaped loops: `n - a` iterations and the final test -/
def fuelOf (d : Int) : Nat := d.toNat + 1

end Hertz.Go
