/-
Shared base layer (L0): bytes, complete 256-entry table checks lifted to all `UInt8`.
Core Lean only.
-/
namespace Hertz

abbrev Bytes := List UInt8

/-- `p` holds for every one of the 256 byte values (decidable, checked by the kernel). -/
def allBytes (p : UInt8 → Bool) : Bool := (List.range 256).all (fun i => p i.toUInt8)

theorem allBytes_spec {p : UInt8 → Bool} (h : allBytes p = true) : ∀ c : UInt8, p c = true := by
  intro c
  unfold allBytes at h
  rw [List.all_eq_true] at h
  have := h c.toNat (by simp [List.mem_range]; exact c.toNat_lt)
  simpa using this

/-- Go's `tbl[c]` on a 256-byte string constant. -/
@[inline] def tget (t : Array UInt8) (c : UInt8) : UInt8 := t[c.toNat]!

def str (s : String) : Bytes := s.toUTF8.toList

def CR : UInt8 := 13
def LF : UInt8 := 10

def hexDigit (n : UInt8) : UInt8 := if n < 10 then 48 + n else 87 + n

def toHex : Bytes → String
  | [] => ""
  | c :: t => String.ofList [Char.ofNat (hexDigit (c >>> 4)).toNat, Char.ofNat (hexDigit (c &&& 15)).toNat] ++ toHex t

def hexVal (c : Char) : Option UInt8 :=
  if '0' ≤ c ∧ c ≤ '9' then some (c.toNat - 48).toUInt8
  else if 'a' ≤ c ∧ c ≤ 'f' then some (c.toNat - 87).toUInt8
  else if 'A' ≤ c ∧ c ≤ 'F' then some (c.toNat - 55).toUInt8
  else none

def fromHexChars : List Char → Option Bytes
  | [] => some []
  | [_] => none
  | a :: b :: t => do
    let x ← hexVal a
    let y ← hexVal b
    let r ← fromHexChars t
    pure ((x <<< 4 ||| y) :: r)

/-- Hex field codec of the line protocol; `-` stands for the empty string. -/
def fromHex (s : String) : Option Bytes :=
  if s = "-" then some [] else fromHexChars s.toList

def encHex (b : Bytes) : String := if b.isEmpty then "-" else toHex b

end Hertz
