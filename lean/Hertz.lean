import Hertz.Basic
import Hertz.Gen.Tables
import Hertz.Gen.Consts
