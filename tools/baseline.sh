#!/bin/bash
# baseline.sh [repo] : run the pinned test suite (guard off) on a tree and compare with /root/.vp/BASELINE.json's stable_pass list
R=${1:-/repo}
export GOFLAGS=-mod=mod GOPROXY=off GOSUMDB=off GOTOOLCHAIN=local
for m in . ./cmd/hz; do (cd $R/$m && go test -mod=mod -json -vet=off -count=1 -timeout 25m ./... ); done > /tmp/baseline_$$.json 2>/dev/null
python3 - /tmp/baseline_$$.json <<'PY'
import json,sys,ast
b=json.load(open('/root/.vp/BASELINE.json'))
sp=b['stable_pass']
if isinstance(sp,str): sp=ast.literal_eval(sp)
passed=set()
for l in open(sys.argv[1]):
    try: e=json.loads(l)
    except Exception: continue
    if e.get('Action')=='pass' and e.get('Test'): passed.add(e['Package']+'::'+e['Test'])
missing=[t for t in sp if t not in passed]
print('stable %d, passing now %d, stable tests not passing: %d'%(len(sp),len(passed),len(missing)))
for t in missing[:20]: print('  MISSING',t)
sys.exit(1 if missing else 0)
PY
rc=$?; rm -f /tmp/baseline_$$.json; exit $rc
