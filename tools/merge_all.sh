#!/bin/bash
# merge_all.sh <ID>... : merge_x.sh for each ID with the mechanical conflict resolvers (known_findings.json, lean/Main.lean)
cd /verif
for id in "$@"; do
  echo "=================== $id"
  tools/merge_x.sh $id $(cat /tmp/x-$id/BASE) > /tmp/merge_$id.log 2>&1
  U=$(git diff --name-only --diff-filter=U)
  for f in $U; do
    case $f in
      known_findings.json) tools/merge_kf.py x-$id ${DROPPED:-}; git add $f;;
      lean/Main.lean) tools/merge_main.py x-$id; git add $f;;
      bin/props.py) tools/merge_both.py $f; python3 -c "import sys; sys.path.insert(0,'/verif/bin'); import props" && git add $f;;
      *) echo "UNRESOLVED: $f";;
    esac
  done
  if [ -z "$(git diff --name-only --diff-filter=U)" ]; then
    git commit -qm "merge x-$id" 2>/dev/null; echo "merged $id: $(git log --oneline | head -1)"
  else
    echo "STOP at $id"; break
  fi
done
