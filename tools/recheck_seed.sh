#!/bin/bash
# recheck_seed.sh <Cxx-mN> [check ids...] : apply a stored seeded change to a scratch worktree of /repo's HEAD and run
# the given checks (default: the property's own) against it via VERIF_REPO.  Updates "checks_run_latest" in meta.json.
set -u
ID=$1; shift
P=${ID%%-*}
CHECKS="${@:-$P}"
D=/verif/seeded/$ID
SR=/tmp/seedrepo-$ID
export GOFLAGS=-mod=mod GOPROXY=off GOSUMDB=off GOTOOLCHAIN=local
git -C /repo worktree remove --force $SR >/dev/null 2>&1; rm -rf $SR
git -C /repo worktree add -q --detach $SR HEAD || { echo "worktree failed"; exit 2; }
if ! git -C $SR apply $D/patch.diff 2>/tmp/recheck_$ID.err; then
  if ! git -C $SR apply -3 $D/patch.diff 2>>/tmp/recheck_$ID.err; then
    echo "$ID: patch does not apply to HEAD"; git -C /repo worktree remove --force $SR; exit 3
  fi
fi
( cd $SR && go build ./... ) >/tmp/recheck_build_$ID.log 2>&1 || { echo "$ID: does not build"; git -C /repo worktree remove --force $SR; exit 4; }
RES=""
for c in $CHECKS; do
  ( cd /verif && VERIF_REPO=$SR timeout 1800 bin/check $c ${TIER:-quick} > /tmp/recheck_${ID}_$c.log 2>&1 ); rc=$?
  v=$(grep -m1 "^VIOLATION" /tmp/recheck_${ID}_$c.log | cut -c1-200)
  RES="$RES $c:rc=$rc"; echo "$ID check $c rc=$rc  $v"
done
git -C /repo worktree remove --force $SR; rm -rf $SR
python3 - "$D/meta.json" "$RES" <<'PY'
import json,sys,subprocess
m,res=sys.argv[1:3]
j=json.load(open(m))
j["checks_run_latest"]=res.strip()
j["checked_at_verif"]=subprocess.run(["git","-C","/verif","rev-parse","--short","HEAD"],capture_output=True,text=True).stdout.strip()
json.dump(j,open(m,"w"),indent=1)
PY
