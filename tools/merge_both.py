#!/usr/bin/env python3
"""merge_both.py <file> : resolve append/append conflicts by keeping both sides (ours first)."""
import sys,re
p=sys.argv[1]; s=open(p).read()
s=re.sub(r'<<<<<<< [^\n]*\n(.*?)=======\n(.*?)>>>>>>> [^\n]*\n', lambda m: m.group(1)+m.group(2), s, flags=re.S)
open(p,'w').write(s)
