#!/bin/bash
# try_seed.sh <Cxx> <mN> [check ids...] : verify a seeded change (demo fails with it, passes without) in the agent's
# scratch worktree, then apply it to /repo, run the checks, undo, and store it under /verif/seeded/<Cxx>-<mN>/
set -u
P=$1; M=$2; shift 2
CHECKS="${@:-$P}"
OUT=${OUTBASE:-/tmp/mutout}-$P; WT=${WTBASE:-/tmp/mut}-$P
export GOFLAGS=-mod=mod GOPROXY=off GOSUMDB=off GOTOOLCHAIN=local
meta=$OUT/$M.json
[ -f $OUT/$M.diff ] || { echo "no diff"; exit 2; }
git -C $WT checkout -q -- . ; git -C $WT clean -fdq
python3 - "$meta" "$OUT" "$M" "$WT" <<'PY' > /tmp/seed_env_$P$M.sh
import json,sys,os,shlex
meta,out,m,wt=sys.argv[1:5]
j=json.load(open(meta))
dp=j.get("demo_path_in_repo")
cmd=j.get("demo_cmd","").replace("<repo>", wt).replace("/path/to/hertz", wt)
files=[]
ddir=os.path.join(out,m+"_demo")
for root,_,fs in os.walk(ddir):
    for f in fs:
        files.append(os.path.join(root,f))
# map demo files to repo paths
pairs=[]
if isinstance(dp,dict):
    for k,v in dp.items():
        src=[f for f in files if f.endswith(os.path.basename(k))]
        if src: pairs.append((src[0],v))
elif isinstance(dp,list):
    for v in dp:
        src=[f for f in files if os.path.basename(f)==os.path.basename(v)]
        if src: pairs.append((src[0],v))
elif isinstance(dp,str):
    if len(files)==1: pairs.append((files[0],dp if dp.endswith(".go") else os.path.join(dp,os.path.basename(files[0]))))
    else:
        for f in files: pairs.append((f, os.path.join(dp if not dp.endswith(".go") else os.path.dirname(dp), os.path.basename(f))))
print("DEMO_CMD=%s"%shlex.quote(cmd))
print("DEMO_PAIRS=%s"%shlex.quote(";".join("%s=%s"%p for p in pairs)))
PY
. /tmp/seed_env_$P$M.sh
echo "demo cmd: $DEMO_CMD"; echo "pairs: $DEMO_PAIRS"
IFS=';' read -ra PAIRS <<< "$DEMO_PAIRS"
for pr in "${PAIRS[@]}"; do src=${pr%%=*}; dst=${pr#*=}; dst=${dst#$WT/}; mkdir -p $WT/$(dirname $dst); cp $src $WT/$dst; done
( cd $WT && timeout 600 bash -c "$DEMO_CMD" > /tmp/seed_demo_clean_$P$M.log 2>&1 ); RC_CLEAN=$?
git -C $WT apply $OUT/$M.diff || { echo "diff does not apply"; exit 2; }
( cd $WT && go build ./... > /tmp/seed_build_$P$M.log 2>&1 ); RC_BUILD=$?
( cd $WT && timeout 600 bash -c "$DEMO_CMD" > /tmp/seed_demo_mut_$P$M.log 2>&1 ); RC_MUT=$?
git -C $WT checkout -q -- . ; git -C $WT clean -fdq
echo "demo without change rc=$RC_CLEAN ; build with change rc=$RC_BUILD ; demo with change rc=$RC_MUT"
# run the checks against a scratch worktree of /repo's HEAD with the change applied (VERIF_REPO), so that /repo itself
# is never touched and other checks can run meanwhile
SR=/tmp/seedrepo-$P-$M
git -C /repo worktree remove --force $SR >/dev/null 2>&1; rm -rf $SR
git -C /repo worktree add -q --detach $SR HEAD || { echo "worktree failed"; exit 2; }
git -C $SR apply $OUT/$M.diff || { echo "does not apply to HEAD"; git -C /repo worktree remove --force $SR; exit 2; }
RES=""
for c in $CHECKS; do
  ( cd /verif && VERIF_REPO=$SR timeout 1500 bin/check $c ${TIER:-quick} > /tmp/seed_check_${P}_${M}_$c.log 2>&1 ); rc=$?
  v=$(grep -m1 "^VIOLATION" /tmp/seed_check_${P}_${M}_$c.log | cut -c1-160)
  RES="$RES $c:rc=$rc"; echo "check $c rc=$rc  $v"; tail -1 /tmp/seed_check_${P}_${M}_$c.log | cut -c1-200
done
git -C /repo worktree remove --force $SR; rm -rf $SR
D=/verif/seeded/$P-$M; mkdir -p $D; cp $OUT/$M.diff $D/patch.diff; cp -r $OUT/${M}_demo $D/demo 2>/dev/null; 
python3 - "$meta" "$D" "$RC_CLEAN" "$RC_BUILD" "$RC_MUT" "$RES" <<'PY'
import json,sys
meta,d,rc_clean,rc_build,rc_mut,res=sys.argv[1:7]
j=json.load(open(meta))
j["confirmed"]={"demo_passes_without_change":rc_clean=="0","builds_with_change":rc_build=="0","demo_fails_with_change":rc_mut!="0"}
j["checks_run"]=res.strip()
json.dump(j,open(d+"/meta.json","w"),indent=1)
PY
echo "stored $D"
