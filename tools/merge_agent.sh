#!/bin/sh
# merge_agent.sh <Cxx>: copy files created by a builder agent (new files only), show diffs of shared files
P=$1; SRC=/tmp/build-$P/verif
cd $SRC
find lean/Hertz lean/Main.lean gen harness bin hooks tools corpus known_findings.json -type f 2>/dev/null | grep -v "/Gen/\|\.lake\|verifgen$\|go.sum$\|__pycache__" | while read f; do
  if [ ! -e /verif/$f ]; then mkdir -p /verif/$(dirname $f); cp $f /verif/$f; echo "NEW $f";
  elif ! cmp -s $f /verif/$f; then echo "DIFFERS $f"; fi
done
