#!/bin/bash
# mkcopy.sh <ID> : private, already built copy of /verif for extension agent x-<ID> (see tools/agent_brief.md)
set -eu
ID=$1
D=/tmp/x-$ID
rm -rf $D; mkdir -p $D
rsync -a --exclude .git --exclude run --exclude replays /verif/ $D/verif/
# lake records absolute paths nowhere that matters; the driver binary is rebuilt on demand
git -C /verif rev-parse HEAD > $D/BASE
echo "$D/verif ready (base $(cat $D/BASE))"
