#!/bin/bash
# merge_x.sh <ID> <base-commit> : three-way merge of an extension agent's copy (/tmp/x-<ID>/verif, taken at <base-commit>)
# into /verif through a temporary branch.  Evidence, MANIFEST.json and generated files are left out (regenerated here).
set -eu
ID=$1; BASE=$2
W=/tmp/merge-$ID
cd /verif
git worktree remove --force $W >/dev/null 2>&1 || true
git branch -D x-$ID >/dev/null 2>&1 || true
git worktree add -q -b x-$ID $W $BASE
rsync -a --exclude .git --exclude .lake --exclude run --exclude replays --exclude 'lean/Hertz/Gen' --exclude go.sum \
  --exclude bin/verifgen --exclude __pycache__ --exclude evidence --exclude MANIFEST.json --exclude '*.orig' \
  --exclude 'lean/.build.lock' --exclude repo /tmp/x-$ID/verif/ $W/
mkdir -p $W/notes; [ -f $W/INTEGRATION.md ] && mv $W/INTEGRATION.md $W/notes/X$ID.md
git -C $W add -A
git -C $W commit -qm "agent x-$ID: work on a copy taken at $BASE" || true
git -C $W show --stat HEAD | tail -40
git worktree remove --force $W
git merge --no-edit x-$ID || { echo "MERGE CONFLICTS:"; git diff --name-only --diff-filter=U; }
