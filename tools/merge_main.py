#!/usr/bin/env python3
"""merge_main.py <branch> : resolve a conflict in lean/Main.lean by union: ours + the imports and handler entries only <branch> has."""
import re, subprocess, sys
br = sys.argv[1]
ours = subprocess.run(["git", "show", "HEAD:lean/Main.lean"], capture_output=True, text=True).stdout
theirs = subprocess.run(["git", "show", br + ":lean/Main.lean"], capture_output=True, text=True).stdout
oi = [l for l in ours.split("\n") if l.startswith("import ")]
ti = [l for l in theirs.split("\n") if l.startswith("import ")]
newi = [l for l in ti if l not in oi]
def handlers(s):
    m = re.search(r"def handlers : List Handler := \[(.*?)\]", s, re.S)
    return [x.strip() for x in m.group(1).split(",")], m
oh, om = handlers(ours); th, _ = handlers(theirs)
newh = [h for h in th if h not in oh]
out = ours
if newi:
    last = oi[-1]
    out = out.replace(last + "\n", last + "\n" + "\n".join(newi) + "\n", 1)
if newh:
    out = out.replace(om.group(0), "def handlers : List Handler := [" + ", ".join(oh + newh) + "]")
open("/verif/lean/Main.lean", "w").write(out)
print("imports added:", newi, "handlers added:", newh)
