#!/bin/bash
# merge_proof.sh <PXX>: bring a proof agent's result (/tmp/proof-PXX/verif) into /verif.
# Copies new files and the property's Props file; lists every other changed file for manual review.
set -u
ID=$1; SRC=/tmp/proof-$ID/verif; PROP=C${ID#P}
cd /verif
diff -rq --exclude .lake --exclude run --exclude replays --exclude evidence --exclude go.sum --exclude verifgen --exclude Gen --exclude INTEGRATION.md --exclude .git $SRC . | while read -r line; do
  case "$line" in
    "Only in $SRC"*) d=${line#Only in }; dir=${d%%: *}; f=${d#*: }; rel=${dir#$SRC}; rel=${rel#/}; echo "NEW  $rel/$f"; mkdir -p "./$rel"; cp -r "$dir/$f" "./$rel/$f";;
    "Files "*) a=$(echo "$line" | awk '{print $2}'); rel=${a#$SRC/};
       if [ "$rel" = "lean/Hertz/Props/$PROP.lean" ]; then echo "PROPS $rel"; cp "$a" "./$rel";
       else echo "CHANGED (review): $rel"; fi;;
    "Only in ."*) ;;
  esac
done
mkdir -p /verif/notes; cp $SRC/INTEGRATION.md /verif/notes/$ID.md 2>/dev/null
