#!/bin/bash
# try_both.sh <Cxx> : run try_seed.sh for m5 and m6 of a property, print the essentials
P=$1
for m in ${MS:-m5 m6}; do /verif/tools/try_seed.sh $P $m > /tmp/try_${P}_$m.log 2>&1; echo "== $P $m"; grep -E "demo without|check C|does not|no diff" /tmp/try_${P}_$m.log; done
