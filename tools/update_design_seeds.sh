#!/bin/bash
# rewrites the generated seeds table of DESIGN.md section 10
cd /verif
python3 - <<'PY'
import subprocess,re
t=subprocess.run(['python3','/verif/tools/seed_table.py'],capture_output=True,text=True).stdout
s=open('/verif/DESIGN.md').read()
s=re.sub(r'<!-- SEEDS-TABLE-BEGIN -->.*?<!-- SEEDS-TABLE-END -->','<!-- SEEDS-TABLE-BEGIN -->\n'+t+'<!-- SEEDS-TABLE-END -->',s,flags=re.S)
open('/verif/DESIGN.md','w').write(s)
PY
