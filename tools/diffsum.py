#!/usr/bin/env python3
"""Summarise driver DIFF/SPEC lines: show where impl and model first differ (compact)."""
import sys, collections
n = 0
kinds = collections.Counter()
limit = int(sys.argv[1]) if len(sys.argv) > 1 else 8
for line in sys.stdin:
    if line.startswith("DIFF"):
        parts = line.rstrip("\n").split(" | ")
        args = parts[0].split()
        impl = parts[1].split()[1:]
        model = parts[2].split()[1:]
        i = 0
        while i < len(impl) and i < len(model) and impl[i] == model[i]:
            i += 1
        key = (args[2], " ".join(t[:24] for t in impl[max(0,i-1):i+4]), " ".join(t[:24] for t in model[max(0,i-1):i+4]))
        kinds[(key[1][:40], key[2][:40])] += 1
        if n < limit:
            a = " ".join(x[:60] for x in args[2:7])
            print("DIFF line=%s %s\n   at tok %d impl: %s\n            model: %s" % (args[1], a, i, key[1], key[2]))
        n += 1
    elif line.startswith(("SUMMARY", "SPEC", "BAD")):
        print(line[:300].rstrip())
print("total diffs", n)
for k, v in kinds.most_common(12):
    print(v, k)
