#!/usr/bin/env python3
"""seed_table.py : markdown table of the seeded changes of rounds 2+ (seeded/*/meta.json: short, needs_short, checks_run*)."""
import json, glob, os, re, sys
rows = []
for d in sorted(glob.glob('/verif/seeded/*-m*')):
    sid = os.path.basename(d)
    n = int(sid.split('-m')[1])
    if n < 3: continue
    m = json.load(open(d + '/meta.json'))
    runs = (str(m.get('checks_run', '')) + ' ' + str(m.get('checks_run_latest', ''))).split()
    caught = sorted({r.split(':')[0] for r in runs if r.endswith('rc=1')})
    missed = sorted({r.split(':')[0] for r in runs if r.endswith('rc=0')} - set(caught))
    note = m.get('table_note', '')
    if not caught: cb = '**missed**'
    else: cb = ', '.join(caught)
    if missed and caught and sid.split('-')[0] in missed and not note:
        note = 'not by %s' % ', '.join(missed)
    rows.append('| %s | %s | %s | %s |' % (sid, m.get('short', '?'), cb, note))
print('| seed | change | caught by | note |\n|---|---|---|---|')
print('\n'.join(rows))
