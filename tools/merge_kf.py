#!/usr/bin/env python3
"""merge_kf.py <branch> : three-way merge of known_findings.json by finding id / fixed line (base = merge-base of HEAD and <branch>):
entries the branch added are added, entries the branch deleted are deleted, entries the branch changed replace ours."""
import json, subprocess, sys
br = sys.argv[1]
def show(rev):
    return json.loads(subprocess.run(["git", "show", rev + ":known_findings.json"], capture_output=True, text=True).stdout)
base_rev = subprocess.run(["git", "merge-base", "HEAD", br], capture_output=True, text=True).stdout.strip()
ours, theirs, base = show("HEAD"), show(br), show(base_rev)
bi = {f["id"]: f for f in base["findings"]}; ti = {f["id"]: f for f in theirs["findings"]}
out = []
for f in ours["findings"]:
    i = f["id"]
    if i in bi and i not in ti:
        print("deleted by branch:", i); continue
    if i in ti and i in bi and ti[i] != bi[i]:
        print("changed by branch:", i); out.append(ti[i]); continue
    out.append(f)
oi = {f["id"] for f in ours["findings"]}
for f in theirs["findings"]:
    if f["id"] not in oi and f["id"] not in bi:
        print("added by branch:", f["id"]); out.append(f)
ours["findings"] = out
bf = set(base.get("fixed", [])); of = ours.get("fixed", [])
for x in theirs.get("fixed", []):
    if x not in bf and x not in of:
        of.append(x); print("fixed line added:", x[:70])
ours["fixed"] = of
json.dump(ours, open("/verif/known_findings.json", "w"), indent=1, ensure_ascii=False)
open("/verif/known_findings.json", "a").write("\n")
