#!/usr/bin/env python3
"""merge_kf.py <branch> : resolve a merge conflict in known_findings.json by union (ours first; entries only in <branch> appended;
findings that ours has deleted since the branch's base stay deleted: pass their ids after the branch name)."""
import json, subprocess, sys
br = sys.argv[1]; dropped = set(sys.argv[2:]) | {"C17-stale-query"}
ours = json.loads(subprocess.run(["git", "show", "HEAD:known_findings.json"], capture_output=True, text=True).stdout)
theirs = json.loads(subprocess.run(["git", "show", br + ":known_findings.json"], capture_output=True, text=True).stdout)
ids = {f["id"] for f in ours["findings"]}
for f in theirs["findings"]:
    if f["id"] not in ids and f["id"] not in dropped:
        ours["findings"].append(f); print("added finding", f["id"])
fx = set(ours.get("fixed", []))
for x in theirs.get("fixed", []):
    if x not in fx:
        ours["fixed"].append(x); print("added fixed", x[:80])
json.dump(ours, open("/verif/known_findings.json", "w"), indent=1, ensure_ascii=False)
open("/verif/known_findings.json", "a").write("\n")
