# per-property configuration of bin/check
PROPS = {
    "C17": {
        "modules": ["Hertz.Props.C17"],
        "rule": "Exhaustive strings of <=3 (quick) / <=5 (thorough) tokens over a 16-token hostile alphabet "
                "(a % + & = ; # SP %41 %2 %zz NUL 0xff %2B / ?) through quote/decode/parse/fix/net-url ops; "
                "all one- and (sampled) two-entry argument lists over short hostile strings; random longer inputs.",
        "exhaustive_note": "token strings up to the stated length are enumerated completely; the rest is sampled",
        "level_text": "Round-trip theorems (decode . quote = id, parse . serialise = id on argument lists) proved in Lean for all byte strings over the escape tables regenerated from the Go source; model held to the code by differential runs incl. exhaustive short hostile strings; agreement with net/url checked on every accepted string.",
        "level_note": "Trusted: Lean kernel, translator for the 256-byte tables, harness/driver. URI and cookie round-trips: see level_text of later rounds.",
        "assumptions": ["net/url is the reference for args_agree_std", "time formatting is Go's (cookie expiry)"],
    },
}

NOT_CLAIMED = {}
