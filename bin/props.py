# per-property configuration of bin/check
PROPS = {
    "C17": {
        "modules": ["Hertz.Props.C17"],
        "rule": "Exhaustive strings of <=3 (quick) / <=5 (thorough) tokens over a 16-token hostile alphabet "
                "(a % + & = ; # SP %41 %2 %zz NUL 0xff %2B / ?) through quote/decode/parse/fix/net-url ops; "
                "all one- and (sampled) two-entry argument lists over short hostile strings; random longer inputs. URIs: every string of <=3 tokens over {a / ? # : @ // %41 % SP NUL http . ..} parsed with and without Host; URIs assembled through the setters (hostile schemes, hosts, paths, fragments, query lists) through FullURI -> Parse -> FullURI; cookie strings from an attribute vocabulary with mutations; cookies built through the setters. Extension (c17x.go): RFC 1123 dates - boundary timestamps (epoch, every month start, leap days, century years 1900/2100/2400, years -1/0/1/9999/10000, the zero Time, CookieExpireDelete, 32-bit limits; each +-1 s) formatted in three locations and parsed back, every third day of 1899-1901, 1999-2001, 2099-2101, 2399-2401, 9998-10000, -1..1, random timestamps inside and far outside the four-digit-year range, every written text with each of its 29 positions overwritten by 10 bytes, grammar-generated date strings (each of 12 fields from a valid/near-miss vocabulary) and mutated valid texts through bytesconv.ParseHTTPDate, time.ParseInLocation(RFC1123, UTC) and the dashed cookie layout; cookies with all ten attributes incl. expiry (zero Time, CookieExpireDelete, sub-second, non-UTC locations, out-of-range years, next to max-age) built on fresh and used objects, cookie strings with expires attributes; every Args program of <=3 operations over an 11-operation alphabet and random programs of Add/Set/Del/DelBytes/ParseBytes/Reset; request cookies: every Cookie value of <=4 (6) tokens over {a = ; SP \" b '; ' NUL}, every key x value of a hostile vocabulary through SetCookie -> Peek(Cookie) -> a second header, random SetCookie/DelCookie/DelAllCookies/Cookie-line programs; URI programs: 20 base texts x 39 Update references (x a second Update), the former stale-query programs (QueryArgs use then SetQueryString / Update(?...), delete-all after a parse) and their neighbours, random programs of Parse/setters/user-info/QueryArgs mutations/Update/Reset, each ending in FullURI -> Parse -> FullURI on a used object.",
        "exhaustive_note": "token strings up to the stated length are enumerated completely; the rest is sampled",
        "level_text": "Round-trip theorems (decode . quote = id, parse . serialise = id on argument lists) proved in Lean for all byte strings over the escape tables regenerated from the Go source; model held to the code by differential runs incl. exhaustive short hostile strings; agreement with net/url checked on every accepted string. Proved for all inputs as well: the RFC 1123 date round trip on the whole four-digit-year range (with the day-number/civil-date bijection), the cookie round trip with all ten attributes incl. expires (canonical form: whole seconds, no expiry next to max-age), the round trip after any program of Args mutators, of request cookies under an exact well-formedness predicate, and of any program of URI setters / Parse / Update / QueryArgs mutations (Update never panics; user-info is never written).",
        "level_note": "Trusted: Lean kernel, translator for the 256-byte tables, harness/driver. URI and cookie round trips are modelled (parse, FullURI, cookie scanner and serialiser), compared with the code and checked per case on the implementation's output; their Lean theorems are open. Go's time package (AppendFormat / Parse on the RFC 1123 layouts) is modelled in Model/HttpDate.lean and compared with the real package on every date case; time.Local is pinned to UTC in the harness (time.Parse resolves zone abbreviations against it). Known finding: control byte in the fragment. The stale query in FullURI after SetQueryString / deleting the last argument is repaired (/repo 97b0e80): the model chooses by parsedQueryArgs, the query conjunct of the URI-program round trip is demanded in every state, a recurrence is a violation.",
        "assumptions": ["net/url is the reference for args_agree_std", "Go's time package computes what Model/HttpDate.lean says on the three layouts hertz uses (compared per case)", "time.Local has no zone abbreviation other than UTC (pinned by the harness)"],
        "timeout": {"quick": 600, "thorough": 3000},
    },
}

PROPS["C07"] = {
    "modules": ["Hertz.Props.C07"],
    "rule": "Every string of <=7 (quick) / <=9 (thorough) tokens over {/ . a %2e %2f % \\} through normalizePath and CleanPath, paths of every length 90..160 (and up to 400) around CleanPath's 128-byte stack buffer behind six prefixes that need rewriting, "
            "plus random longer paths built from a segment vocabulary (.., ., %2e%2E, %2f, %252e, ..., random) with mutations. "
            "File-system side: the stock FS.PathRewrite functions (NewVHostPathRewriter(n), NewPathSlashesStripper(n)) on a request context for "
            "every Host header of <=3 tokens over {. a / %2e %2f % \\ @} x every request target of <=3 (thorough 4) tokens, plus a vocabulary of "
            "hostile hosts (.., ., %2e%2e, userinfo, ports, NUL, encoded slashes) x targets (origin and absolute form); the REAL fsHandler "
            "(FS{Root, IndexNames, GenerateIndexPages, PathRewrite}.NewRequestHandler, one recycled RequestContext per handler) over a directory "
            "tree on disk whose root has recognisable files next to and above it, for rewriter {none, stripper 1-2, vhost 0-2} x index mode "
            "{index file, generated listing, both, none}: which file's bytes / which directory's listing came back; and the handler behind an "
            "application rewriter returning every string of <=5 (6) tokens over {/ . .. a f x NUL}.",
    "exhaustive_note": "all token strings up to the stated length are enumerated completely (1.0M strings in quick)",
    "level_text": "Containment (leading slash, no '..' segment, no inner empty or '.' segment) proved in Lean for the model of normalizePath "
                  "for every byte string, including termination of the /../ loop; the model is compared with the Go function on ~1M "
                  "exhaustively enumerated strings per run, and the implementation's output is checked against the stack-machine reference "
                  "and the containment predicate on every case. CleanPath: model compared and predicate checked per case (theorem open). "
                  "File-system side: model of the path pipeline of pkg/app/fs.go (rewriters, stripTrailingSlashes, NUL test, /../ guard, os.Open of "
                  "root+path over an abstract tree with the kernel's component-wise resolution); proved for every Host header, request target, strip "
                  "count and tree: the stock rewriters never panic, the rewritten path and ctx.Path() afterwards are contained, what is appended to "
                  "FS.Root is empty or contained, and every file or listing served lies inside the root (serve_inside_root); the same for ANY bytes an "
                  "application-supplied rewriter returns (custom_rewrite_inside: 400/500 or inside the root; true since repo commit bd67071, which "
                  "added the trailing-/.. and leading-slash tests; the former witnesses are regression examples). The model is compared with the real handler per case and 'served from inside the root' is evaluated on "
                  "what the real handler returned; the source skeletons of the mirrored functions are regenerated and pinned (model_matches_gen_C07).",
    "level_note": "Trusted: Lean kernel, table translator (Hex2intTable), harness/driver. Not proved: equality with the stack reference "
                  "(checked per case), CleanPath containment (checked per case). Windows separator branch not modelled. File-system side: the OS is "
                  "modelled as a tree of plain files and directories (no symlinks, no permissions); compression, byte ranges and cache expiry are off "
                  "(C08); FS.Root is a plain directory name below the base the harness creates.",
    "assumptions": ["unix build (filepath.Separator == '/')", "no symbolic links below FS.Root", "FS.IndexNames have no '..' component"],
    "timeout": {"quick": 300, "thorough": 3000},
}

_H1_NOTE = ("Trusted: Lean kernel; translator for byte tables and header-name constants; harness (scripted net.Conn behind the real "
            "standard.Conn via hook H1, echo middleware on the real Engine) and driver. The loop model covers buffered request bodies; "
            "multipart pre-parsing is switched off; netpoll transport is not exercised (its Reader is trusted to be a FIFO).")
PROPS["C01"] = {
    "modules": ["Hertz.Props.C01"],
    "rule": "Streams of 1..6 pipelined requests from a grammar generator (methods, targets, repeated/mixed-case/near-miss framing names incl. "
            "bit-5 neighbours, obs-fold, body sizes 0..65537 around 4 KiB/8 KiB, Content-Length or chunked with arbitrary chunk sizes, hex case, "
            "leading zeros, trailers, Expect: 100-continue, close), 85% well-formed, delivered under random segmentation; plus raw request heads. "
            "Trailer generator (op servet): chunked requests whose trailer section differs from the announcement (fields not announced, announced names "
            "without field, names announced / sent twice, other letter case, forbidden names, OWS and obs-fold in values) and whose Trailer field is "
            "spelled in every list form (a,b / a ,b / empty elements / leading and trailing comma / HTAB / two Trailer fields / forbidden names). "
            "Transport configurations (op netserve): well-formed streams of 1..4 requests (+ closing request), bodies up to 65537 bytes, through the real "
            "netpoll transport, the standard transport and the standard transport with WithSenseClientDisconnection(true) over loopback TCP under "
            "several write segmentations, also with the next request written while the first handler is still running (hold).",
    "level_text": "Lean model of the HTTP/1 request reader and keep-alive loop mirrors the Go code and is compared with the real server on every case; "
                  "theorems: framing names are recognised exactly by ASCII-case-insensitive equality (table regenerated from source), every handled "
                  "request is followed by exactly its own response, in order. The implementation's view of each request is checked against an "
                  "independent strict RFC 7230 decoder on every well-formed stream.",
    "level_note": _H1_NOTE + " Open: model-refines-strict-decoder theorem (checked per case). Trailers: trailer_view / serve_roundtrip_any_trailers / "
                  "trailer_decl_spellings (every list spelling, SP/HTAB; full strength since /repo 117944e) proved for every announcement and every trailer section; Connection: close is recognised in any letter case (/repo 9dcdbe5; the loop model, the strict reading and close_readings_agree follow it); announced names are computed by the specification "
                  "(RFC 7230 list rule over all Trailer fields), not taken from the implementation.",
    "assumptions": ["netpoll reader and the sense-client-disconnection goroutine are not modelled: they are run over loopback TCP against the model's single answer (tags netpoll:/std:/sense:, +hold)",
                    "DisablePreParseMultipartForm"],
}
PROPS["C02"] = {
    "modules": ["Hertz.Props.C02"],
    "rule": "250 (quick) / 6000 (thorough) streams of <=420 bytes, each under EVERY two-way split, byte-wise delivery and random k-way splits, "
            "plus longer streams under random splits; every run must equal the model's single answer for the concatenation. X02: 50 (quick) / 1200 "
            "(thorough) fold-heavy header blocks (continuation lines of blanks only, tabs, CR CR LF, several folds, folds in the last header, colon in a "
            "continuation line, bytes behind the block) under EVERY cut: scanner on the prefix, on its edited bytes plus the rest, on the whole, on the "
            "edited whole again (fields, HLen and the buffer bytes compared); the resp/req/trailer readers on every prefix, and on the whole block in two reads "
            "at every cut, with the connection buffer read back.",
    "exhaustive_note": "all two-way split points of each generated stream are enumerated",
    "level_text": "The model is a function of the concatenated stream; the real server is run under all two-way splits and byte-wise delivery of each stream "
                  "and must match it. Theorems: stability of the header-block completeness pre-check and of delimiter positions under appended bytes.",
    "level_note": _H1_NOTE + " Client-side (response) segmentation is covered under C11.",
    "assumptions": ["standard transport"],
}
PROPS["C03"] = {
    "modules": ["Hertz.Props.C03"],
    "rule": "Mostly malformed streams: structure-aware mutations (byte delete/replace/insert/swap, truncation, bit-5 flips) of generated requests, raw "
            "request heads with hostile lines; EOF or stalled peer at any point; with recover() around the server.",
    "level_text": "Theorem: every error the loop model emits is one 400/413/408 carrying Connection: close, last on the wire, with no handler run; the model "
                  "matches the real server on every malformed stream explored; output bytes are re-parsed by a strict response reader; a panic is an outcome "
                  "the model never produces.",
    "level_note": _H1_NOTE + " Public parsers of URIs/cookies are covered under C17/C07; client response path under C11.",
    "assumptions": ["standard transport", "default engine without recovery middleware"],
}

PROPS["C06"] = {
        "modules": ["Hertz.Props.C06"],
        "rule": "Bounded-exhaustive: every set of <=3 route patterns of <=2 segments over the segment alphabet "
                "{a, ab, :x, :y, b:x, *z, empty} in every registration order (rejected sets included: the model must "
                "refuse the same route with the same class), sets of 4 over the 42 accepted clean patterns (quick: every "
                "31st set in 3 orders; thorough: all 111930 sets in 6 orders), sampled sets of 4-6 patterns of <=3 "
                "segments in 3 orders, random sets of 1-12 routes over a larger alphabet with two methods in two orders, "
                "and a malformed stream (unclean / invalid patterns, hostile request targets); each line carries 12-33 "
                "lookups (paths instantiated from and near the patterns, plus a method without tree) served by "
                "Engine.ServeHTTP on a ut-style context.",
        "exhaustive_note": "route sets of <=3 patterns with <=2 segments over the 7-segment alphabet: all sets x all orders (both tiers); sets of 4 over the accepted clean patterns: all sets in thorough; the rest is sampled",
        "level_text": "Proved in Lean for all inputs (no size bound): for every route list that registration accepts, every method and path, Engine.serve runs the handler of the route selected by the documented priority (literal > :param > *catch-all at the first token where matching patterns differ), reports that route's pattern as full path and binds each parameter to the substring it matched; if no pattern matches no route handler runs; it never panics; the outcome is the same for every registration order of the same set (dispatch_selected, order_independent, accepted_distinct, register_one, insert_preserves, find_best). The model (tree.go insert/addRoute/find, engine.go addRoute/ServeHTTP) is held to the Go code by differential runs including all small route sets in all orders, and the declarative spec is evaluated on the implementation's own output for every lookup.",
        "level_note": "Trusted: Lean kernel, harness/driver, the recursive formulation of the iterative find (validated by the correspondence). Hypothesis of the theorems: patterns shorter than 65536 bytes (countParams is a uint16; with >=65536 wildcards in one pattern the real code panics). Open: order independence of *acceptance* is checked differentially only. path.Join (pattern cleaning) and URI normalisation are taken from the implementation; redirect-vs-404 for unmatched paths is not modelled (status copied).",
        "assumptions": ["path.Join (stdlib) cleans the pattern; the model starts from the absolute path it returns (checked: clean patterns are left unchanged)",
                        "the request path seen by the router is URI().Path() (normalisation is property C07)",
                        "UseRawPath/UnescapePathValues/RedirectFixedPath are off (defaults); fewer than 65536 bytes per pattern",
                        "handlers chains are non-empty (Engine.addRoute asserts it); ctx.Params starts empty (fresh or reset context)"],
        "timeout": {"quick": 240, "thorough": 2400},
    }

PROPS["C10"] = {
        "modules": ["Hertz.Props.C10"],
        "rule": "Sequential scripts on one HostClient (every single request of method x 10 faults x 3 ctx modes x dial-failure for MaxConns 1..2 (thorough 1..4), wait off/on; every pair of requests for MaxConns=2; random scripts of 3..8 requests): the Lean program model predicts outcome class, gauges and the complete hook trace. "
                "Concurrent runs (2..4 goroutines x 1..3 requests, MaxConns 1..4, wait on/off, fault per exchange from {ok, ok+close, silent close while idle (write ok / write fails), close before first byte, mid-header, mid-body, stall, stall mid-body, garbage}, dial errors, ctx cancelled before/after send, optional 3ms idle reaper, seeded yields at the lock boundaries): the recorded lock-region trace must be accepted by Pool.step with equal (connsCount, len(conns), connsWait.len()) and the quiescent gauges must match. Plus the directed stale-waiter schedule. "
                "Client level (op c10cli, the real pkg/app/client.Client with its host-client map and 10 s janitor on three hosts): step scripts over {complete call, call kept in flight by the peer, release of such a call, wait for the janitor tick (real 10 s, all tick scripts side by side), sleep past MaxConnDuration} with MaxConnsPerHost 1..3, wait on/off, MaxConnDuration off / 1ns / 400ms, requests with and without Connection: close, peer policy on a close request {ignore, close silently, echo}: exhaustive families (fresh connection - age - retiring request - next request; call in flight - second call - release), directed tick scripts (all connections busy / one idle / none left at the tick) and random scripts; the Lean script simulator predicts every row (class, per host connsCount, idle, waiters, pending, ShouldRemove, HostClients created, dials, open connections) and the spec (open connections per host <= max in every row and over the run, ShouldRemove only with connsCount = 0, at the end count = idle = open) is evaluated on the implementation's rows.",
        "exhaustive_note": "single requests and pairs of requests over the whole request alphabet are enumerated completely (sequential); concurrent schedules are sampled",
        "level_text": "Pool bookkeeping modelled at lock-region granularity and proved in Lean for every schedule of any length and any number of callers: connsCount conservation, connsCount <= MaxConns, exclusivity of every connection, quiescence (all calls returned => every connection idle or closed, nothing owed, no live waiter), release only after a clean exchange, non-idempotent requests attempted once, retries only on ErrBadPoolConn from pooled connections. Model held to the code by trace validation of the real HostClient through hook H2 and by exact trace prediction for sequential runs. The pending-request gauge is proved zero at quiescence for every schedule (the early ctx return of Do decrements since the F10 fix; the decrement-before-every-return fact is regenerated from the source). One clause is false of the code and kept as a negated witness theorem with a partial version: the waiter queue length at quiescence (stale wantConn, known finding F16).",
        "level_note": "Trusted: Lean kernel, hook H2 (add-only verifPoint lines, hooks/client.patch), harness/driver, the in-memory peer. Response-belongs-to-caller and the timeout bound are runtime checks in the harness (echoed request id, exclusive-use flag, duration), not Lean theorems. Custom RetryIfFunc, streaming bodies, upgrade, SetMaxConns at run time and CloseIdleConnections are outside the model.",
        "assumptions": ["the Dialer returns a fresh connection on every successful dial", "MaxConns is not changed while requests run", "Client level: MaxIdleConnDuration is set far above the janitor period in the tick scripts (the idle reaper and the janitor would otherwise race at 10 s); the janitor period and MaxConnDuration are real time in the harness", "default retry policy (RetryIfFunc == nil), no response body streaming, no protocol upgrade", "wantConn.waiting() may lag behind the wantConn.mu linearisation (modelled as a nondeterministic pop target)"],
        "timeout": {"quick": 120, "thorough": 1500},
        "search_timeout": 120,
    }

PROPS["C12"] = {
        "modules": ["Hertz.Props.C12"],
        "rule": "Every chain of 1..5 (quick) / 1..7 (thorough) handlers over the seven behaviours {return, Next, Abort, Next-Abort, "
                "Abort-Next, Next-Next, AbortWithStatus}, each registered through Engine.Use / Group / Handle in rotating layouts and "
                "served by Engine.ServeHTTP, and again on a bare context; every group nesting of depth 0..2 (quick; 0..3 thorough, depth 3 "
                "sampled in quick) x {middleware at creation, Use before the child group, Use after the child group, Use after the route} "
                "per level x {matched, unmatched, wrong method, missing Host}, with NoRoute/NoMethod and sibling groups; sampled long "
                "chains (30..62 handlers, up to 100 Next calls) into and below the region where the int8 index saturates at 127 (F11 regression); chains of 63..132 handlers via "
                "SetHandlers; random registration histories; a malformed stream (missing groups, duplicate routes, empty handler "
                "lists, oversized Use, reused labels, RouterGroup.Use on the engine).",
        "exhaustive_note": "chains over the seven behaviours up to the stated length and the nesting bit-patterns up to the stated depth are enumerated completely; the rest is sampled",
        "level_text": "Onion order, at-most-once entry in registration order, no entry after Abort and normal termination (no panic, index saturating at MaxInt8) proved in Lean for every chain of at most AbortIndex handlers and every script of Next/Abort/AbortWithStatus calls, unconditionally; group/engine chain assembly proved to be outermost-first with the route's own handlers last and 404/405 chains starting with the engine middleware; every registered chain proved shorter than AbortIndex (constant and the statements of Next/Abort/combineHandlers/Use/... regenerated from the Go source). Model held to RequestContext.Next/Abort and Engine.ServeHTTP by differential runs with instrumented handlers; the trace monitor is evaluated on the implementation's own traces.",
        "level_note": "Trusted: Lean kernel, translator for AbortIndex, harness/driver. The radix tree is not part of this model (static, distinct paths only; C06 covers lookup).",
        "assumptions": ["handlers touch the index only through Next/Abort/AbortWithStatus (no SetIndex, no handler panics of their own)",
                        "routes are static and pairwise distinct, so route lookup is equality (C06)",
                        "a fresh RequestContext starts with index = -1 (app.NewContext / Reset)"],
        "timeout": {"quick": 300, "thorough": 1500},
    }

PROPS["C20"] = {
        "modules": ["Hertz.Props.C20"],
        "rule": "Every operator sequence of length <=3 (quick) / <=4 (thorough) over the 13 operators, printed without parentheses: "
                "tree shape built by the real parseExpr vs the model, and verdict of binding's validator on run-time generated struct "
                "types vs an independent precedence-climbing evaluator; 20 expression templates x every small value of the tagged field "
                "(ints, floats, strings, bools, nil pointers, nil/empty/non-empty slices); random well-typed trees to depth 4 (6) printed "
                "with minimal and with redundant parentheses and random spacing; random untyped trees; token soup and damaged expressions. "
                "Many values of ONE run-time generated struct type through ONE validator (op vdm; fresh, configured or the process-wide default "
                "validator, whose cache is carried from case to case): 2-5 values in sequence, one or two passes; 2-4 evaluations interleaved at a "
                "scheduling point (a validator function vdpt() registered through ValidateConfig.MustRegValidateFunc, placed among the arguments of "
                "in/len/regexp calls or beside them): each evaluation is suspended there while the next value is validated, then resumed in either "
                "order; 4-16 goroutines validating their own value 400 (1000) times at once; expressions built around function calls and chosen so "
                "that the values get different verdicts.",
        "exhaustive_note": "operator sequences up to the stated length and the template x value table are enumerated completely; the rest is sampled",
        "level_text": "Proved in Lean for all operand/operator sequences of any length and any operator semantics: the rotation of "
                      "sortPriority terminates, keeps the token order, never panics, and its result is the unique precedence tree "
                      "(documented priorities, left-to-right associativity) = the tree of an independent precedence parser; priority table, "
                      "operator lexer and the text of the three rotation functions regenerated from expr.go on every run. Lexer, coercions, "
                      "float64 arithmetic, len/in/regexp and the accept rule of validator.Validate are an executable Lean model compared with "
                      "the real code on every case; the expected verdict comes from an independent evaluator in the harness. "
                      "Proved for the model of the cached, shared compiled tree: a value's verdict is the same alone, in a batch compiled once "
                      "(verdict_independent_of_batch) and after any history of validations on the same validator's per-type cache "
                      "(verdict_independent_of_history); funcExprNode.Run taken in the Go code's steps (buffer allocated by the call, one argument per "
                      "step, function body) and run for several values at once under any schedule gives each evaluation its own sequential answer "
                      "(func_eval_schedule_independent, func_eval_completes), which is false when the buffer belongs to the node "
                      "(node_owned_buffer_fails_at); the field list of funcExprNode and the body of its Run are regenerated from spec_func.go on every "
                      "run (func_run_source_matches_gen).",
        "level_note": "Not proved: float64 arithmetic, strconv/fmt conversions and regexp (compared, on small values / a pattern subset); "
                      "absence of panics is proved for every operator node and every operand-node constructor (after the two repairs in /repo); "
                      "its lifting through the parser's recursion to whole expressions is open (TODO-OPEN in Props/C20.lean) and is covered by "
                      "the differential runs. One recorded finding: a nil-valued expression is accepted.",
        "assumptions": ["Go's float64, strconv.ParseFloat, fmt.Sprint and regexp are the reference for the compared residue",
                        "reflect.StructOf types behave like declared struct types for the tag reader",
                        "concurrent evaluations of one compiled tree are explored at the scheduling points vdpt() (deterministic) and by "
                        "real parallel execution (sampled); the step model of concurrent evaluation covers function-call nodes only - "
                        "operator, group, selector and regexp nodes are taken as atomic and stateless"],
        "timeout": {"quick": 300, "thorough": 2400},
        "trusted": ["independent expression evaluator in harness/c20.go (expected verdicts)"],
    }

PROPS["C08"] = {
        "modules": ["Hertz.Props.C08"],
        "rule": "Real Engine (StaticFS, ctx.File, PathRewrite routes) over a temp directory, one H1 request per in-memory connection: "
                "file lengths 0..12 (quick) / 0..20 (thorough) x every syntactic Range form with numbers 0..14 / 0..22 (a-b, a-, -n) plus 66 "
                "malformed / non-numeric / multi-range / overflowing variants and the empty value x GET/HEAD x AcceptByteRange on/off; files of "
                "8191..8194 and 20000 bytes (MaxSmallFileSize +-1) through all three route kinds with boundary ranges; index.html and generated "
                "directory index pages; Compress with and without Accept-Encoding; missing files; an expiring file cache; random interleavings over "
                "shared engines / cached files / pooled readers; ~50 listed + random traversal paths against the StaticFS routes. Direct calls: bytesconv.ParseUint (short strings "
                "exhaustively, 64-bit boundary values, random 17-22 digit strings), app.ParseByteRange (same forms x lengths 0..12 and 14 huge lengths), "
                "ResponseHeader.SetContentRange. Cache sequences (op fscache, harness/c08cache.go): fsHandler.handleRequest called directly, "
                "265 (quick) / 4545 (thorough) scenarios of 4..20 steps over 1..3 names: files of 0..20000 bytes (8191/8192/8193 around "
                "MaxSmallFileSize) or a directory with/without index.html; GET/HEAD, Range (16 forms), If-Modified-Since; responses HELD (body "
                "stream neither read nor closed) while further requests for the same name arrive; the file removed / replaced by another file "
                "/ by a directory in between; CacheDuration (40 ms) passing and the cleaner running (observed through sentinel files); every "
                "held body finally read and closed. Directed family: {small,big} x {in flight, 304, pooled, two in flight, HEAD} x {nothing, "
                "removed, replaced by directory, by file, by directory with index, expired, removed+expired} x 4 follow-ups. Observed after "
                "every step: status, Content-Length, Content-Range, body bytes (length + FNV-64), number of open descriptors below the scenario "
                "directory (/proc/self/fd), ff.readersCount and len(ff.bigFiles) of the file behind every held response (reflection).",
        "exhaustive_note": "lengths x range forms x method x AcceptByteRange are enumerated completely up to the stated bounds; the rest is sampled",
        "level_text": "ParseUint (overflow test included), ParseByteRange, AppendUint, SetContentRange, both UpdateByteRange implementations and the "
                      "range part of fsHandler.handleRequest are modelled in Lean function by function (slices and indexes checked, AppendUint's panic "
                      "kept). Proved at full strength for all header values, file contents, lengths < 2^63, methods, reader kinds and AcceptByteRange "
                      "settings: ParseUint accepts exactly the digit strings below 2^63 with their value; ParseByteRange = RFC 7233 single-range rule "
                      "(headers naming a position >= 2^63 are rejected), accepted ranges lie inside the file and are the RFC range; the decision never "
                      "panics or delivers a short body, Content-Length = last-first+1 = |body|, Content-Range reads back as (first,last,length), body = "
                      "that slice, HEAD = GET headers without body, small/big/dir-index readers agree. Former defect witnesses (bytes=-1 on an empty "
                      "file, bytes=-0, the 20-digit wrap-around) are regression examples and replayed against the Go code on every run. Statement "
                      "skeletons of the seven Go functions are regenerated from source and pinned by model_matches_gen.",
        "level_note": "The file cache and the reader reference counts are a Lean state machine (Model/FsCache.lean: every fsFile with count, reader "
                      "pool, open/cached/pending/expired flags; live readers; the tree) mirroring handleRequest / NewReader / bigFileReader / both "
                      "Close / decReadersCount (its panic is a fault outcome) / cleanCache statement by statement; proved by induction over EVERY "
                      "op sequence: no_refcount_panic, readers_count_is_live_readers, count_never_negative, file_closed_only_when_unreferenced, "
                      "live_reader_file_open, failed_open_leaves_counts_unchanged, pooled_reader_not_live, reader_in_one_place, reopened_file_is_cached_file; the list of count/Release/cache-map sites of ALL functions of fs.go "
                      "is regenerated and pinned (model_matches_gen_refcounts). Requests are sequential in the model (cacheLock). "
                      "reopened_file_is_cached_file: every reader (held or pooled) reads the file object its fsFile was made from (os.SameFile check after the re-open by name, 435a1ed; the former finding is a regression example and corpus case). "
                      "Partial: compression, index page generation and the OS are exercised by the "
                      "correspondence only; path containment is C07's theorem and is only exercised here, for StaticFS routes (ctx.File has no root). "
                      "Trusted: Lean kernel, gen/c08.go (go/ast statement skeletons), harness/driver.",
        "assumptions": ["file length is a Go int (< 2^63)",
                        "an invalid Range value (wrong unit, several ranges, last < first, non-digits) may be answered 416 instead of being ignored",
                        "a position >= 2^63 in a Range header may be answered 416",
                        "os.File.ReadAt/Seek and io.LimitedReader deliver the bytes of the file at the given offsets",
                        "the harness is the oracle for which file a plain request path names"],
        "timeout": {"quick": 300, "thorough": 1500},
    }

PROPS["C05"] = {
    "modules": ["Hertz.Props.C05"],
    "rule": "Every string of <=3 (thorough <=4) tokens over {a, CR, LF, NUL, ':', SP} as header name and as header value through every header-writing "
            "entry point (RequestHeader/ResponseHeader Set, Add, SetCookie, Trailer.Set, method, URI, User-Agent, Host, Content-Type, Server, "
            "Content-Encoding, RequestContext.Header/Redirect/SetCookie/SetContentType, appendHeaderLine itself), plus random setter scripts of 1..6 "
            "calls with hostile strings; the real Header() bytes are compared with the model computed from a dump of the object's state. "
            "X05: PROGRAMS of 1..8 public API calls (24 request-header calls, 27 response-header / RequestContext calls incl. SetCanonical, Del, "
            "SetArgBytes/AddArgBytes, SetCookie/DelCookie with all ten cookie attributes, Trailer().Set/Add, SetContentLength, DisableNormalizing) over the "
            "alphabet {a, CR, LF, NUL, ':', SP, HTAB, '=', ';', ','} and names colliding with the special headers in odd case, run on the real objects: "
            "the state after EVERY call and the final Header() / req.Write / resp.Write bytes are compared with the Lean model of the setters; every "
            "string of <=2 (thorough <=3) alphabet tokens through every entry point, as name and as value, and as method / request URI / query string / "
            "path / host of a Request written by req.Write.",
    "exhaustive_note": "all hostile strings up to the stated length are enumerated for every entry point",
    "level_text": "For ALL states of the header objects (every field an arbitrary byte string) the Lean model of the three serialisers is proved to read back, "
                  "under a strict line reader, as one start line plus exactly the kept fields, names valid, CR/LF neutralised (table facts over the regenerated "
                  "tables). The emission skeleton of the Go serialisers is regenerated on every run and proved to write raw bytes only for the start line and "
                  "the closing CRLF. Model bytes are compared with the real Header() output on every explored state. "
                  "X05: the public setters are modelled statement by statement (special-name dispatch, key normalisation, cookie and trailer parsing); for EVERY "
                  "program of calls with arbitrary byte arguments: the head is one start line plus the fields of expectedFields(program) (api_program_head_lines), "
                  "every field name is a fixed special name or a key some call passed (fields_only_from_calls), at most #calls + 7 fields, method and request URI "
                  "come only from SetMethod/SetRequestURI, and - since the repair /repo 910b0dd (appendRequestLinePart: SP, CR, LF of method and request target "
                  "percent-encoded) - the request line has exactly two SP and no CR/LF for EVERY method and request-URI bytes (request_line_single, "
                  "request_line_written; regression theorems request_line_single_repaired(_uri), request_target_repaired on the former witnesses; a part is "
                  "written unchanged iff it has none of the three bytes), so request_head_lines / api_program_head_lines need no hypothesis on the request line; "
                  "AppendQuotedPath and the query-argument serialiser never write SP/CR/LF (request_target_partial); the Set-Cookie line is one line for every cookie.",
    "level_note": "Trusted: Lean kernel, translator (tables, emission skeleton), harness state dump hook (read-only). The request line was written raw by hertz until /repo 910b0dd "
                  "(former finding start-line-raw; witnesses kept in corpus/C05/start-line-repaired.txt); the response status line and the Date value are Go's (hypothesis NoCRLF). "
                  "In op apitarget the flag parsedQueryArgs (no accessor) is derived by the harness from the script (QueryArgs() was the last of "
                  "{SetRequestURI, SetQueryString, QueryArgs()}).",
    "assumptions": ["the response status line (consts.StatusLine) is free of CR/LF"],
}

PROPS["C04"] = {
    "modules": ["Hertz.Props.C04"],
    "rule": "Connections of 1..4 pipelined requests (GET/POST/PUT/HEAD, HTTP/1.0 with/without keep-alive and 1.1, close) answered by handler programs over "
            "{status 100..599 incl. 1xx/204/304} x {no body, SetBody, AppendBody/Write, SetBodyStream with known length (also shorter/longer than declared), "
            "unknown length (chunked, with trailer), io.LimitedReader, hijacked chunked writer with random write/flush/empty-write scripts} x sizes "
            "0,1,..,4095,4096,4097,8192,10000 on the real Engine over the scripted connection.",
    "level_text": "Lean model of resp.Write/writeBodyStream/SetContentLength/MustSkipBody/WriteChunk/WriteHexInt and the chunked body writer; theorems for all "
                  "inputs: hex chunk sizes round-trip, streamed and hijacked-writer bodies decode (strict chunk reader) to exactly the bytes written for every "
                  "read/write/flush pattern with the remainder untouched, bodiless statuses and HEAD carry no body, Content-Length equals the bytes sent. "
                  "The real bytes are decoded by the strict Lean reader AND by net/http and compared with the model's framing and body on every case.",
    "level_note": "Trusted: Lean kernel, translator, harness/driver; header block covered by C05. Hijacked writer on a bodiless response is the documented exclusion. "
                  "Open: the single end-to-end decode statement joining head and body theorems (checked per case).",
    "assumptions": ["net/http.ReadResponse as second opinion", "standard transport"],
}

PROPS["C13"] = {
        "modules": ["Hertz.Props.C13"],
        "rule": "Whole operation sequences on the real standard.Conn (hook VerifNewConn) over a scripted in-memory net.Conn: "
                "(1) every reader op sequence of length <=3 (quick) / <=4 (thorough) over {Peek 1,2,5; Skip 1,3; ReadByte; ReadBinary 2; Read 1,3; Release; Len} "
                "x all 8 fragmentations of a 4-byte stream + 4 error/EOF endings; (2) every sequence of length <=3/<=4 over 11 ops with sizes "
                "4095/4096/4097/8193 around the 4 KiB node boundary x 4 fragmentations of an 8202-byte stream; (3) every writer sequence of length <=3/<=4 over "
                "Malloc/WriteBinary of 0,1,4095,4096,9000 bytes and Flush, on standard.Conn and network.NewWriter, with and without a failing Write; "
                "(4) random sequences (<=60 / <=200 ops; parser-like, free and hostile modes; sizes 0..20 KiB and 512 KiB+-1, 600000; fragments 1 B..20 KiB; "
                "errors and zero-length reads injected at any point; 13 initial buffer sizes). Observed per op: returned length, FNV-1a of returned bytes, "
                "error class, Len(); peeked slices are re-hashed after every op and before every Release/Read; per Flush: bytes the peer received. "
                "Memory level (op c13m: reader + writer + caller + allocator on ONE connection; the caller keeps every slice it was handed, fills Malloc "
                "reservations late, rewrites buffers it passed to WriteBinary before Flush; op X drains the mcache pools of all size classes in use, overwrites "
                "the blocks and gives them back): (5) family (2) up to length 2/3 with X after every op; (6) 240 peek/skip/Release/X/peek-again sequences; "
                "(7) every sequence of length <=3/<=4 over {Malloc now / reserved / late fill, WriteBinary 100,4095,4096,5000, rewrite buffer 0/1, Flush, X}, "
                "with and without a failing Write; (8) 500/4000 random mixes (<=40/<=80 reader ops). The Lean memory model (heap of blocks, free list, allocator choice varying "
                "with seed and position, same scribbling) predicts every output incl. the peer's bytes after a rewrite; the driver derives from the model which "
                "peeked slices are protected and flags a change of one; per case it also checks memory model = list model on all reader outputs.",
        "exhaustive_note": "families (1)-(3), (5)-(7) are enumerated completely up to the stated length; (4), (8) are sampled",
        "level_text": "Lean theorems for all operation sequences and all wire scripts (no size bound): the model of standard.Conn never panics or spins, "
                      "every returned slice is a prefix of the bytes sent and not yet consumed, consuming ops remove exactly what they return "
                      "(acceptance by the byte-queue spec Spec.Fifo), Len() = buffered-but-unconsumed bytes, non-releasing ops only append to blocks "
                      "(peek stability), Flush hands the peer exactly the pending bytes in order. Model held to the Go code by differential runs; "
                      "the spec acceptors (bytes, Len/size/error rules, writer) are evaluated on the implementation's own reports.",
        "level_note": "Trusted: Lean kernel, harness/driver, the scripted net.Conn (Read never returns more than asked, Write is all-or-error). "
                      "Memory level (Model/ConnMem.lean): mcache is a free list from which ANY freed block of the capacity class may return (theorems quantify "
                      "over the choice) and whose blocks may be overwritten at any time; proved for all states and choices: ownership_invariant, "
                      "peeked_ref_stable_mem, write_by_reference_contract, reserved_ref_stable_until_flush, flush_clears_references. Open: the refinement "
                      "memory model -> list model as a theorem (checked per case by the driver).",
        "assumptions": ["sizes passed to Peek/Skip/ReadBinary/Malloc are >= 0 (negative sizes are API misuse: Skip(-k) silently grows Len())",
                        "net.Conn.Write returns n < len(p) only together with an error, and the harness only injects (0, err)",
                        "mcache.Malloc returns capacity = next power of two (gopkg v0.1.0)"],
        "timeout": {"quick": 300, "thorough": 1500},
        "search_timeout": 45,
    }

PROPS["C14"] = {
    "modules": ["Hertz.Props.C14"],
    "rule": "StreamRequestBody on. Op sserve (in-loop idle wait): exhaustive stop points 0..len+2 x read sizes {1,3,64} for bodies of 0,1,5,17,40 bytes (the last one is chunk payload that "
            "looks like chunk framing followed by a request), fixed-length and chunked with random chunking, each followed by a pipelined probe request; plus "
            "random streams of 1..3 requests (bodies up to 65537 bytes, chunked with trailers, malformed, truncated, stalled) x consumption programs "
            "(read size 1..100000, stop point 0..100000) under random segmentation. "
            "Op sservex adds three dimensions and the generator's ground truth: (a) idle style of the transport {in-loop IdleTimeout>0, return-to-poller IdleTimeout=0 on a "
            "non-standard transport: Serve returns after every kept-alive request and is entered again while unread input remains}; (b) read time-outs in the middle of "
            "the stream (one Read of the connection fails with a net time-out, then the following bytes are readable; k time-outs in a row for a pause longer than k read "
            "time-outs); (c) handlers that call Read again up to 3 times after a failed Read. Cases: both idle styles x exhaustive stop points x read sizes {1,3,64} for "
            "bodies of 0,1,5,17 bytes and three payloads that read as chunk framing / a trailer section / an empty line followed by a complete request, fixed / one chunk / "
            "random chunks with trailer; fixed-length bodies longer than the 8 KiB prefetch (8193, 8192+a complete request; thorough also 9000, 20000, 65537) x stop points "
            "{0,1,8191,8192,8193,len-1,len,len+2} x read sizes {7,4096,16384} x {peer closes, stalls}; three partly read requests in a row; EVERY time-out offset of a "
            "short chunked stream (second chunk 0x2b/0x30 bytes) and of a fixed-length stream x stop points {0,3,5,6,100}, single and double time-outs; chunk sizes "
            "0x10,0x25,0x30,0x100,0x101,0x1000 with the pause at every offset around every size line, chunk end and last chunk, x1 and x2 (thorough x3), payloads starting "
            "like the end of a body; the same with retrying handlers; pauses inside the un-prefetched part of a long body; 300 (thorough 20000) random streams of 1..3 "
            "well-formed requests with 1..3 pauses at message boundaries and elsewhere; 1500 (thorough 50000) streams of the general request generator with idle style, "
            "0..2 pauses and retries at random (no ground truth).",
    "exhaustive_note": "all stop points of the small bodies are enumerated for both encodings and both idle styles; all time-out offsets of the short streams are enumerated",
    "level_text": "Lean model of the body stream (prefetch, Read for fixed and chunked bodies, skipRest) inside the keep-alive loop, in both idle styles of the transport and with read "
                  "time-outs anywhere in the stream, compared with the real server for every consumption program; theorems for fixed-length bodies and all inputs: bytes read are a "
                  "prefix of the body, never more than asked, EOF only at the end, and the next request is parsed from exactly the first byte after the body. Spec step, on the real "
                  "server's output: no request is ever taken from body bytes (the embedded '/smuggled' request never reaches a handler), no panic, no hang; for streams built from "
                  "complete messages, against the generator's ground truth and without the model: the requests handed to handlers are an initial run of the requests sent, each "
                  "handler read a prefix of its request's body with end-of-stream only at its end, every final response belongs to a request sent and a request that arrived whole "
                  "before any time-out is answered 200 if at all.",
    "level_note": _H1_NOTE + " Whether a well-formed unread chunked remainder is drained or the connection closed depends on buffering (both allowed by the property); "
                  "chunked-body theorems are open and covered per case. 'Reads never block beyond the body' is runtime: a blocked read shows up as HANG. The return-to-poller "
                  "style is driven as netpoll drives it (Serve re-entered while input remains; a pause that falls on a message boundary never fires) over the scripted connection, "
                  "not over netpoll itself. After a failed Read the model follows the stream no further: what a retried Read returns is judged by the spec predicate only.",
    "assumptions": ["standard transport buffer (standard.Conn) under both idle styles; netpoll's own buffer is not exercised"],
}

PROPS["C11"] = {
    "modules": ["Hertz.Props.C11"],
    "rule": "Requests built through the client API (8 methods x 8 URL shapes incl. query, userinfo, IPv6, dot segments x query args x headers x cookies x "
            "body as bytes / stream of known or unknown length with trailer / form arguments; also proxy form) serialised by the real req.Write; and server "
            "responses (status lines incl. bodiless and interim 100, 17 header-line shapes incl. obs-fold and malformed, fixed / chunked+trailer / until-close "
            "bodies, size limit, HTTP/1.0) read by the real resp.ReadHeaderAndLimitBody over the scripted connection with EOF or stalled peer under random "
            "segmentation, and under ALL two-way splits for a sample. Sequences of 2..6 exchanges through the real client.Client/HostClient.Do against an "
            "in-memory keep-alive peer (op c11seq): ONE Request object per sequence that is fresh / Reset / released to the pool and re-acquired / kept as it is "
            "between uses (URL with query, args API Add/Peek, DisablePathNormalizing, headers, cookies, Connection: close, byte and stream bodies); per exchange "
            "a generated response (interim 100, fixed / chunked+trailer / until-close / bodiless, sizes around MaxResponseBodySize incl. oversize documents that "
            "look like HTTP responses, HTTP/1.0, Connection: close, peer closing silently afterwards, 1/8 mutated or truncated, trailing bytes), configurations "
            "MaxResponseBodySize unset/10/64/1000, header-name normalisation on/off, peer delivering 1/7/100 bytes per read, one Response object reused or not, resp.SkipBody set by the application for 1/15 of the exchanges. "
            "Streaming mode (op c11str, client.WithResponseBodyStream(true)): sequences of 2..5 exchanges, per exchange a generated response (as above; limits unset/10/64/1000/20000, peer delivering 1/7/100/5000 bytes per read) and a caller that reads "
            "the body stream with buffers of 1..65536 bytes, stops after 0/1/3/9/10/11/64/100/1000/4096/8192/8193/9000 bytes or reads to EOF, then closes the stream / never closes it / hands the same Response object to the next Do. "
            "Interim responses (100 with and without fields, 102, 103, one to three in a row) in front of generated final responses through the bare reader, the buffered and the streaming client, each followed by a second exchange. "
            "Multipart writer (op mpwrite): 0..4 parts through protocol.AddMultipartFormField / WriteMultipartFormFile on a mime/multipart.Writer with random 60-hex-digit and short boundaries; names, file names (blank, with directories) and content types from vocabularies, 1/12 with quotes, backslashes, CR/LF; contents empty / text / look-alike delimiters / 1..1500 random bytes.",
    "level_text": "Lean models of the request writer (header block model of C05 + body encodings of C04) and of the response reader (first line, scanner, 100-continue skip, "
                  "fixed/chunked/identity bodies, limit) are compared with the real code on every case; theorems for all inputs: the size limit is enforced on every accepted "
                  "response, bodiless statuses never carry a body. Spec step: every written request is read identically by the strict decoder, by the model of hertz's own "
                  "server reader and by net/http, AND these are the target and Host of the URL (+ args) the application gave (URI model of C17); every conforming response comes back with the same status, fields and body. "
                  "Sequences: the exchange model (Model/Http1/Exchange: acquire idle or dial, write, Peek(1), ReadHeaders, ReadRespBody with limit, close on any error / Connection: close, "
                  "or a body skipped at the application's wish (resp.SkipBody, /repo 19d2b4c), else release with the unread bytes; ErrBadPoolConn retry of idempotent methods whose body is no stream (/repo 3183d35)) predicts per exchange the bytes the peer receives, the number of dials and the whole result; "
                  "spec per exchange: as long as the peer has conformed so far, the request arrives as given and the response comes back as sent whatever happened before. Theorems for all "
                  "inputs: a failed exchange never returns its connection to the pool; on a pool without unread bytes every exchange returns what its own response bytes give alone, for every sequence, also when the application sets SkipBody for some of the requests (a skipped body never goes back to the pool); after any Do, with or without a retry and whatever its outcome, resp.SkipBody is what the application set (skip_flag_restored, response_object_keeps_application_flag; /repo 07a471c).",
    "level_note": _H1_NOTE + " HostClient.Do's pool/retry logic is C10; multipart uploads (fields, file readers delivering content in pieces around the 512-byte sniffing buffer) are written by the real code and decoded by net/http and by hertz's own reader, the multipart syntax itself is mime/multipart's and is not modelled; the second stage of req.handleMultipart (ReadForm + MarshalMultipartForm, map order) is mime/multipart's. "
                  "Streaming mode (Model/Http1/RespStream.lean = prefetch of ReadBodyWithStreaming + the C14 bodyStream model + clientRespStream.Close/release callback) is compared token by token with the real client (c11str); two values are taken from the implementation and checked for admissibility instead of predicted: the prefetched length when Content-Length exceeds the limit, and whether a well-formed rest of a chunked message was drained or the connection closed (depends on buffering). MaxResponseBodySize is NOT enforced in streaming mode (it bounds the prefetch; theorem stream_mode_limit_not_enforced). 101 + Connection: Upgrade (connection handed to the application) is not modelled. Known findings: interim 1xx other than one 100 taken as the final response (pool poisoned), Content-Disposition parameters written unescaped, bodyStream.Read panic when the peer sends more than Content-Length into the prefetch. In c11seq all URLs of a sequence share one authority (one pool); the read deadline of the in-memory peer expires at once when it has nothing to send.",
    "assumptions": ["net/http.ReadRequest as second opinion", "header values set by the application are free of control bytes (CR/LF are C05; NUL etc. are written verbatim)"],
}

PROPS["C19"] = {
    "modules": ["Hertz.Props.C19"],
    "rule": "Exhaustive: every history of <=3 (quick) / <=4 (thorough) requests over the 13-kind outcome alphabet {ok, body, chunked, "
            "handler panic, malformed header, body too large, peer closes mid-body, write error now, write error on the next write, "
            "hijack, handler-initiated close, Connection: close, Expect: 100-continue} x end of connection {peer close, idle time-out} "
            "x idle style {in-loop IdleTimeout>0, return-to-poller IdleTimeout=0, standard transport 0->-1} at trace level detailed with "
            "recovery middleware; every history of <=2 (quick) / <=3 (thorough) x trace level {disabled, base, detailed} x "
            "{recovery, no recovery (unwinding panic), DisableKeepalive, no tracer}; delivery pipelined / one segment per request / "
            "random segmentation; plus random histories of 1..8 requests mixing the alphabet with the general HTTP/1 request generator "
            "(all body sizes, chunking, header noise), 25% mutated or truncated (malformed stream), random level / flags / body limit; "
            "the F9 witness (two requests, then peer close / idle time-out) in all three idle styles first.",
    "exhaustive_note": "all histories up to the stated length over the 13-kind alphabet x both connection ends x three idle styles are enumerated; longer histories are sampled",
    "level_text": "Proved in Lean for every configuration with a tracer, every trace level, every connection history of every length "
                  "(per iteration: idle-peek answer and one of 16 paths through Server.Serve incl. header/body read errors, 100-continue "
                  "failures, unwinding handler panic, write/flush/release errors, hijack, close, keep-alive) and any number of Serve "
                  "calls per connection (return-to-poller transports): tracer Start/Finish calls alternate beginning with Start, at "
                  "every moment #Finish <= #Start <= #Finish+1, the log ends on Finish; the n-th pair's handler and Finish receive the "
                  "context the n-th Start returned; Finish still sees the data of exactly the request handled inside the pair; Start "
                  "sees an event table holding nothing of an earlier request; Finish sees start <= read-header <= read-body <= handle "
                  "<= write <= finish with every started stage finished and Stats().Error() matching the HTTPFinish status. The model's "
                  "control-flow skeleton (DoStart/DoFinish/Record/push/pop/traceStarted/return sites) is regenerated from server.go on "
                  "every run and must equal the hand-written one; on all 722 paths through a loop iteration every push has its pop "
                  "and the loop-head state is restored; event indices/levels are regenerated from event.go. A recording tracer on the "
                  "real engine over a scripted connection is compared call by call (ids carried through context.Context, request "
                  "target, error flag, which events are present with which status) with the model, and the Lean predicate logOK is "
                  "evaluated on the implementation's own log incl. its real time stamps.",
    "level_note": "Trusted: Lean kernel; translator gen/c19.go (skeleton + event table); harness (recording tracer, scripted net.Conn "
                  "behind the real standard.Conn via hook H1, directive handler, write-failure injection) and driver. Model time is a "
                  "logical clock advanced by every Record; real time stamps (time.Now, monotonic) are checked per case. Streaming "
                  "request bodies, HTTP/2 and netpoll itself are not exercised (the return-to-poller style is driven by re-entering "
                  "Serve while unread input remains). Open: theorem linking the byte-stream classifier to the keep-alive loop model "
                  "(both are compared with the real server instead).",
    "assumptions": ["time.Now() is monotonic (Go monotonic clock reading)",
                    "a RequestContext taken from the pool has empty stats (it was Reset when put back; an exiled context is not reused)",
                    "no user-defined stats events (eventMap has predefinedEventNum slots)",
                    "registered tracers do not panic (Controller.tryRecover would swallow the remaining tracer calls of that DoStart/DoFinish)"],
    "timeout": {"quick": 300, "thorough": 1500},
}

PROPS["C16"] = {
    "modules": ["Hertz.Props.C16"],
    "harness_dir": "harness16",
    "gosum": "cmd/hz/go.sum",
    "rule": "Method lists run through the REAL hz generator (HttpPackageGenerator.Generate + GetFormatAndExcludedFiles, process-global name "
            "maps cleared per case): bounded-exhaustive lists of <=2 routes over 9 paths x {GET, ANY} and of <=3 routes over "
            "{/a, /a/b, /a/c, /a-b, /a_b} (thorough: <=2 over 12 paths x 3 verbs, <=3 over 9 paths, <=4 over the 5 paths), each under all 4 "
            "combinations of sort-router / snake-style and two naming schemes (unique names, names colliding with segments and each other); "
            "random lists of 1-8 (and 1-30) routes over a 14-segment alphabet (params, catch-alls, a-b/a_b/a.b/A/ab collisions, digits, root "
            "and trailing-slash paths, shared prefixes), 8 verbs incl. ANY, repeated handler names, handler-by-method with colliding "
            "output directories, pre-seeded unique-name sets, update of an existing middleware.go (generate k methods, new process, "
            "generate all); a malformed stream (empty path, no leading slash, empty inner segments, '.', '..', reserved characters, "
            "odd-case verbs). Per case: generated router.go + middleware.go parsed and type-checked (go/types) against the export data of the "
            "real hertz packages and the hz-generated handler packages; the body of Register read back into abstract statements, executed "
            "on a real route.Engine and every route probed through ServeHTTP with tracing middleware; plus batches of generated packages "
            "compiled and linked with hertz, Engine.Routes() dumped.",
    "exhaustive_note": "route lists up to the stated length over the stated small path/verb alphabets are enumerated completely under all "
                       "sort-router x snake-style combinations; everything else is sampled",
    "level_text": "Proved in Lean for all method lists (no bound on number of routes, depth or names), all option combinations and all sets of "
                  "names taken earlier: the tree hz renders carries exactly the declared (verb, path elements, handler name) multiset "
                  "(gen_registers_exactly; also for any permuting sort function), the node paths spell the declared path, tree building never "
                  "panics and fails only on an empty path, getUniqueName returns a free name, and in camel style on a fresh directory all "
                  "functions of middleware.go and all variables of Register are pairwise distinct (identifiers_distinct_partial). The statement "
                  "is FALSE of the code for snake-style names, for snake-style update, for group coverage without sort-router, for an empty "
                  "service and for a handler directory called root: witness theorems by decide, each replayed against the real generator. The "
                  "model (statements of Register, functions of middleware.go, imports) equals the real generator's output on every case; the spec "
                  "(valid Go, no duplicate identifiers, registered set = declared set, one group middleware per prefix, every group on the path wraps "
                  "the route, real Engine.Routes() and probe traces) is evaluated on the implementation's output.",
    "level_note": "Trusted: Lean kernel; gen/c16.go (template texts, RouterGroup.Any, probe bound, root node); harness16 (go/parser + go/types against "
                  "gc export data, AST-to-statement reader, interpreter on the real route.Engine; name maps cleared through go:linkname) and driver. "
                  "Not modelled: text/template, go/format, the thrift/protobuf front ends (the model starts from the HttpMethod list). Open (checked per "
                  "case, not proved): denotation theorem interp(stmts tree) = routes of tree with ancestor chains; one-group-per-prefix under "
                  "sort-router; identifier distinctness for camel-style updates.",
    "assumptions": ["ASCII paths and names (unicode.IsLetter/IsDigit in removeNonLetterPrefix modelled on ASCII)",
                    "paths of the quantifier are clean: leading slash, no empty inner segment, no '.'/'..' segment, no quote or backslash (the template "
                    "writes the path into a Go string literal unescaped); other paths are compared with the model but the spec only judges the route set",
                    "sort.Sort is the insertion sort Go uses for <=12 elements (cases with a wider node are compared by spec only); the route-set "
                    "theorem holds for every permuting sort",
                    "handler_path (OutputDir) values are clean relative paths; method names are Go identifiers",
                    "default templates (no custom layout file)"],
    "timeout": {"quick": 300, "thorough": 2400},
}

PROPS["C09"] = {
    "modules": ["Hertz.Props.C09"],
    "rule": "State level (rst): for each of 19 reset methods of RequestContext/Request/Response/RequestHeader/ResponseHeader/URI/Args/Cookie/Trailer "
            "(incl. the serve-loop tail and the pool put), every single-step program over the whole reflected method alphabet plus 220 (quick) / 4000 "
            "(thorough) random programs of 0-100 exported-method calls with type-driven arguments, body-retention limit in {default,0,16,4096}; the full "
            "field-level state is dumped before and after the reset. End to end (probe): 11 dirty requests (GET, form POST, multipart, chunked+trailer, "
            "HEAD, HTTP/1.0, 100-continue, 4 malformed) x 15 flag sets (abort, panic under recovery, error, hijack, streaming, no normalising, small "
            "retention) x random handler programs over every exported method of the context and its request/response objects; then a fixed probe on "
            "the same connection and on another connection of the same engine, compared with a new engine. Public pools (pool): Acquire/Release of "
            "Request/Response/URI/Cookie and Args.Reset. Concurrency (probec): 8x12 (quick) / 12 runs of 16x60 (thorough) connections in parallel. "
            "Ownership (own): on one real engine 1-4 scripted connections of 1-4 requests (GET, small/large Content-Length, chunked, broken chunked, "
            "100-continue, multipart, malformed, truncated) x body use (none/partial/full) x ending (keep-alive, Connection: close, hijack with and "
            "without KeepHijackedConns / the hijack handler closing 0, 1 or 3 times, Exile, unrecovered panic, write failure, IdleTimeout 0, skipRest error) with GOMAXPROCS(1) and the "
            "GC off, identities of context / body stream / hijack conn reported by the handlers, then k=2-4 streamed uploads in flight together "
            "(barrier) that must each read their own body, then ctxPool, bodyStreamPool and hijackConnPool are drained completely; the Lean state "
            "machine is replayed on the reported Get choices and must end with the same pool contents.",
    "exhaustive_note": "every single-step program over the complete reflected alphabet of exported methods (all receiver objects) is run for every reset "
                       "method, for the end-to-end probe and for each pooled type; all 11 x 15 request-variant/flag combinations with the empty program; the rest is sampled",
    "level_text": "The reset bodies of all nine pooled types are translated from the Go source into Lean on every run (statement by statement; capacity "
                  "tests become universally quantified Booleans). Proved for all states and all outcomes of the capacity tests: after Request.Reset/"
                  "ResetWithoutConn, Response.Reset, URI.Reset, Cookie.Reset, Args.Reset, Trailer.Reset the observable state is that of a new object (also through any "
                  "history of the sync.Pool model); after RequestContext.ResetWithoutConn/Reset it is that of a new object EXCEPT "
                  "exactly two fields (reset_exact): exiled and hijackHandler (cleared by the serve loop itself: serve_recycle_fresh_partial) "
                  "- for these the full statement is refuted on concrete witnesses (reset_fresh_fails_at, checked against "
                  "the real code) and proved under the excluding hypotheses. every_field_accounted: each Go field is written by the reset closure or "
                  "allow-listed, decided over the generated tables. The generated functions are run by the driver on states dumped from the real objects "
                  "and must reproduce the real post-state field by field; end-to-end probes through the real server compare every exported getter. "
                  "Ownership (Model/PoolOwn.lean): pools are multisets of identities with an unconditional Put; one connection's Serve is a state "
                  "machine over its acquire/release sites (which are regenerated from the source with their guards: release_sites_match_gen); for "
                  "every event sequence of any length and any interleaving of connections: no_double_put, no_use_after_put, distinct_owners, "
                  "every_acquired_released_or_owned (with the list of deliberate non-releases: exiled context, body stream on write failure / "
                  "unrecovered panic, hijack conn still held by the user when Serve returns) - at full strength without KeepHijackedConns, "
                  "with the hypothesis NoStale otherwise.",
    "level_note": "Trusted: Lean kernel; the go/ast translator gen/c09.go (its output is additionally compared with the real objects on every state-level "
                  "case); harness/driver. Abstractions: slices are lists (nil vs empty and retained capacity are not modelled - stale capacity is "
                  "covered by the differential runs only); interface/func/map/chan values are opaque tokens (0 = nil); closing of channels/streams and "
                  "traceInfo.Reset are effects outside the state. sync.Pool is modelled as 'Get returns some Put object or a new one'; goroutine "
                  "migration is sampled (probec), to be run under -race manually. The ownership state machine covers RequestContext, bodyStream and "
                  "hijackConn; body byte buffers, eventStack, multipart form and traceInfo are only in the generated site list. The user's Close() "
                  "calls on a hijack conn are events of the state machine (any number, hijack_close_idempotent; repaired in 4f1f5ed); the "
                  "ownership theorems exclude exactly one call (NoStale): a holder that already released its conn closing again after the "
                  "object was re-acquired by another connection (stale_close_fails_at). Known finding: exiled-survives-reset.",
    "assumptions": ["handlers do not call the configuration setters SetConn/SetBinder/SetValidator/SetClientIPFunc/SetFormValueFunc/SetTraceInfo/"
                    "SetEnableTrace/Request.SetIsTLS/SetMaxKeepBodySize (these survive recycling by design) and do not lower the chain index (SetIndex)",
                    "RequestHeader.GetBufValue (accessor of the scratch buffer) is not an observation",
                    "panics are caught inside ServeHTTP (recovery middleware or PanicHandler); a panic that unwinds through Serve returns the context to the pool with its hijack handler still set",
                    "sync.Pool returns an object previously Put or a new one"],
    "timeout": {"quick": 200, "thorough": 1500},
}

PROPS["C15"] = {
    "modules": ["Hertz.Props.C15"],
    "rule": "Struct types built at run time with reflect.StructOf (1..6 fields; kinds bool, int/int8..64, uint/uint8..64, float32/64, string, "
            "T, *T, **T, []T, []*T, *[]T; any subset of the tags path/form/query/cookie/header/json written in either order, names incl. empty and '-', "
            "options required/omitempty/odd option strings; default tag) bound by the real binding.Bind from requests that place values in any subset "
            "of path params, post args (API, urlencoded body or multipart body), query, cookies, headers (case variants of keys, repeated keys, empty "
            "values) and a JSON body (typed, mistyped, null, duplicate and case-variant keys, six content-type spellings, truncated body); "
            "bounded-exhaustive priority table for one int field and one []int8 field: every subset of the six tags x (none | one tag required) x "
            "default or not x every subset of sources carrying a distinct value; cold/warm orders A B A on a session binder, then the global binder, "
            "then a fresh binder; a malformed stream (hostile keys/values/option strings); batches of 16 goroutines binding 4 types on one cold binder; "
            "sequences of calls of the six entry points that reach the field decoders (Bind, BindAndValidate, BindPath, BindForm, BindQuery, "
            "BindHeader) on ONE binder with its five per-type decoder caches (one case = one whole sequence): every ordered triple of entry points "
            "on each of three fixed multi-source types x three requests, and random sequences of 2..8 calls over 1..3 run-time types, each call with "
            "its own request, run sequentially on a fresh binder, sequentially on the package-level default binder, or all calls concurrently.",
    "exhaustive_note": "one-field priority table: 64 tag subsets x up to 7 'required' positions x default yes/no x 64 presence subsets "
                       "(int field: all 57k cases in both tiers; []int8: every 7th in quick, all in thorough; *string: thorough); the rest is sampled",
    "level_text": "Proved in Lean for all tag lists, requests and field types (no size bound) about the model of the two field decoders: the tags reach "
                  "the decoder in the priority order path, form, query, cookie, header, json read from decoder/tag.go on every run "
                  "(priority_matches_documented, tags_in_priority_order); the first consulted text source that carries the key decides and clears "
                  "earlier 'required' errors (picks_first_present, _slice); the json tag, last, keeps the pre-bound value for any letter case of the JSON content type (json_value_kept; regressions ct_case_regression, slice_header_regression); "
                  "a missing required value is an error whatever the other tags are (required_is_error, _slice; F12 regression f12_regression); a "
                  "field nothing carries keeps zero or gets its default (default_kept_partial, _slice); the per-type decoder cache is transparent for "
                  "every sequence of binds (pure_function); with the five caches of defaultBinder kept apart as tagCache does, every sequence of "
                  "calls of Bind / BindAndValidate / BindPath / BindForm / BindQuery / BindHeader on one binder returns, call by call, the "
                  "cache-free function of entry point, type and request (entry_points_pure, bind_unaffected_by_earlier_calls; the cache table, "
                  "the tag each entry point passes and the load/store discipline of bindTag are read from binding/default.go on every run: "
                  "entry_points_match_gen; a shared cache provably breaks Bind: shared_cache_breaks_bind), and the tag-restricted entry points "
                  "equal their one-source specification for all types and requests (tag_entry_points_refine_spec). One statement is false of the code and kept as a decide-checked witness "
                  "(default_kept_fails_at). The model is compared with the real Bind on every case, and a declarative "
                  "spec (first named source in documented order that carries the key) is evaluated on the implementation's output.",
    "level_note": "Partial. Trusted: Lean kernel, translator (tag order, SelectTextDecoder table, getter tables), harness/driver. Residue, sampled only: "
                  "the sync.Map decoder cache and concurrent binds of the real code (the Lean cache is a list), JSON decoding (sonic; the body reaches the "
                  "model as a member list), strconv.ParseFloat (three-valued classifier; unknown texts are copied from the implementation), multipart "
                  "parsing. Open: refinement theorem model = declarative spec outside the known-finding classes (checked per case).",
    "assumptions": ["64-bit platform (int/uint are 64 bits), default BindConfig (LooseZeroMode off, default tags on, sonic decoder, no custom type decoders)",
                    "tag names and keys contain no '.', header tag names are not special header names (Host, Content-Type, Cookie, ...), ASCII content types",
                    "the names encoding/json knows the fields by are pairwise distinct up to case; json:\"-\" carries no options",
                    "top-level fields of the listed kinds only (no nested structs, maps, arrays, raw_body, file_name, vd)",
                    "BindAndValidate is exercised on types without validation tags only (needValidate false): it must equal Bind; BindJSON / BindProtobuf / BindByContentType use no decoder cache and are outside the model",
                    "Args / cookie / header containers return what was put in (C17, C05); strconv and sonic are taken as they are"],
    "timeout": {"quick": 120, "thorough": 1500},
}

PROPS["C18"] = {
    "modules": ["Hertz.Props.C18"],
    "rule": "Scenarios against a REAL server instance on a loopback TCP port (server.New + Run in a goroutine; standard and netpoll "
            "transports): 1..6 client connections per scenario of the kinds busy across the shutdown call (handler ends shortly after / "
            "long after the deadline), idle keep-alive (held open / closed by the client during the wait), mid-request (header block split "
            "around the shutdown call), keep-alive with a late request after shutdown began, bursts of short requests, new connections "
            "around and after the shutdown, hostile peers (garbage bytes, abrupt close); ExitWaitTimeout 5..3000 ms; 0..3 hooks fast / slow / "
            "beyond the deadline; second Shutdown sequential or concurrent; Shutdown of a never-started engine; randomised timings "
            "around the CAS instant; 12 fixed corner scenarios first; plus the deterministic race 'Shutdown between MarkAsRunning and Listen' and 150 (quick) / 400 (thorough) pairs of "
            "simultaneous Shutdown calls released by a spin barrier. "
            "Every observed event sequence (accept, handler entry/exit, complete response + Connection: close flag, client close/EOF, "
            "dial results, Shutdown call/return/error, hook start/end, Run return; recorded under one lock, microsecond stamps) must be "
            "accepted by the Lean interleaving model (search over the unobservable atomic steps; the witness is re-run with Hertz.Shutdown.run) "
            "and must satisfy the trace spec Hertz.ShutdownSpec.violations.",
    "level_text": "Proved in Lean for every action sequence of the interleaving model (any number of connections, callers, hooks, any exit wait): "
                  "status never decreases; every Shutdown caller other than the one that won the CAS (sequential, racing, or on a non-running "
                  "engine) returns errStatusNotRunning without any waiting phase; every started request is answered completely or still in flight and its next "
                  "step is always enabled whatever the shutdown does; a response whose handler returned after the status flip carries "
                  "Connection: close; past the spawn step all hooks are spawned and a return before the deadline has waited for all of them; "
                  "if transport.Shutdown found the listener no connection is accepted afterwards; under prompt scheduling Shutdown returns "
                  "within ExitWaitTimeout + one ticker period of its CAS; no phase of Shutdown can block for ever. One full-strength statement "
                  "is false of the code and is proved negated on a concrete witness (Shutdown between MarkAsRunning and Listen leaves a "
                  "listening server behind - reproduced on the real server on every run; known finding C18-shutdown-before-listen). The model is held to "
                  "the code by regenerated constants / call order (model_matches_gen) and by trace validation against real servers; the trace spec "
                  "is evaluated on the implementation's own event sequence.",
    "level_note": "Partial: the interleaving model is hand-written at the granularity of atomic operations; the Go scheduler, the kernel's TCP "
                  "state machine, netpoll's event loop, wall-clock bounds (checked with 1 s slack, retried once) and liveness under fairness are "
                  "runtime residue. Trusted: Lean kernel, translator, harness/driver. Open: model-run => trace-spec theorem; ghost-free "
                  "trace form of close_after_shutdown.",
    "assumptions": ["the peer keeps reading (no write errors); IdleTimeout/ReadTimeout longer than the scenario",
                    "no service registry (Deregister is the no-op registry); no hijacked connections; no TLS",
                    "netpoll: modelled as tick = 0 and 'Shutdown closes connections that have not started a request'; its event loop is trusted",
                    "wall-clock bounds carry 1 s scheduling slack and are re-tried once before being reported"],
    "timeout": {"quick": 240, "thorough": 1500},
    "search_timeout": 420,
    "trusted": ["net/http response reader used by the test clients"],
}

NOT_CLAIMED = {}


# ---- after the proof-deepening round: what the added theorems say, and what is still open -----------------------
def _upd(pid, add_text, note_old=None, note_new=None):
    p = PROPS[pid]
    p["level_text"] = p["level_text"] + " " + add_text
    if note_old is not None:
        assert note_old in p["level_note"], (pid, note_old)
        p["level_note"] = p["level_note"].replace(note_old, note_new)


_upd("C02", "Proved for all inputs (Props/C02, 21 theorems): a request head, a fixed or chunked body, a trailer section and a client "
     "response head that parsed to a verdict other than need-more parse to the same verdict with the same consumed length when bytes are "
     "appended (head_prefix_stable, body_prefix_stable, trailer_prefix_stable, resp_head_prefix_stable); hence 'parse what is buffered, on "
     "need-more read and parse again' equals parsing the whole for every segmentation (retry_eq_whole_segments, "
     "client_read_segmentation_invariant); handled requests are never revised by later bytes (served_prefix_stable).",
     "Client-side (response) segmentation is covered under C11.",
     "The in-place edits the real scanner makes in the connection buffer ARE part of the model since X02 (Model/Http1/ScanEdit: key "
     "canonicalised where it lies, folded value compacted and right aligned, retry = scan(edit(buf) ++ more)); the model's buffer is compared "
     "byte for byte with the real one (ops scanblk / hdrbuf: the public HeaderScanner and the real resp/req/trailer readers on the real "
     "standard.Conn, every cut of fold-heavy header blocks). Proved for all buffers: the edits are confined to the consumed bytes, bytes "
     "behind them and bytes appended later are untouched (edit_prefix_local, edit_appended_untouched), the answers are those of the pure "
     "scanner (edit_answer_is_scan), scanning the edited buffer again changes nothing - same fields, stop, consumed count, buffer "
     "(edit_idempotent, edit_preserves_reading, trailer_second_pass_writes_nothing). 'Rescan after edit = one scan of the whole' was false of the code (an obs-folded value was compacted before it was "
     "complete; found while stating the theorem) and is repaired in /repo (c627e0d: Next answers need-more instead); the model follows "
     "(scanNextN/scanBlockN: need-more with only the key rewritten) and the statement is proved WITHOUT hypothesis for every buffer and "
     "every segmentation (rescan_after_edit_eq_whole, rescan_after_edit_eq_whole_segments), for the header objects "
     "(resp_headers_rescan, trailer_rescan), the whole response head (resp_head_rescan) and the resp.ReadHeader loop on the edited "
     "buffer over any number of reads (client_read_with_edits_segmentation_invariant); rescan_after_edit_eq_whole_repaired is the "
     "regression on the former witnesses, rescan_without_needmore_rule_fails_at keeps the fact that the rule is needed; a recurrence is "
     "a plain violation (no class). Still with the old hypothesis: the whole ext.parseTrailer with its optional 0-CRLF line "
     "(trailer_parse_rescan_partial, about the scanner without the rule); the section behind it is unconditional. Body-reader error verdicts other than too-large are not claimed "
     "stable (a stream cut inside a chunk-size line is 'bad' only because it ended there).")
_upd("C03", "Also proved for all inputs: every chunk size the reader accepts is below 2^63 (parsed_chunk_size_is_int, over the regenerated "
     "digit bound), and with a body limit configured no request whose body exceeds it ever reaches a handler (oversize_never_handled).")
_upd("C04", "The end-to-end statement is proved (response_decodes): for every header state the setters can reach, every body kind, HEAD or "
     "not, every trailer and every following bytes, the strict decoder applied to the written message returns exactly the status, the kept "
     "fields and the body, and leaves the following bytes untouched (also two_responses_decode; decimal AppendUint round trip).",
     "Open: the single end-to-end decode statement joining head and body theorems (checked per case).",
     "Excluded by explicit hypotheses, each with a witness theorem replayed on the real server: the hijacked chunked writer on a HEAD answer "
     "(documented exclusion), status codes outside 100..999 (written verbatim), body streams shorter than declared. A handler setting "
     "Content-Length after SetBodyStream(r,-1) used to produce both framings: repaired in /repo (db53447).")
_upd("C06", "Acceptance is proved order independent as well (accepted_iff: a list is accepted iff every registration is valid and no two share "
     "method and parameter-name-erased pattern; accepted_order_independent; route_set_semantics joins acceptance and dispatch).",
     "Open: order independence of *acceptance* is checked differentially only.",
     "Which registration of a conflicting set is refused, and with which class, does depend on order (refusal_class_depends_on_order), as in the code.")
# X06: iterative find, engine options, group paths
_upd("C06", "The ITERATIVE find of tree.go (the loop as written: program points top/body/Param/Any, backtrackToNextNodeKind with the searchIndex / "
     "paramIndex restore, the params backing array, tsr, the epilogue) is modelled (Model/RouteIter.lean) and proved equal to the recursive find on "
     "every well-formed tree and every path, with termination within 4 x #nodes program points and no run-time panic (find_iter_eq_rec, "
     "find_iter_terminates); ServeHTTP around it (trailing-slash redirect 301/307, HandleMethodNotAllowed 405 over the other method trees, NoRoute "
     "404, 400) is modelled and the dispatch theorem is transferred to it with the no-handler outcome characterised (dispatch_selected_iter, "
     "no_match_no_handler). The correspondence check now runs the iterative model against the real engine, status included, under all 32 settings "
     "of RedirectTrailingSlash/HandleMethodNotAllowed/UseRawPath/UnescapePathValues/RemoveExtraSlash. The dispatch theorems hold at full strength "
     "for every option setting, unescaping included (the find of 59ce9b1 keeps the raw text while searching and unescapes in the epilogue: "
     "find_iter_eq_rec_unescape, params_are_unescaped_substrings); the former finding C06-unescape-backtrack (a handler ran for a path no pattern "
     "matches) is repaired in /repo and its three witnesses are a regression theorem (dispatch_selected_iter_repaired) and corpus cases. RouterGroup path assembly (joinPaths, lastChar, path.Join, path.Clean) is modelled, held to the real functions, "
     "and registration through any nesting of groups is proved to be registration of the flat list of absolute patterns "
     "(route_set_semantics_groups, group_path_is_join, group_path_no_panic).",
     "the recursive formulation of the iterative find (validated by the correspondence)",
     "that node.parent pointers agree with the tree structure (the iterative model keeps the ancestor chain as a stack; validated by the correspondence)")
_upd("C06", "", "path.Join (pattern cleaning) and URI normalisation are taken from the implementation; redirect-vs-404 for unmatched paths is not modelled (status copied).",
     "URI normalisation (C07) and utils.CleanPath under RemoveExtraSlash are taken from the implementation (the harness reports the rPath the engine "
     "routes on); RedirectFixedPath is off; the Location of a redirect is not compared. Open: registered_pattern_clean and the n-step form of "
     "group_path_is_join (idempotence of path.Clean) are checked per case only.")
PROPS["C06"]["rule"] += (" X06: the same observation under every one of the 32 option masks (op rtx: all ordered pairs of accepted clean patterns of <=2 "
                         "segments on a GET and a POST tree with GET/POST/PUT lookups, random sets with escaped values and doubled slashes, methods incl. CONNECT); "
                         "wide nodes (17-26 static children under one prefix, ascending / descending / shuffled registration, splits inside children); "
                         "RouterGroup nestings of depth 0..2 (3) over 17 prefixes incl. '', '/', 'a', '/a/', '//a', 'a//b', '/:x', '/*y', '/a/../b', '.', '..' "
                         "plus random ones (op grp), path.Clean on all strings of length <=6 (9) over {/ . a} and random byte strings (op pclean), path.Join pairs (op pjoin).")
PROPS["C06"]["assumptions"][0] = "node.parent is the node that holds the child (maintained by insert; the iterative model keeps the ancestor chain)"
PROPS["C06"]["assumptions"][2] = "RedirectFixedPath is off; fewer than 65536 bytes per pattern"
_upd("C07", "Equality of the normalizePath model with the decode-once-then-resolve-with-a-stack reference (normalize_eq_reference) and "
     "containment of the CleanPath model (cleanPath_contained) are proved for every byte string.",
     "Not proved: equality with the stack reference (checked per case), CleanPath containment (checked per case).",
     "No functional reference is stated for CleanPath (containment only).")
_upd("C10", "Proved in addition: every event the sequential simulator emits is accepted, for every script (seq_program_accepted); on a wire "
     "refinement of the pool machine (per-connection queues of written requests and unread answers, peer answering in order and only when "
     "asked) the response a caller reads is the answer to the request that caller wrote on that connection (response_belongs_to_caller), a "
     "pooled connection has an empty wire (pooled_connection_wire_empty); the honest-peer assumption is necessary (peer_assumption_needed).",
     "Response-belongs-to-caller and the timeout bound are runtime checks in the harness (echoed request id, exclusive-use flag, duration), not Lean theorems.",
     "The client-side guards of the wire refinement are read off doNonNilReqResp and are not trace-validated (hook H2 records lock regions "
     "only); the harness keeps checking the echoed request id per call. The timeout bound is a runtime check.")
_upd("C11", "Proved for all inputs: the response reader model applied to the writer model's bytes returns status, fields, body and trailers "
     "and leaves the following bytes (response_roundtrip, response_roundtrip_trailers); the strict request decoder applied to the request "
     "writer's bytes returns method, target, fields, body and trailers (request_decodes); the 15-digit chunk-size bound is tight "
     "(chunk_size_limit_tight).")
_upd("C13", "Also proved: every model run is accepted by the control acceptor (Len/size/error-justification rules: refines_fifo_ctl), and the "
     "pointer-level form of peek stability (peek_in_block, peeked_slice_unchanged, block_ids_distinct).")
_upd("C14", "The chunked counterparts are proved for every chunking, hex spelling and read plan: bytes read are a prefix of the de-chunked "
     "body (chunked_reads_prefix, chunked_reads_all), after the handler stops the connection is closed or positioned exactly behind the "
     "trailer section (chunked_resync_exact), a read error closes the connection and nothing after it is parsed (stream_error_closes, "
     "nothing_after_stream_error). This proof found the '0'-named trailer defect repaired in /repo (f1dae26).",
     "chunked-body theorems are open and covered per case.",
     "trailer lines with a leading blank (obs-fold) on the read-to-the-end path are outside the chunked theorems.")
_upd("C15", "The refinement to the declarative specification is proved (bind_refines_spec_partial: model = spec for every field list and "
     "request outside the known-finding classes, for fields not named '-' whose tag keys are distinct), with its ingredients "
     "(header_key_normalisation, first_source_is_first_hit, prebind_is_json_value).",
     "Open: refinement theorem model = declarative spec outside the known-finding classes (checked per case).",
     "A repeated tag key (query:\"-\" query:\"a\") reaches the known finding dash-only-default through a shadowed tag; the generator emits no repeated keys.")
# extension X15: nested struct types and streamed bodies
PROPS["C15"]["rule"] += (" Nested struct types (extension X15, `nbind` cases): field trees of depth up to 6 below the root with 1..3 struct-typed sibling "
    "fields per level (by value, *S, **S, embedded), leaves of all supported kinds with tags for several sources, one spine to full depth; "
    "requests with text sources for every leaf (own keys per leaf in 3 of 4 types, one small shared key pool in the rest), a nested JSON "
    "document (objects, null, mistyped members, case variants of keys, promoted members of embedded structs), delivered in the request "
    "buffer, as a body stream (SetBodyStream, known length) or as a drained stream; EVERY request is bound twice through one fresh binder "
    "(Bind then BindAndValidate or the other way round) and both outcomes are compared with the model and the specification.")
PROPS["C15"]["assumptions"] = PROPS["C15"]["assumptions"] + [
    "nested types: JSON names contain no '.'; a key whose value is an object is not repeated inside one object; the names an embedded struct "
    "promotes do not clash with names of the enclosing struct; allocation of pointer-to-struct parents is not observed (a nil pointer is "
    "rendered as a struct of zero leaves); a drained body stream is combined with JSON or empty bodies only"]
_upd("C15", "Nested struct types are inside the model (Model/BindNested.lean: getFieldDecoder with parentIdx / parentJSONName per child, decoders "
     "addressing leaves by full index path with a fault outcome, the body state buffered / stream / drained): two different leaves never "
     "get the same index path (index_paths_distinct, index_paths_are_the_leaves) and, for every tree and every request without exclusion, no "
     "decoder ever addresses a path that is not a leaf (nested_bind_never_faults); a nested leaf decoder is the top-level decoder on the "
     "request focused on the enclosing JSON object (nested_leaf_is_top_level_field); for every field tree of any depth and width and every "
     "request, outside the known-finding classes, Bind gives every leaf exactly the value of the first present source its own tags name "
     "(nested_bind_refines_spec_partial; witness of the excluded behaviour nested_bind_refines_spec_fails_at; the second former witness is a regression theorem since /repo 1242bf1: embedded_default_repaired, and promoted embedded structs are now inside the refinement theorem: embedded_types_inside_refinement); "
     "binding the same request twice gives the same result in every body state and a streamed body is bound as a buffered one "
     "(bind_idempotent_on_request, bind_independent_of_body_delivery, both_binds_refine_spec_partial).")

_upd("C16", "Proved in addition, for both naming styles: interpreting the generated Register registers exactly the declared routes with "
     "every wrapping group on the path (register_denotes_declared_routes), one group per prefix under sort-router "
     "(register_denotes_sorted), variables pairwise distinct, every middleware called is declared, and identifiers stay distinct through an "
     "update in camel style.",
     "Open (checked per case, not proved): denotation theorem interp(stmts tree) = routes of tree with ancestor chains; one-group-per-prefix under sort-router; identifier distinctness for camel-style updates.",
     "Open: sorted coverage for methods with an empty verb; completeness of middleware functions after an update of a user-edited file.")
_upd("C17", "URI and cookie round trips are proved for all inputs: parsing FullURI() of a URI built from components gives back scheme, host, "
     "path, query and fragment and formatting again is a fixed point (uri_roundtrip, uri_fixed_point), except exactly when the fragment holds "
     "a control byte, where everything is lost (uri_fragment_ctl_loses_everything, the known finding); parsing a serialised response cookie "
     "returns key, value and all attributes (cookie_roundtrip_partial; the entirely empty cookie serialises to the empty string).",
     "their Lean theorems are open.", "agreement with net/url and cookie expiry (Go's time formatting) are compared, not proved.")
_upd("C18", "Four clauses of the trace specification the driver evaluates on the real server are proved empty for every run of the model "
     "(close-after-shutdown in ghost-free trace form, no accept after shutdown, second shutdown errors, in-flight requests complete).",
     "Open: model-run => trace-spec theorem; ghost-free trace form of close_after_shutdown.",
     "Open: the spurious-close, hooks-run, bounded and prompt clauses of the trace spec for model runs; liveness under fairness.")
_upd("C19", "The byte-stream classifier is proved to refine the keep-alive loop model on their common ground (classify_refines_serve), so for "
     "every byte stream there is exactly one Start/Finish pair per handled request of the loop model and at most one more for an exchange "
     "that failed before the handler (tracer_pairs_per_request).",
     "Open: theorem linking the byte-stream classifier to the keep-alive loop model (both are compared with the real server instead).",
     "Outside the common ground of the two models: hijack, unwinding panic, write errors, handler-initiated close, return-to-poller idle style.")
_upd("C20", "Absence of panics is proved for whole expressions: the parser never panics, never runs out of fuel and builds precedence trees "
     "also inside groups and function arguments (parse_builds_precedence_trees), and validation of an expression whose tree shows no missing "
     "operand never panics (validate_no_panic_complete); the one remaining panic site is an operator without its right operand inside a "
     "group or argument (developer-written tag text; validate_no_panic).",
     "its lifting through the parser's recursion to whole expressions is open (TODO-OPEN in Props/C20.lean) and is covered by the differential runs.",
     "a purely lexical description of 'no missing operand' is not given (the condition is stated on the rendering of the compiled tree).")
_upd("C01", "The round trip is proved for every list of well-formed requests of any size (serve_roundtrip, serve_own_bytes, "
     "serve_refines_spec): the handler sees exactly the requests that were encoded, each with its own method, target, fields, body and "
     "trailers, in order, up to the first close; the independent strict decoder reads the same encoding back (spec_decodes_encoding).",
     "Open: model-refines-strict-decoder theorem (checked per case).",
     "Open: field-line spellings other than 'name: value' (no/several blanks, HTAB, obs-fold), which are compared modulo whitespace per case; "
     "trailer sections that differ from their declaration.")
_upd("C01", "The round trip is proved for every field-line spelling the strict decoder accepts - any optional whitespace (SP / HTAB) around "
     "the value, obs-fold lines, header and trailer section - and for empty lines before a request (serve_roundtrip_ows, "
     "serve_refines_spec_ows, serve_roundtrip_blank_lines); HTAB as optional whitespace was a defect found by this proof and repaired.",
     "Open: field-line spellings other than 'name: value' (no/several blanks, HTAB, obs-fold), which are compared modulo whitespace per case; "
     "trailer sections that differ from their declaration.",
     "Open: trailer sections that differ from their declaration, other spellings of the Trailer declaration.")
_upd("C04", "The whole message computed from the model (header model on a dump of the real header object + body framing) is compared byte "
     "for byte with the real wire on every case; handler programs also set Content-Length / Transfer-Encoding explicitly and answer "
     "through the resetting helper AbortWithMsg.")
_upd("C11", "Also proved: bodiless statuses, answers to HEAD (SkipBody is part of the reader model and of the respread op) and "
     "read-until-close responses round-trip (response_roundtrip_bodiless, _HEAD, _until_close).")
_upd("C14", "Obs-folded trailer lines are covered too (chunked_resync_exact_folded).")
_upd("C14", "For the extended loop (both idle styles, read time-outs anywhere in the stream) it is proved that without time-outs and with the in-loop "
     "idle wait it is the plain model (no_timeout_is_plain_model), that a failed body read - a time-out included - is followed by nothing but that "
     "request's response whatever arrives later (nothing_after_stream_error_any_style), that the connection goes on at exactly the rest the release of "
     "the body stream left, in return-to-poller style as a first iteration (after_means_next_entry_from_rest, poll_reenters_at_rest), and that the one "
     "time-out the code swallows (bytesconv.ReadHexInt after at least one digit) leaves a whole size line read exactly as if unsplit and makes a cut one "
     "refused (whole_size_line_timeout_invisible, cut_size_line_is_refused).")
_upd("C17", "Agreement with net/url is proved (args_agree_std): a Lean model of url.ParseQuery, compared with the real net/url on every "
     "case, and for every string it accepts hertz's parse equals its result minus pairs with both key and value empty.",
     "agreement with net/url and cookie expiry (Go's time formatting) are compared, not proved.",
     "cookie expiry (Go's time formatting) is compared, not proved; that the Lean model of url.ParseQuery is net/url rests on the per-case comparison.")
_upd("C17", "Extension: cookie_roundtrip now includes the expires attribute (all ten attributes; Go's RFC 1123 date codec is modelled and the date "
     "round trip proved on years 0000-9999), and the setter side is proved as programs: args_program_roundtrip, request_cookie_roundtrip, "
     "uri_program_roundtrip (Parse, setters, user-info, QueryArgs mutations, Update), update_never_panics; the query conjunct of uri_program_roundtrip holds in every state since RequestURI chooses by parsedQueryArgs (/repo 97b0e80) - the former second known finding is the regression theorem uri_stale_query_repaired.",
     "cookie expiry (Go's time formatting) is compared, not proved; that the Lean model of url.ParseQuery is net/url rests on the per-case comparison.",
     "that the Lean models of net/url (Spec/UrlQuery) and of Go's time package (Model/HttpDate) compute what the real packages compute is compared per case, not proved.")
_upd("C18", "run_satisfies_spec: all nine clauses of the trace specification hold of every model run under explicit hypotheses; the spec "
     "predicate was repaired in four situations where it rejected legitimate runs, and a ninth clause (no request started on a "
     "connection after an early successful return) was added.",
     "Open: the spurious-close, hooks-run, bounded and prompt clauses of the trace spec for model runs; liveness under fairness.",
     "Open: 'the driver accepts a trace' does not yet imply 'some model run has exactly this projection incl. time stamps'; the clock "
     "discipline idealises the scheduler (the 1 s slack stands for it); liveness under fairness.")

# --- XG: tie by translation + proof ------------------------------------------------------------------------------
# gen/funcs.go translates these Go leaf functions mechanically into lean/Hertz/Gen/Funcs.lean on every run (scheme:
# gen/FUNCS.md, target language lean/Hertz/GoSem.lean); Hertz.Props.Tie proves each translation equal to the hand model
# on ALL inputs.  The module is built and audited with every property that relies on one of the functions.
TIED = {
    "C01": "CaseInsensitiveCompare, NormalizeHeaderKey, NextLine, IsBadTrailer, LowercaseBytes, ParseUintBuf/ParseUint (against both hand models)",
    "C03": "CaseInsensitiveCompare, NormalizeHeaderKey, NextLine, IsBadTrailer, ParseUintBuf/ParseUint (against both hand models)",
    "C05": "appendHeaderLine, newlineToSpace, CaseInsensitiveCompare",
    "C08": "ParseUintBuf (with its overflow test and 64-bit arithmetic), ParseUint, ParseByteRange (never panics; for 0 <= contentLength)",
    "C17": "AppendQuotedArg, AppendQuotedPath, decodeArgAppend, decodeArgAppendNoPlus",
    "C11": "resp.isInterim (the interim status codes ReadHeaders skips), CaseInsensitiveCompare",
}
for _p, _f in TIED.items():
    PROPS[_p]["modules"] = PROPS[_p]["modules"] + ["Hertz.Props.Tie"]
    PROPS[_p]["level_text"] += (" Tied by translation+proof (no sampling): the Go source of " + _f + " is translated mechanically "
                                "(gen/funcs.go) on every run and proved equal to the model for all inputs (Hertz.Props.Tie).")
    PROPS[_p]["trusted"] = PROPS[_p].get("trusted", []) + ["Go->Lean function translator gen/funcs.go + lean/Hertz/GoSem.lean (semantics of the translated subset)"]
# X04 (agent x-04): the connection after a response
_upd("C04", "Sequencing is proved (Model/Http1/RespSeq = the write side of Serve's keep-alive loop; Spec.Resp.decodeSeq = the client): for every "
     "list of exchanges the client reads back exactly the responses up to the first closing one, each starting where the previous one ends "
     "(responses_decode_in_sequence); a body stream shorter than declared is the last thing on the wire for every continuation and can never "
     "be taken for a complete message (short_stream_closes, short_stream_undecodable, short_stream_is_detected); Connection: close is announced "
     "exactly when Serve closes, keep-alive to HTTP/1.0 peers, nothing follows (close_decision_*, no_response_after_close). Op respq compares "
     "the whole wire of pipelined connections (short / failing / (n,EOF) streams, hijack, malformed last request) with the model byte for byte.")
PROPS["C04"]["rule"] += (" X04: connections of 2..4 pipelined requests (Connection absent/close/keep-alive/Keep-Alive/Close/upgrade, HTTP/1.0 and 1.1) whose "
                         "handlers use declared-length streams ending early with io.EOF at 0, 1, n-1 bytes, at a whole number of 4096-byte buffers or anywhere, "
                         "ending with a read error, returning (n, io.EOF) together, exact and longer streams, chunked streams, io.LimitedReader, HEAD, "
                         "SetConnectionClose, Hijack, and a malformed last request answered by Serve itself.")
# X03: totality of the public parsers, error responses well-formed
_upd("C03", "Extension X03: the public parsers of untrusted data are re-stated with the index/slice/table expressions of the Go source (fault = none, "
     "fuel for loops; Model/NoFault*.lean) and proved total for every input: URI.Parse incl. splitHostURI, user-info cut, query/fragment cut and "
     "normalizePath (uri_parse_total, split_host_uri_total, normalize_path_total), percent decoding and Args.ParseBytes (decode_arg_total, "
     "args_parse_total), Cookie.ParseBytes and request cookie lists (cookie_parse_total, request_cookies_total), ParseByteRange (range_parse_total), "
     "IsBadTrailer (trailer_parse_total, equal to the list model), RequestHeader.MultipartFormBoundary (multipart_boundary_total); and every non-200 "
     "response of the loop model is on the wire exactly one 4xx message with Connection: close under the strict decoder of C04 "
     "(error_response_wellformed; bytes compared with the real writeErrorResponse).",
     "Public parsers of URIs/cookies are covered under C17/C07; client response path under C11.",
     "Public parsers: each checked model is diffed against the real code under recover() on hostile input and compared with the list model of "
     "C07/C08/C17 on every case; their equality is proved only for IsBadTrailer. Not re-stated with checked indexing (sampled tie only): the "
     "request-head / body / trailer / response readers of the loop model, utils.CleanPath's stack buffer; Go's time and mime/multipart are trusted.")
PROPS["C03"]["rule"] += (" Public parsers (ops nf*): every string of <=3 (thorough <=4) tokens over a hostile alphabet per parser behind several heads, "
                         "every truncation / single deletion / single hostile replacement and random mutations of valid inputs, runs of one byte of "
                         "length 63..65, 127..129, 4095..4097; malformed streams for the byte-exact error response (nferr); Engine.Serve with the H2C sniffer "
                         "on/off around the HTTP/2 client preface (nfh2c); chunked bodies whose first k chunk sizes sum exactly to the limit; "
                         "unallocatable Content-Length / chunk sizes on the client reader.")
# X14: handlers that consume a streamed body through hertz's own request API (op sapi, harness/c14api.go)
PROPS["C14"]["rule"] += (
    " Op sapi (request API on a streamed body; the program is applied to the upload requests, the pipelined probe has a handler that does not touch the body): programs "
    "{none, Read loop, MultipartForm, FormValue, PostForm, MultipartForm then reading the remainder, Body(), BodyWriteTo, CloseBodyStream, ResetBody, SetBodyStream(wrapper) then reads "
    "through the wrapper, reads then Body()} x framing {Content-Length (multipart pre-parsing off, so streamed), chunked with arbitrary chunking, chunked with trailers} x body kind "
    "{multipart/form-data with two fields and a file of 0..5000 bytes, optional preamble, epilogue of 0, 2, 5, 37, 4095, 4097, 5000, 8193, 9000, 20000 bytes behind the closing boundary; "
    "application/x-www-form-urlencoded up to 9 KB; opaque bytes of 0..20000 that read as HTTP} x {HTTP/1.1, HTTP/1.0 + Connection: keep-alive} x {with, without Expect: 100-continue} x "
    "read sizes {1,7,512,4096,16384} x stop points {0,1,3,10,100,4096,8192,8193,9000,100000} x random segmentation x {peer closes, stalls}; one or two uploads followed by the probe, "
    "with the generator's ground truth (targets, bodies, form contents); malformed chunk framing followed by a complete request under every program; truncated uploads and uploads "
    "whose payload is mutated (no ground truth).")
_upd("C14", "Handlers that consume the stream through the request API: the loop's post-handler step is modelled as in server.go since /repo d6f45a0 (skipRest and the check of a remembered read error "
     "run on the stream the server built, whatever the request references when the handler returns); proved for every program (any read size, stop point, any amount the multipart reader takes): what a form "
     "parse obtains is a prefix of the body (form_parse_reads_prefix, _fixed), the connection is closed or in sync after EVERY program, detached and replaced streams included "
     "(sync_after_any_consumption, _fixed, detached_stream_is_drained_or_closed, sync_after_form_parse, body_all_reads_everything), the extended loop is the earlier loop for attached programs "
     "(attached_is_plain_model) and goes on at exactly the rest (after_means_next_request_from_rest_any_program). The first versions needed a proviso (request still references the stream); the defect behind it was repaired (d6f45a0) and the former counterexamples "
     "are regression theorems (detached_stream_is_drained_or_closed_repaired, sync_after_replaced_stream_repaired, stream_error_closes_after_body_repaired). Spec step for "
     "sapi, against the ground truth: handlers see an initial run of the requests sent, bytes obtained are a prefix (after a form parse: a suffix) of the body, a form API reports "
     "exactly the fields and files sent, a request that arrived whole is never answered with an error.")
PROPS["C14"]["level_note"] += (" The amount mime/multipart takes from the stream is not modelled (bufio read-ahead): the model is evaluated for the two extremes and the theorems hold "
                               "for any amount. A handler that keeps the stream and reads it in a goroutine after returning is not covered.")
# X03b: /repo 6e06925 repairs the former known finding C03-huge-chunk-alloc (both routes)
_upd("C03", "Repaired in /repo 6e06925: a peer-declared body size (chunk-size line or Content-Length) no longer sizes an allocation before the data "
     "arrived; the former known finding C03-huge-chunk-alloc is gone from the driver (a recurrence is a plain violation), its witnesses are the "
     "regression theorem huge_declared_size_repaired (model verdict unexpected-EOF / time-out) and regression cases of the generator.")
PROPS["C03"]["rule"] += (" Declared sizes 2^38+1, 2^40, 2^44 (Content-Length and chunk size, client reader and server) come last: before 6e06925 they "
                         "killed the process with a fatal out-of-memory error, so a regression is a crashed harness (non-zero exit), which bin/check "
                         "reports as a violation naming the announced RISKY-CASE input.")
# ---- X18: the caller's side of shutdown (Spin) and requests that are still arriving ------------------------------------
PROPS["C18"]["rule"] += (
    " X18: the server also runs as a process of its own under Hertz.Spin() with the default signal waiter (op c18spin; both transports): "
    "healthy / failing registry (Deregister error: Shutdown returns early without transport.Shutdown) / stop signal during a slow OnRun "
    "hook (before MarkAsRunning) / requests whose body is still arriving at the signal; 0..4 requests in progress; observed: responses, "
    "exit status and time, whether anything is served later than 120 ms after the signal - compared with the canonical run of the Lean "
    "model Hertz.Spin and judged by ShutdownSpec.spinViolations. In the in-process scenarios requests are also sent in two parts (head + "
    "part of the body before the call, the rest during the wait / after the deadline / never; 1..4 such connections next to busy and idle "
    "ones, both transports): their connections are replayed on the model Hertz.Arrive and judged by clause ten (partlyReceived).")
_upd("C18", "X18: for every prompt run of the Spin layer, after the stop signal Spin returns and the process ends within ExitWaitTimeout in "
     "every outcome of Shutdown (nil, Deregister error returned early, errStatusNotRunning), no phase of Spin can block, a connection can "
     "be accepted after the signal only within that bound and not at all (no time passes) when the engine was not running at the signal "
     "(spin_returns_bounded, spin_never_stuck, spin_never_serves_after_signal); for every run of the arriving-request model, either "
     "transport, the shutdown sets no read deadline, answers no partly received request with an error, cuts none, and the rest of a partly "
     "received request can always arrive and is answered completely until the process ends (partly_received_request_completes); both are "
     "statements about the source as regenerated (spin_model_matches_gen), with witnesses that they fail for a Spin that waits for Run and "
     "for a transport that expires the read deadline of all connections.")
PROPS["C18"]["assumptions"] = [a for a in PROPS["C18"]["assumptions"] if not a.startswith("no service registry")] + [
    "service registry: only 'Deregister succeeds / fails' (Spin layer); no hijacked connections; no TLS",
    "Spin layer: Engine.Shutdown at the granularity of its outcomes (the ticker period is added by shutdown_bounded); main returns right after Spin",
    "a client-side write is taken to have reached the server 10 ms later (loopback) - clause ten judges only requests written that long before the call"]
