# per-property configuration of bin/check
PROPS = {
    "C17": {
        "modules": ["Hertz.Props.C17"],
        "rule": "Exhaustive strings of <=3 (quick) / <=5 (thorough) tokens over a 16-token hostile alphabet "
                "(a % + & = ; # SP %41 %2 %zz NUL 0xff %2B / ?) through quote/decode/parse/fix/net-url ops; "
                "all one- and (sampled) two-entry argument lists over short hostile strings; random longer inputs.",
        "exhaustive_note": "token strings up to the stated length are enumerated completely; the rest is sampled",
        "level_text": "Round-trip theorems (decode . quote = id, parse . serialise = id on argument lists) proved in Lean for all byte strings over the escape tables regenerated from the Go source; model held to the code by differential runs incl. exhaustive short hostile strings; agreement with net/url checked on every accepted string.",
        "level_note": "Trusted: Lean kernel, translator for the 256-byte tables, harness/driver. URI and cookie round-trips: see level_text of later rounds.",
        "assumptions": ["net/url is the reference for args_agree_std", "time formatting is Go's (cookie expiry)"],
    },
}

PROPS["C07"] = {
    "modules": ["Hertz.Props.C07"],
    "rule": "Every string of <=7 (quick) / <=9 (thorough) tokens over {/ . a %2e %2f % \\} through normalizePath and CleanPath, "
            "plus random longer paths built from a segment vocabulary (.., ., %2e%2E, %2f, %252e, ..., random) with mutations.",
    "exhaustive_note": "all token strings up to the stated length are enumerated completely (1.0M strings in quick)",
    "level_text": "Containment (leading slash, no '..' segment, no inner empty or '.' segment) proved in Lean for the model of normalizePath "
                  "for every byte string, including termination of the /../ loop; the model is compared with the Go function on ~1M "
                  "exhaustively enumerated strings per run, and the implementation's output is checked against the stack-machine reference "
                  "and the containment predicate on every case. CleanPath: model compared and predicate checked per case (theorem open).",
    "level_note": "Trusted: Lean kernel, table translator (Hex2intTable), harness/driver. Not proved: equality with the stack reference "
                  "(checked per case), CleanPath containment (checked per case). Windows separator branch not modelled.",
    "assumptions": ["unix build (filepath.Separator == '/')"],
}

NOT_CLAIMED = {}
