# per-property configuration of bin/check
PROPS = {
    "C17": {
        "modules": ["Hertz.Props.C17"],
        "rule": "Exhaustive strings of <=3 (quick) / <=5 (thorough) tokens over a 16-token hostile alphabet "
                "(a % + & = ; # SP %41 %2 %zz NUL 0xff %2B / ?) through quote/decode/parse/fix/net-url ops; "
                "all one- and (sampled) two-entry argument lists over short hostile strings; random longer inputs.",
        "exhaustive_note": "token strings up to the stated length are enumerated completely; the rest is sampled",
        "level_text": "Round-trip theorems (decode . quote = id, parse . serialise = id on argument lists) proved in Lean for all byte strings over the escape tables regenerated from the Go source; model held to the code by differential runs incl. exhaustive short hostile strings; agreement with net/url checked on every accepted string.",
        "level_note": "Trusted: Lean kernel, translator for the 256-byte tables, harness/driver. URI and cookie round-trips: see level_text of later rounds.",
        "assumptions": ["net/url is the reference for args_agree_std", "time formatting is Go's (cookie expiry)"],
    },
}

PROPS["C07"] = {
    "modules": ["Hertz.Props.C07"],
    "rule": "Every string of <=7 (quick) / <=9 (thorough) tokens over {/ . a %2e %2f % \\} through normalizePath and CleanPath, "
            "plus random longer paths built from a segment vocabulary (.., ., %2e%2E, %2f, %252e, ..., random) with mutations.",
    "exhaustive_note": "all token strings up to the stated length are enumerated completely (1.0M strings in quick)",
    "level_text": "Containment (leading slash, no '..' segment, no inner empty or '.' segment) proved in Lean for the model of normalizePath "
                  "for every byte string, including termination of the /../ loop; the model is compared with the Go function on ~1M "
                  "exhaustively enumerated strings per run, and the implementation's output is checked against the stack-machine reference "
                  "and the containment predicate on every case. CleanPath: model compared and predicate checked per case (theorem open).",
    "level_note": "Trusted: Lean kernel, table translator (Hex2intTable), harness/driver. Not proved: equality with the stack reference "
                  "(checked per case), CleanPath containment (checked per case). Windows separator branch not modelled.",
    "assumptions": ["unix build (filepath.Separator == '/')"],
}

_H1_NOTE = ("Trusted: Lean kernel; translator for byte tables and header-name constants; harness (scripted net.Conn behind the real "
            "standard.Conn via hook H1, echo middleware on the real Engine) and driver. The loop model covers buffered request bodies; "
            "multipart pre-parsing is switched off; netpoll transport is not exercised (its Reader is trusted to be a FIFO).")
PROPS["C01"] = {
    "modules": ["Hertz.Props.C01"],
    "rule": "Streams of 1..6 pipelined requests from a grammar generator (methods, targets, repeated/mixed-case/near-miss framing names incl. "
            "bit-5 neighbours, obs-fold, body sizes 0..65537 around 4 KiB/8 KiB, Content-Length or chunked with arbitrary chunk sizes, hex case, "
            "leading zeros, trailers, Expect: 100-continue, close), 85% well-formed, delivered under random segmentation; plus raw request heads.",
    "level_text": "Lean model of the HTTP/1 request reader and keep-alive loop mirrors the Go code and is compared with the real server on every case; "
                  "theorems: framing names are recognised exactly by ASCII-case-insensitive equality (table regenerated from source), every handled "
                  "request is followed by exactly its own response, in order. The implementation's view of each request is checked against an "
                  "independent strict RFC 7230 decoder on every well-formed stream.",
    "level_note": _H1_NOTE + " Open: model-refines-strict-decoder theorem (checked per case).",
    "assumptions": ["standard transport", "DisablePreParseMultipartForm"],
}
PROPS["C02"] = {
    "modules": ["Hertz.Props.C02"],
    "rule": "250 (quick) / 6000 (thorough) streams of <=420 bytes, each under EVERY two-way split, byte-wise delivery and random k-way splits, "
            "plus longer streams under random splits; every run must equal the model's single answer for the concatenation.",
    "exhaustive_note": "all two-way split points of each generated stream are enumerated",
    "level_text": "The model is a function of the concatenated stream; the real server is run under all two-way splits and byte-wise delivery of each stream "
                  "and must match it. Theorems: stability of the header-block completeness pre-check and of delimiter positions under appended bytes.",
    "level_note": _H1_NOTE + " Client-side (response) segmentation is covered under C11.",
    "assumptions": ["standard transport"],
}
PROPS["C03"] = {
    "modules": ["Hertz.Props.C03"],
    "rule": "Mostly malformed streams: structure-aware mutations (byte delete/replace/insert/swap, truncation, bit-5 flips) of generated requests, raw "
            "request heads with hostile lines; EOF or stalled peer at any point; with recover() around the server.",
    "level_text": "Theorem: every error the loop model emits is one 400/413/408 carrying Connection: close, last on the wire, with no handler run; the model "
                  "matches the real server on every malformed stream explored; output bytes are re-parsed by a strict response reader; a panic is an outcome "
                  "the model never produces.",
    "level_note": _H1_NOTE + " Public parsers of URIs/cookies are covered under C17/C07; client response path under C11.",
    "assumptions": ["standard transport", "default engine without recovery middleware"],
}

PROPS["C06"] = {
        "modules": ["Hertz.Props.C06"],
        "rule": "Bounded-exhaustive: every set of <=3 route patterns of <=2 segments over the segment alphabet "
                "{a, ab, :x, :y, b:x, *z, empty} in every registration order (rejected sets included: the model must "
                "refuse the same route with the same class), sets of 4 over the 42 accepted clean patterns (quick: every "
                "31st set in 3 orders; thorough: all 111930 sets in 6 orders), sampled sets of 4-6 patterns of <=3 "
                "segments in 3 orders, random sets of 1-12 routes over a larger alphabet with two methods in two orders, "
                "and a malformed stream (unclean / invalid patterns, hostile request targets); each line carries 12-33 "
                "lookups (paths instantiated from and near the patterns, plus a method without tree) served by "
                "Engine.ServeHTTP on a ut-style context.",
        "exhaustive_note": "route sets of <=3 patterns with <=2 segments over the 7-segment alphabet: all sets x all orders (both tiers); sets of 4 over the accepted clean patterns: all sets in thorough; the rest is sampled",
        "level_text": "Proved in Lean for all inputs (no size bound): for every route list that registration accepts, every method and path, Engine.serve runs the handler of the route selected by the documented priority (literal > :param > *catch-all at the first token where matching patterns differ), reports that route's pattern as full path and binds each parameter to the substring it matched; if no pattern matches no route handler runs; it never panics; the outcome is the same for every registration order of the same set (dispatch_selected, order_independent, accepted_distinct, register_one, insert_preserves, find_best). The model (tree.go insert/addRoute/find, engine.go addRoute/ServeHTTP) is held to the Go code by differential runs including all small route sets in all orders, and the declarative spec is evaluated on the implementation's own output for every lookup.",
        "level_note": "Trusted: Lean kernel, harness/driver, the recursive formulation of the iterative find (validated by the correspondence). Hypothesis of the theorems: patterns shorter than 65536 bytes (countParams is a uint16; with >=65536 wildcards in one pattern the real code panics). Open: order independence of *acceptance* is checked differentially only. path.Join (pattern cleaning) and URI normalisation are taken from the implementation; redirect-vs-404 for unmatched paths is not modelled (status copied).",
        "assumptions": ["path.Join (stdlib) cleans the pattern; the model starts from the absolute path it returns (checked: clean patterns are left unchanged)",
                        "the request path seen by the router is URI().Path() (normalisation is property C07)",
                        "UseRawPath/UnescapePathValues/RedirectFixedPath are off (defaults); fewer than 65536 bytes per pattern",
                        "handlers chains are non-empty (Engine.addRoute asserts it); ctx.Params starts empty (fresh or reset context)"],
        "timeout": {"quick": 240, "thorough": 2400},
    }

NOT_CLAIMED = {}
